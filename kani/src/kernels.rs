use ndarray_stats::interpolate::{Higher, Interpolate, Linear, Lower, Midpoint, Nearest};
use noisy_float::types::{n64, N64};

fn any_q() -> N64 {
    let x: f64 = kani::any();
    kani::assume(x >= 0.0 && x <= 1.0);
    n64(x)
}

// ---- Lower / Higher: the result is exactly the requested neighbour, whatever q and len -----------
macro_rules! select_kernels { ($name:ident, $t:ty) => {
    #[kani::proof]
    fn $name() {
        let l: $t = kani::any();
        let h: $t = kani::any();
        let q = any_q();
        let len: usize = kani::any();
        kani::assume(len >= 1);
        assert!(<Lower as Interpolate<$t>>::needs_lower(q, len));
        assert!(!<Lower as Interpolate<$t>>::needs_higher(q, len));
        assert!(<Higher as Interpolate<$t>>::needs_higher(q, len));
        assert!(!<Higher as Interpolate<$t>>::needs_lower(q, len));
        assert!(<Lower as Interpolate<$t>>::interpolate(Some(l), None, q, len) == l);
        assert!(<Higher as Interpolate<$t>>::interpolate(None, Some(h), q, len) == h);
        assert!(<Midpoint as Interpolate<$t>>::needs_lower(q, len) && <Midpoint as Interpolate<$t>>::needs_higher(q, len));
        assert!(<Linear as Interpolate<$t>>::needs_lower(q, len) && <Linear as Interpolate<$t>>::needs_higher(q, len));
    }
}}
select_kernels!(complete_select_i8, i8);
select_kernels!(complete_select_i64, i64);
select_kernels!(complete_select_u32, u32);

// ---- Midpoint: lower <= r <= higher and |2r - (lower+higher)| <= 1, for every pair whose spread is
// representable in the element type (the other half is the listed known finding) ------------------
macro_rules! midpoint_kernel { ($name:ident, $t:ty) => {
    #[kani::proof]
    fn $name() {
        let l: $t = kani::any();
        let h: $t = kani::any();
        kani::assume(l <= h);
        kani::assume((h as i128) - (l as i128) <= <$t>::MAX as i128);
        let q = any_q();
        let len: usize = kani::any();
        kani::assume(len >= 1);
        let r = <Midpoint as Interpolate<$t>>::interpolate(Some(l), Some(h), q, len);
        assert!(l <= r && r <= h);
        let d = 2 * (r as i128) - ((l as i128) + (h as i128));
        assert!(d >= -1 && d <= 1);
        // all strategies coincide when both neighbours are the same element
        if l == h { assert!(r == l); }
    }
}}
midpoint_kernel!(complete_midpoint_i8, i8);
midpoint_kernel!(complete_midpoint_i16, i16);
midpoint_kernel!(complete_midpoint_i32, i32);
midpoint_kernel!(complete_midpoint_i64, i64);
midpoint_kernel!(complete_midpoint_u8, u8);
midpoint_kernel!(complete_midpoint_u16, u16);
midpoint_kernel!(complete_midpoint_u32, u32);
midpoint_kernel!(complete_midpoint_u64, u64);

// ---- index pair (interpolate.rs lower_index / higher_index / fraction) -----------------------------
// `len` is enumerated concretely (a symbolic 53-bit multiplication does not finish in CBMC), q is
// fully symbolic in [0,1]: bounded in len, complete in q.
use ndarray_stats::verif_hooks::{float_quantile_index_fraction, higher_index, lower_index};

fn index_laws(len: usize) {
    let q = any_q();
    let lo = lower_index(q, len);   // never panics (unwrap of to_usize)
    let hi = higher_index(q, len);
    let fr = float_quantile_index_fraction(q, len).raw();
    assert!(lo <= hi && hi <= len - 1);
    assert!(hi - lo <= 1);
    assert!((lo == hi) == (fr == 0.0));
    assert!(fr >= 0.0 && fr < 1.0);
    if q.raw() == 0.0 { assert!(lo == 0 && hi == 0); }
    if q.raw() == 1.0 { assert!(lo == len - 1 && hi == len - 1); }
    // Nearest selects exactly one neighbour, decided by the fraction
    let nl = <Nearest as Interpolate<i32>>::needs_lower(q, len);
    let nh = <Nearest as Interpolate<i32>>::needs_higher(q, len);
    assert!(nl != nh);
    assert!(nl == (fr < 0.5));
    let l: i32 = kani::any();
    let h: i32 = kani::any();
    let r = <Nearest as Interpolate<i32>>::interpolate(if nl { Some(l) } else { None }, if nh { Some(h) } else { None }, q, len);
    assert!(r == if nl { l } else { h });
    // monotone in q
    let q2 = any_q();
    kani::assume(q.raw() <= q2.raw());
    assert!(lo <= lower_index(q2, len));
    assert!(hi <= higher_index(q2, len));
}
#[kani::proof] fn bounded_index_len1() { index_laws(1); }
#[kani::proof] fn bounded_index_len2() { index_laws(2); }
#[kani::proof] fn bounded_index_len3() { index_laws(3); }
#[kani::proof] fn bounded_index_len4() { index_laws(4); }
#[kani::proof] fn bounded_index_len5() { index_laws(5); }
#[kani::proof] fn bounded_index_len7() { index_laws(7); }
#[kani::proof] fn bounded_index_len10() { index_laws(10); }

// ---- Linear: lower <= r <= higher and |r - exact| <= 1 for the spreads representable in the type --
macro_rules! linear_kernel { ($name:ident, $t:ty, $len:expr) => {
    #[kani::proof]
    fn $name() {
        let l: $t = kani::any();
        let h: $t = kani::any();
        kani::assume(l <= h);
        kani::assume((h as i128) - (l as i128) <= <$t>::MAX as i128);
        let q = any_q();
        let len: usize = $len;
        let r = <Linear as Interpolate<$t>>::interpolate(Some(l), Some(h), q, len);
        assert!(l <= r && r <= h);
        let fr = float_quantile_index_fraction(q, len).raw();
        let exact = (l as f64) + fr * ((h as f64) - (l as f64));
        let d = (r as f64) - exact;
        assert!(d >= -1.0 && d <= 1.0);
        if l == h { assert!(r == l); }
        if fr == 0.0 { assert!(r == l); }
    }
}}
linear_kernel!(bounded_linear_i8_len3, i8, 3);
linear_kernel!(bounded_linear_u8_len4, u8, 4);
linear_kernel!(bounded_linear_i16_len3, i16, 3);
