//! bounded harnesses for the two helpers of the central-moment family that the Verus unit `moments` takes with an
//! assumed contract (`central_moment_coefficients`: an iterator chain outside Verus) or proves only in exact
//! arithmetic (`horner_method`): here they run as compiled, on IEEE-754 doubles, for every content of a short vector.
use ndarray_stats::verif_hooks::{central_moment_coefficients, horner_method};

fn binom(n: usize, k: usize) -> usize {
    // Pascal's rule on small numbers
    let mut row = [0usize; 12];
    row[0] = 1;
    let mut i = 0;
    while i < n {
        let mut j = i + 1;
        while j > 0 { row[j] += row[j - 1]; j -= 1; }
        i += 1;
    }
    row[k]
}

fn same(a: f64, b: f64) -> bool { a.to_bits() == b.to_bits() || (a.is_nan() && b.is_nan()) }

/// coefficient k of the order-p expansion is C(p, k) * m_{p-k}, p = len - 1 (all f64 contents, NaN and infinities included)
fn coefficients<const N: usize>() {
    let m: [f64; N] = kani::any();
    let r = central_moment_coefficients(&m[..]);
    assert!(r.len() == N);
    let p = N - 1;
    let mut k = 0;
    while k < N {
        let want = (binom(p, k) as f64) * m[p - k];
        assert!(same(r[k], want));
        k += 1;
    }
}
#[kani::proof] #[kani::unwind(8)] fn bounded_cm_coefficients_len1() { coefficients::<1>(); }
#[kani::proof] #[kani::unwind(8)] fn bounded_cm_coefficients_len2() { coefficients::<2>(); }
#[kani::proof] #[kani::unwind(8)] fn bounded_cm_coefficients_len3() { coefficients::<3>(); }
#[kani::proof] #[kani::unwind(8)] fn bounded_cm_coefficients_len4() { coefficients::<4>(); }
#[kani::proof] #[kani::unwind(8)] fn bounded_cm_coefficients_len5() { coefficients::<5>(); }

// Horner with two or more symbolic coefficients does not finish (equivalence of two double multiplier circuits is beyond
// CBMC's SAT back end here: > 10 min for c0 + z * c1); the loop structure is covered by the Verus proof instead.
#[kani::proof] #[kani::unwind(6)]
fn bounded_horner_len0_1() {
    let z: f64 = kani::any();
    kani::assume(z.is_finite());
    assert!(same(horner_method(Vec::<f64>::new(), z), 0.0));
    let c: f64 = kani::any();
    kani::assume(c.is_finite());
    assert!(same(horner_method(vec![c], z), c + z * 0.0));
}
