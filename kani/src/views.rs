//! memory-level harnesses for the unsafe view builders of src/maybe_nan/mod.rs (bounded: buffer of 12
//! elements, any start/end/step that ndarray's slicing accepts with |step| <= 3)
use ndarray::prelude::*;
use ndarray::Slice;
use noisy_float::types::N64;

fn any_slice(n: usize) -> (usize, usize, isize) {
    let start: usize = kani::any();
    let end: usize = kani::any();
    let step: isize = kani::any();
    kani::assume(start <= end && end <= n);
    kani::assume(step != 0 && step >= -3 && step <= 3);
    (start, end, step)
}

// cast_view_mut keeps pointer, length and stride: element k of the result is element k of the input
#[kani::proof]
#[kani::unwind(2)]
fn bounded_cast_view_f64() {
    let mut buf = [0.5f64; 12];
    let base = buf.as_ptr() as usize;
    let (start, end, step) = any_slice(12);
    let view = ArrayViewMut1::from(&mut buf[..]).slice_move(s![Slice::new(start as isize, Some(end as isize), step)]);
    let len = view.len();
    let stride = view.strides()[0];
    let first = view.as_ptr() as usize;
    let out: ArrayViewMut1<'_, N64> = unsafe { ndarray_stats::verif_hooks::cast_view_mut::<f64, N64>(view) };
    assert!(out.len() == len);
    if len >= 1 {
        assert!(out.as_ptr() as usize == first);
        assert!(first >= base && first < base + 12 * 8);
    }
    if len >= 2 {
        assert!(out.strides()[0] == stride);
        // the last element stays inside the buffer
        let last = (first as isize + (len as isize - 1) * stride * 8) as usize;
        assert!(last >= base && last < base + 12 * 8);
    }
}

// the Option<T> implementation goes through the same builder (after the fix of D3)
#[kani::proof]
#[kani::unwind(2)]
fn bounded_cast_view_opt_i32() {
    let mut buf = [Some(1i32); 12];
    let (start, end, step) = any_slice(12);
    let view = ArrayViewMut1::from(&mut buf[..]).slice_move(s![Slice::new(start as isize, Some(end as isize), step)]);
    let len = view.len();
    let stride = view.strides()[0];
    let first = view.as_ptr() as usize;
    let out: ArrayViewMut1<'_, Option<i32>> = unsafe { ndarray_stats::verif_hooks::cast_view_mut::<Option<i32>, Option<i32>>(view) };
    assert!(out.len() == len);
    if len >= 1 { assert!(out.as_ptr() as usize == first); }
    if len >= 2 { assert!(out.strides()[0] == stride); }
}

// the typed wrappers end-to-end on symbolic contents: length, address containment, no missing value
// reachable through the not-NaN view (bounded: 6-element buffer, views of <= 3 elements, |step| <= 2)
use ndarray_stats::MaybeNan;

#[kani::proof]
#[kani::unwind(8)]
fn bounded_remove_nan_opt_i8() {
    let mut buf: [Option<i8>; 6] = kani::any();
    let base = buf.as_ptr() as usize;
    let esz = core::mem::size_of::<Option<i8>>();
    let start: usize = kani::any();
    let end: usize = kani::any();
    let step: isize = kani::any();
    kani::assume(start <= end && end <= 6);
    kani::assume(step != 0 && step >= -2 && step <= 2);
    let view = ArrayViewMut1::from(&mut buf[..]).slice_move(s![Slice::new(start as isize, Some(end as isize), step)]);
    let len = view.len();
    kani::assume(len <= 3);
    let stride = view.strides()[0];
    let first = view.as_ptr() as usize;
    let n_present = view.iter().filter(|x| x.is_some()).count();
    let out = <Option<i8> as MaybeNan>::remove_nan_mut(view);
    assert!(out.len() == n_present);
    let ostride = out.strides()[0];
    let ofirst = out.as_ptr() as usize;
    let mut k = 0;
    while k < out.len() {
        let addr = (ofirst as isize + k as isize * ostride * esz as isize) as usize;
        // the address is one of the input view's element addresses
        let off = addr as isize - first as isize;
        assert!(addr >= base && addr < base + 6 * esz);
        if len >= 2 { assert!(off % (stride * esz as isize) == 0 && off / (stride * esz as isize) >= 0 && off / (stride * esz as isize) < len as isize); }
        // and holds a present value
        let e: &Option<i8> = unsafe { &*(addr as *const Option<i8>) };
        assert!(e.is_some());
        k += 1;
    }
}

// ---- the not-NaN wrapper types (unsafe pointer casts and `unreachable_unchecked` in src/maybe_nan) ----------
// loop-free, full-domain symbolic values: complete
use noisy_float::types::N32;

#[kani::proof]
fn complete_notnan_option_i32() {
    let v: Option<i32> = kani::any();
    assert!(<Option<i32> as MaybeNan>::is_nan(&v) == v.is_none());
    match v.try_as_not_nan() {
        None => assert!(v.is_none() && v.is_nan()),
        Some(nn) => {
            assert!(!v.is_nan());
            // Deref of NotNone goes through `unreachable_unchecked` on None: must be the wrapped value
            assert!(**nn == v.unwrap());
            let back: &Option<i32> = <Option<i32> as MaybeNan>::from_not_nan_ref_opt(Some(nn));
            assert!(*back == v);
            assert!(<Option<i32> as MaybeNan>::from_not_nan(*nn) == v);
        }
    }
    assert!(<Option<i32> as MaybeNan>::from_not_nan_opt(None).is_none());
    assert!(<Option<i32> as MaybeNan>::from_not_nan_ref_opt(None).is_none());
}

#[kani::proof]
fn complete_notnan_option_u8() {
    let v: Option<u8> = kani::any();
    match v.try_as_not_nan() {
        None => assert!(v.is_none()),
        Some(nn) => { assert!(**nn == v.unwrap()); assert!(<Option<u8> as MaybeNan>::from_not_nan(*nn) == v); }
    }
}

#[kani::proof]
fn complete_notnan_f64() {
    let x: f64 = kani::any();
    // the crate's "is missing" predicate is exactly IEEE NaN (infinities are values)
    assert!(<f64 as MaybeNan>::is_nan(&x) == (x != x));
    match x.try_as_not_nan() {
        None => assert!(x.is_nan()),
        Some(n) => { assert!(!x.is_nan()); assert!(n.raw().to_bits() == x.to_bits()); assert!(f64::from_not_nan(*n).to_bits() == x.to_bits()); }
    }
    assert!(f64::from_not_nan_opt(None).is_nan());
}

#[kani::proof]
fn complete_notnan_f32() {
    let x: f32 = kani::any();
    assert!(<f32 as MaybeNan>::is_nan(&x) == (x != x));
    match x.try_as_not_nan() {
        None => assert!(x.is_nan()),
        Some(n) => { assert!(!x.is_nan()); let n: &N32 = n; assert!(n.raw().to_bits() == x.to_bits()); }
    }
}
