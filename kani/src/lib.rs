//! Kani harnesses on the real ndarray-stats crate (path dependency on /repo, built with
//! `--cfg rust_ndarray_ndarray_stats_verif`).
//! * `complete_*`: loop-free, full-domain symbolic inputs, no unwinding bound: complete proofs.
//! * `bounded_*`: carry an explicit bound (stated in lib/config.py and in the evidence); never counted as proved.
#![allow(unused_imports, dead_code)]
#[cfg(kani)]
mod kernels;
#[cfg(kani)]
mod views;
#[cfg(kani)]
mod moments;
