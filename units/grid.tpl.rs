// unit `grid`: src/histogram/grid.rs — Grid::{ndim, shape, index_of} (C11, C13, C16)
#![feature(allocator_api)]
#![allow(unused_imports, unused_variables, unused_mut, dead_code)]
use vstd::prelude::*;
use core::cmp::Ordering;
use vstd::std_specs::cmp::{OrdSpec, PartialOrdSpec, PartialEqSpec};
use std::alloc::Allocator;
use std::ops::Range;
verus! {
//@include ../shim/order.rs
//@include ../shim/lane.rs
//@include ../shim/slices.rs
//@include ../shim/bins_types.rs
//@include ../shim/grid_types.rs
//@include ../shim/iterchain.rs
//@include ../shim/grid_iter.rs

impl<A: Ord> Grid<A> {
//@extract file=src/histogram/grid.rs impl=Grid fn=ndim nth=0 id=Grid::ndim tags=C11,C13
//@sig
    pub fn ndim(&self) -> (n: usize)
//@spec
        ensures n == self.projections@.len(), // [C11,C13]
//@end

//@extract file=src/histogram/grid.rs impl=Grid fn=shape nth=0 id=Grid::shape tags=C11,C13
//@sig
    pub fn shape(&self) -> (r: Vec<usize>)
//@spec
        ensures shape_matches(r@, *self), // [C11,C13] the number of bins of every axis, in axis order
//@rename_call iter verif_iter
//@end

//@extract file=src/histogram/grid.rs impl=Grid fn=index_of nth=0 id=Grid::index_of tags=C11,C13,C16 body_tags=C11
//@sig
    pub fn index_of(&self, point: &Lane<A>) -> (r: Option<Vec<usize>>)
//@spec
        requires point@.len() == self.projections@.len(), // otherwise the routine panics (documented)
            lawful_ord::<A>(), grid_wf(*self),
        ensures
            r matches Some(idx) ==> in_cell(*self, idx@, point@), // [C11,C13] the cell that contains the point, axis by axis
            r is None ==> forall|idx: Seq<usize>| !in_cell(*self, idx, point@), // [C11,C13] None exactly when some coordinate has no bin
//@rename_call iter verif_iter
//@closure 0
|v: &A, e: &Bins<A>| -> (o: Option<usize>) requires lawful_ord::<A>(), edges_wf(e.edges) ensures match o { Some(i) => in_bin(e.edges.edges@, i as int, *v), None => no_bin(e.edges.edges@, *v) }
//@at after_call collect 0
        proof {
            if __r is None {
                assert forall|idx: Seq<usize>| !in_cell(*self, idx, point@) by {
                    if in_cell(*self, idx, point@) {
                        // some coordinate k has no bin, but idx[k] would be one
                        assert(false);
                    }
                }
            }
        }
//@end
}

} // verus!
fn main() {}
