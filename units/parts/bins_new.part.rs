//@ifmode N
//@extract file=src/histogram/bins.rs impl=Bins fn=new id=Bins::new tags=C13
//@sig
    pub fn new(edges: Edges<A>) -> (r: Self)
//@spec
        ensures r.edges == edges, // [C13]
//@end
//@endif
