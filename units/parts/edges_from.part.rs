//@ifmode N
impl<A: Ord> Edges<A> {
//@extract file=src/histogram/bins.rs impl=From:Edges fn=from nth=0 id=Edges::from_vec tags=C13,C11
//@sig
    fn from(mut edges: Vec<A>) -> (r: Self)
//@spec
        requires lawful_ord::<A>(), eq_is_ord_equal::<A>(),
        ensures
            edges_wf(r), // [C13] strictly increasing
            forall|x: A| edges@.contains(x) <==> #[trigger] r.edges@.contains(x), // [C13] exactly the distinct input values
            strictly_sorted(edges@) ==> r.edges@ == edges@, // [C13,C12] an already strictly increasing collection is kept as it is
//@at entry
        let ghost v0 = edges@;
//@at after_call sort_unstable 0
        let ghost v1 = edges@;
        proof {
            assert(sorted_le(v1));
            lemma_dedup_sorted_ord(v1);
            if strictly_sorted(v0) {
                lemma_sorted_perm_unique(v0, v1);
                lemma_dedup_strict(v1);
            }
        }
//@at after_call dedup 0
        proof {
            assert forall|x: A| v0.contains(x) <==> #[trigger] edges@.contains(x) by { lemma_perm_contains_iff(v0, v1, x); }
        }
//@end

//@extract file=src/histogram/bins.rs impl=From:Edges fn=from nth=1 id=Edges::from_array1 tags=C13,C20
//@sig
    fn from_array1(edges: Lane<A>) -> (r: Self)
    where
        A: Clone,
//@spec
        requires lawful_ord::<A>(), eq_is_ord_equal::<A>(), lawful_clone::<A>(),
        ensures
            edges_wf(r), // [C13]
            forall|x: A| edges@.contains(x) <==> #[trigger] r.edges@.contains(x), // [C13,C20] exactly the distinct values of the logical array, whatever its layout
//@end
}
//@endif

