// unit `bins`: src/histogram/bins.rs — Edges, Bins (C13, C16, C11)
#![feature(allocator_api)]
#![allow(unused_imports, unused_variables, unused_mut, dead_code)]
use vstd::prelude::*;
use core::cmp::Ordering;
use vstd::std_specs::cmp::{OrdSpec, PartialOrdSpec, PartialEqSpec};
use std::alloc::Allocator;
use std::ops::Range;
verus! {
//@include ../shim/order.rs
//@include ../shim/lane.rs
//@include ../shim/slices.rs
//@include ../shim/bins_types.rs

//@include parts/edges_from.part.rs
impl<A: Ord> std::ops::Index<usize> for Edges<A> {
    type Output = A;
//@extract file=src/histogram/bins.rs impl=Index:Edges fn=index id=Edges::index tags=C13,C16
//@sig
    fn index(&self, i: usize) -> (r: &Self::Output)
//@spec
        ensures
//@ifmode P
            i < self.edges@.len(), // [C16]
//@endif
            *r == self.edges@[i as int], // [C13]
//@end
}
impl<A: Ord> vstd::std_specs::core::IndexSpecImpl<usize> for Edges<A> {
//@ifmode N
    open spec fn index_req(&self, i: &usize) -> bool { *i < self.edges@.len() }
//@endif
//@ifmode P
    open spec fn index_req(&self, i: &usize) -> bool { true }
//@endif
}

impl<A: Ord> Edges<A> {
//@extract file=src/histogram/bins.rs impl=Edges fn=len id=Edges::len tags=C13,C16
//@sig
    pub fn len(&self) -> (n: usize)
//@spec
        ensures n == self.edges@.len(), // [C13,C16]
//@end
//@ifmode N
//@extract file=src/histogram/bins.rs impl=Edges fn=is_empty id=Edges::is_empty tags=C13
//@sig
    pub fn is_empty(&self) -> (b: bool)
//@spec
        ensures b == (self.edges@.len() == 0), // [C13]
//@end
//@extract file=src/histogram/bins.rs impl=Edges fn=indices_of id=Edges::indices_of tags=C13,C11,C12
//@sig
    pub fn indices_of(&self, value: &A) -> (r: Option<(usize, usize)>)
//@spec
        requires lawful_ord::<A>(), edges_wf(*self),
        ensures
            match r {
                Some((l, h)) => h == l + 1 && in_bin(self.edges@, l as int, *value), // [C13,C11] left-closed, right-open
                None => no_bin(self.edges@, *value), // [C13,C11] nothing otherwise: below the first edge, at/above the last, fewer than two edges
            },
//@at entry
        proof { lemma_bins_from_search(self.edges@, *value); }
//@end
//@endif
}

impl<A: Ord> Bins<A> {
//@include parts/bins_new.part.rs
//@extract file=src/histogram/bins.rs impl=Bins fn=len id=Bins::len tags=C13,C16
//@sig
    pub fn len(&self) -> (n: usize)
//@spec
        ensures n == (if self.edges.edges@.len() == 0 { 0int } else { self.edges.edges@.len() - 1 }), // [C13,C16] max(#edges - 1, 0)
//@end
//@ifmode N
//@extract file=src/histogram/bins.rs impl=Bins fn=is_empty id=Bins::is_empty tags=C13
//@sig
    pub fn is_empty(&self) -> (b: bool)
//@spec
        ensures b == (self.edges.edges@.len() <= 1), // [C13]
//@end
//@extract file=src/histogram/bins.rs impl=Bins fn=index_of id=Bins::index_of tags=C13,C11,C12
//@sig
    pub fn index_of(&self, value: &A) -> (r: Option<usize>)
//@spec
        requires lawful_ord::<A>(), edges_wf(self.edges),
        ensures
            match r {
                Some(i) => in_bin(self.edges.edges@, i as int, *value), // [C13,C11]
                None => no_bin(self.edges.edges@, *value), // [C13,C11]
            },
//@closure 0
|t: (usize, usize)| -> (r0: usize) ensures r0 == t.0
//@end
//@extract file=src/histogram/bins.rs impl=Bins fn=range_of id=Bins::range_of tags=C13,C11
//@sig
    pub fn range_of(&self, value: &A) -> (r: Option<Range<A>>)
    where
        A: Clone,
//@spec
        requires lawful_ord::<A>(), lawful_clone::<A>(), edges_wf(self.edges),
        ensures
            match r {
                // the left-closed, right-open bin that contains the value: two consecutive edges around it
                Some(rg) => exists|i: int| in_bin(self.edges.edges@, i, *value) && rg.start == self.edges.edges@[i] && rg.end == self.edges.edges@[i + 1], // [C13,C11]
                None => no_bin(self.edges.edges@, *value), // [C13,C11]
            },
//@closure 0
|t: (usize, usize)| -> (rg: Range<A>) requires t.0 < self.edges.edges@.len(), t.1 < self.edges.edges@.len() ensures rg.start == self.edges.edges@[t.0 as int], rg.end == self.edges.edges@[t.1 as int]
let (left, right) = (t.0, t.1);
//@end
//@endif
//@extract file=src/histogram/bins.rs impl=Bins fn=index id=Bins::index tags=C13,C16 body_tags=C16
//@sig
    pub fn index(&self, index: usize) -> (r: Range<A>)
    where
        A: Clone,
//@ifmode N
//@spec
        requires lawful_clone::<A>(), index + 1 < self.edges.edges@.len(), self.edges.edges@.len() <= usize::MAX,
        ensures r.start == self.edges.edges@[index as int], r.end == self.edges.edges@[index + 1], // [C13]
//@endif
//@ifmode P
//@spec tags=C16
        requires index + 1 >= self.edges.edges@.len(),   // i.e. index >= number of bins = max(#edges - 1, 0)
            self.edges.edges@.len() <= usize::MAX,       // type invariant of Vec
        ensures false, // [C16] never returns for an out-of-range bin
//@endif
//@end
}

} // verus!
fn main() {}
