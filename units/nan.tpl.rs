// unit `nan`: src/maybe_nan/mod.rs — generic remove_nan_mut (C04, C03, C14, C20)
#![allow(unused_imports, unused_variables, unused_mut, dead_code)]
use vstd::prelude::*;
use core::cmp::Ordering;
use vstd::std_specs::cmp::{OrdSpec, PartialOrdSpec};
verus! {
//@include ../shim/order.rs
//@include ../shim/lane.rs
//@include ../shim/nan.rs

//@extract file=src/maybe_nan/mod.rs fn=remove_nan_mut id=remove_nan_mut tags=C04,C03,C14,C20 body_tags=C04
//@sig
#[verifier::loop_isolation(false)]
fn remove_nan_mut<A: MaybeNan>(mut view: &mut Lane<A>) -> (r: &mut Lane<A>)
//@spec
    ensures
        none_nan(r@), // [C04,C14] nothing that is handed out is missing
        exists|tail: Seq<A>| #[trigger] all_nan(tail)
            && perm(r@ + tail, old(view)@)
            && final(view)@ == final(r)@ + tail, // [C04,C03,C14,C20] result + a tail of missing values is the input multiset; the parent view keeps that tail
        r@.len() <= old(view)@.len(), // [C04]
        none_nan(old(view)@) ==> r@ == old(view)@, // [C04] idempotence: a second application returns the same view unchanged
//@at entry
    let ghost s0 = view@;
//@at before_call slice_move 0
        proof {
            assert(all_nan(Seq::<A>::empty()));
            assert(s0.subrange(0, 0) + Seq::<A>::empty() =~= s0);
            assert(s0.subrange(0, s0.len() as int) =~= s0);
        }
//@loop 0
        invariant
            view@.len() == s0.len(), s0.len() >= 1, s0.len() <= usize::MAX,
            view@.to_multiset() == s0.to_multiset(), // [C03,C04]
            none_nan(s0) ==> view@ == s0 && j == s0.len() - 1, // [C04]
            i <= j + 1, j <= view@.len() - 1, // [C04]
            forall|k: int| 0 <= k < i ==> !(#[trigger] view@[k]).is_nan_spec(), // [C04,C14]
            forall|k: int| j < k < view@.len() ==> (#[trigger] view@[k]).is_nan_spec(), // [C04,C14]
        decreases j + 1 - i
//@loop 1
            invariant
                view@.len() == s0.len(), s0.len() <= usize::MAX,
                i <= j + 1, j <= view@.len() - 1, // [C04]
                forall|k: int| 0 <= k < i ==> !(#[trigger] view@[k]).is_nan_spec(), // [C04,C14]
            decreases j + 1 - i
//@loop 2
            invariant
                view@.len() == s0.len(), s0.len() <= usize::MAX,
                i <= j + 1, j <= view@.len() - 1, // [C04]
                forall|k: int| j < k < view@.len() ==> (#[trigger] view@[k]).is_nan_spec(), // [C04,C14]
                i <= j ==> view@[i as int].is_nan_spec(), // [C04,C14]
                none_nan(s0) ==> view@ == s0 && j == s0.len() - 1, // [C04]
            decreases j
//@at before_call slice_move 1
            proof {
                let tail = view@.subrange(i as int, view@.len() as int);
                assert(view@.subrange(0, i as int) + tail =~= view@);
                assert(all_nan(tail));
                if none_nan(s0) { assert(view@.subrange(0, i as int) =~= s0); }
            }
//@end

} // verus!
fn main() {}
