// unit `hist`: src/histogram/histograms.rs — Histogram::{new, add_observation, ndim} (C11)
#![feature(allocator_api)]
#![allow(unused_imports, unused_variables, unused_mut, dead_code)]
use vstd::prelude::*;
use core::cmp::Ordering;
use vstd::std_specs::cmp::{OrdSpec, PartialOrdSpec, PartialEqSpec};
use std::alloc::Allocator;
use std::ops::Range;
verus! {
//@include ../shim/order.rs
//@include ../shim/lane.rs
//@include ../shim/slices.rs
//@include ../shim/bins_types.rs
//@include ../shim/hist.rs

impl<A: Ord> Histogram<A> {
//@extract file=src/histogram/histograms.rs impl=Histogram fn=new id=Histogram::new tags=C11
//@sig
    pub fn new(grid: Grid<A>) -> (r: Self)
//@spec
        requires grid_wf(grid),
        ensures
            hist_wf(r) && r.grid == grid, // [C11] the counts array has the grid's shape
            hist_counts(r, Seq::<Seq<A>>::empty()), // [C11] all counts are zero
//@end

//@extract file=src/histogram/histograms.rs impl=Histogram fn=add_observation id=Histogram::add_observation tags=C11 body_tags=C11
//@sig
    pub fn add_observation(&mut self, observation: &Lane<A>) -> (r: Result<(), BinNotFound>)
//@spec
        requires
            lawful_ord::<A>(), hist_wf(*old(self)),
            observation@.len() == old(self).grid.projections@.len(),
            forall|idx: Seq<usize>| in_shape(idx, old(self).counts.shape@) ==> #[trigger] old(self).counts@[idx] < usize::MAX,
        ensures
            hist_wf(*final(self)) && final(self).grid == old(self).grid, // [C11]
            // after the call the counts describe the history extended by this observation, whether it was accepted or rejected
            forall|hist: Seq<Seq<A>>| #[trigger] hist_counts(*old(self), hist) ==> hist_counts(*final(self), hist.push(observation@)), // [C11]
            r is Err <==> forall|idx: Seq<usize>| !in_cell(old(self).grid, idx, observation@), // [C11] BinNotFound exactly for a point outside the grid
            r is Err ==> final(self).counts == old(self).counts, // [C11] a rejected insert changes nothing
//@at entry
        let ghost mut bi: Seq<usize> = Seq::empty();
//@at arm_start 0
                proof { bi = bin_index@; lemma_cell_in_shape(self.grid, self.counts.shape@, bin_index@, observation@); }
//@at after_call index_of 0
        proof {
            assert forall|hist: Seq<Seq<A>>| #[trigger] hist_counts(*old(self), hist) implies hist_counts(*self, hist.push(observation@)) by {
                assert forall|idx: Seq<usize>| in_shape(idx, self.counts.shape@) implies #[trigger] self.counts@[idx] == count_in(self.grid, hist.push(observation@), idx) by {
                    lemma_count_push(self.grid, hist, observation@, idx);
                    if __r is Ok && idx != bi {
                        if in_cell(self.grid, idx, observation@) { lemma_cell_unique(self.grid, idx, bi, observation@); }
                    }
                }
            }
        }
//@end

//@extract file=src/histogram/histograms.rs impl=Histogram fn=ndim id=Histogram::ndim tags=C11
//@sig
    pub fn ndim(&self) -> (n: usize)
//@spec
        requires hist_wf(*self),
        ensures n == self.grid.projections@.len(), // [C11]
//@end
}

} // verus!
fn main() {}
