// unit `hist`: src/histogram/histograms.rs — Histogram::{new, add_observation, ndim} (C11)
#![feature(allocator_api)]
#![allow(unused_imports, unused_variables, unused_mut, dead_code)]
use vstd::prelude::*;
use core::cmp::Ordering;
use vstd::std_specs::cmp::{OrdSpec, PartialOrdSpec, PartialEqSpec};
use std::alloc::Allocator;
use std::ops::Range;
verus! {
//@include ../shim/order.rs
//@include ../shim/lane.rs
//@include ../shim/slices.rs
//@include ../shim/bins_types.rs
//@include ../shim/grid_types.rs
//@include ../shim/hist.rs

impl<A: Ord> Histogram<A> {
//@extract file=src/histogram/histograms.rs impl=Histogram fn=new id=Histogram::new tags=C11
//@sig
    pub fn new(grid: Grid<A>) -> (r: Self)
//@spec
        requires grid_wf(grid),
        ensures
            hist_wf(r) && r.grid == grid, // [C11] the counts array has the grid's shape
            hist_counts(r, Seq::<Seq<A>>::empty()), // [C11] all counts are zero
//@end

//@extract file=src/histogram/histograms.rs impl=Histogram fn=add_observation id=Histogram::add_observation tags=C11 body_tags=C11
//@sig
    pub fn add_observation(&mut self, observation: &Lane<A>) -> (r: Result<(), BinNotFound>)
//@spec
        requires
            lawful_ord::<A>(), hist_wf(*old(self)),
            observation@.len() == old(self).grid.projections@.len(),
            forall|idx: Seq<usize>| in_shape(idx, old(self).counts.shape@) ==> #[trigger] old(self).counts@[idx] < usize::MAX,
        ensures
            hist_wf(*final(self)) && final(self).grid == old(self).grid, // [C11]
            // after the call the counts describe the history extended by this observation, whether it was accepted or rejected
            forall|hist: Seq<Seq<A>>| #[trigger] hist_counts(*old(self), hist) ==> hist_counts(*final(self), hist.push(observation@)), // [C11]
            r is Err <==> forall|idx: Seq<usize>| !in_cell(old(self).grid, idx, observation@), // [C11] BinNotFound exactly for a point outside the grid
            r is Err ==> final(self).counts == old(self).counts, // [C11] a rejected insert changes nothing
//@at entry
        let ghost mut bi: Seq<usize> = Seq::empty();
//@at arm_start 0
                proof { bi = bin_index@; lemma_cell_in_shape(self.grid, self.counts.shape@, bin_index@, observation@); }
//@at after_call index_of 0
        proof {
            assert forall|hist: Seq<Seq<A>>| #[trigger] hist_counts(*old(self), hist) implies hist_counts(*self, hist.push(observation@)) by {
                assert forall|idx: Seq<usize>| in_shape(idx, self.counts.shape@) implies #[trigger] self.counts@[idx] == count_in(self.grid, hist.push(observation@), idx) by {
                    lemma_count_push(self.grid, hist, observation@, idx);
                    if __r is Ok && idx != bi {
                        if in_cell(self.grid, idx, observation@) { lemma_cell_unique(self.grid, idx, bi, observation@); }
                    }
                }
            }
        }
//@end

//@extract file=src/histogram/histograms.rs impl=Histogram fn=ndim id=Histogram::ndim tags=C11
//@sig
    pub fn ndim(&self) -> (n: usize)
//@spec
        requires hist_wf(*self),
        ensures n == self.grid.projections@.len(), // [C11]
//@end
}

impl<A: Ord> ObsMatrix<A> {
//@extract file=src/histogram/histograms.rs impl=HistogramExt:ArrayBase fn=histogram id=histogram tags=C11 body_tags=C11
//@sig
    fn histogram(&self, grid: Grid<A>) -> (r: Histogram<A>)
//@spec
        requires
            lawful_ord::<A>(), grid_wf(grid),
            self.ncols() == grid.projections@.len(), // otherwise add_observation panics (documented)
            self.rows().len() < usize::MAX,
        ensures
            hist_wf(r) && r.grid == grid, // [C11]
            // every count is the number of rows (observations) of the matrix that fall into that cell
            hist_counts(r, self.rows()), // [C11]
//@at entry
        let ghost mut idx_g: int = 0;
//@loop 0 iter=it hoist=1
            invariant
                lawful_ord::<A>(), hist_wf(histogram), histogram.grid == grid, self.ncols() == grid.projections@.len(), self.rows().len() < usize::MAX,
                it.seq() == __its0, __its0.len() == self.rows().len(), idx_g == it.index@, idx_g <= __its0.len(),
                forall|k: int| 0 <= k < __its0.len() ==> (#[trigger] __its0[k])@ == self.rows()[k],
                forall|k: int| 0 <= k < self.rows().len() ==> (#[trigger] self.rows()[k]).len() == self.ncols(),
                hist_counts(histogram, self.rows().subrange(0, idx_g)), // [C11]
//@at loop_start 0
            proof {
                assert(point@ == self.rows()[idx_g]);
                assert forall|idx: Seq<usize>| in_shape(idx, histogram.counts.shape@) implies #[trigger] histogram.counts@[idx] < usize::MAX by {
                    lemma_count_bound(histogram.grid, self.rows().subrange(0, idx_g), idx);
                }
            }
//@at loop_end 0
            proof {
                assert(self.rows().subrange(0, idx_g).push(self.rows()[idx_g]) =~= self.rows().subrange(0, idx_g + 1));
                idx_g = idx_g + 1;
            }
//@at after_loop 0
        proof { assert(self.rows().subrange(0, idx_g) =~= self.rows()); }
//@end
}

// ---- C20 as a lemma over the contract proved above: two observation matrices with the same rows in index order (whatever
// their strides, memory order, offset or ownership) and the same grid give histograms with the same counts in every cell ----
proof fn lemma_layout_histogram<A: Ord>(m1: ObsMatrix<A>, m2: ObsMatrix<A>, g: Grid<A>, h1: Histogram<A>, h2: Histogram<A>)
    requires
        m1.rows() == m2.rows(), m1.ncols() == m2.ncols(),
        call_ensures(ObsMatrix::<A>::histogram, (&m1, g), h1), call_ensures(ObsMatrix::<A>::histogram, (&m2, g), h2),
    ensures
        h1.grid == h2.grid, // [C20]
        forall|idx: Seq<usize>| in_shape(idx, h1.counts.shape@) ==> in_shape(idx, h2.counts.shape@) && #[trigger] h1.counts@[idx] == h2.counts@[idx], // [C20]
{
    assert forall|idx: Seq<usize>| in_shape(idx, h1.counts.shape@) implies in_shape(idx, h2.counts.shape@) && #[trigger] h1.counts@[idx] == h2.counts@[idx] by {
        assert(shape_matches(h1.counts.shape@, g) && shape_matches(h2.counts.shape@, g));
    }
}

} // verus!
fn main() {}
