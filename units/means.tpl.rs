// unit `means`: src/summary_statistics/means.rs — mean, weighted_sum, weighted_mean (C06, C17, C20)
#![allow(unused_imports, unused_variables, unused_mut, dead_code, unused_braces)]
use vstd::prelude::*;
use core::cmp::Ordering;
use std::cmp;
use vstd::std_specs::cmp::{OrdSpec, PartialOrdSpec, PartialEqSpec};
use vstd::std_specs::ops::*;
use std::ops::{Add, Sub, Mul, Div, AddAssign};
verus! {
//@include ../shim/order.rs
//@include ../shim/ndarr.rs
//@include ../shim/zip.rs
//@include ../shim/means.rs

pub open spec fn wsum_f<A: Add<Output = A> + Mul<Output = A>>() -> spec_fn(A, (A, A)) -> A { |acc: A, p: (A, A)| acc.add_spec(p.0.mul_spec(p.1)) }

impl<A, D: Dimension> ArrayN<A, D> {
//@extract file=src/summary_statistics/means.rs impl=SummaryStatisticsExt:ArrayBase fn=weighted_sum id=weighted_sum tags=C06,C17,C18,C20 body_tags=C06 macro_into=verif_into_same
//@sig
    fn weighted_sum(&self, weights: &ArrayN<A, D>) -> (r: Result<A, MultiInputError>)
    where
        A: Copy + Mul<Output = A> + Add<Output = A> + Zero,
//@spec
        requires A::obeys_add_spec(), A::obeys_mul_spec(), forall|a: A, b: A| #[trigger] a.add_req(b), forall|a: A, b: A| #[trigger] a.mul_req(b),
        ensures
            self.shape_spec() != weights.shape_spec() ==> (r matches Err(MultiInputError::ShapeMismatch(sm)) && sm.first_shape@ == self.shape_spec() && sm.second_shape@ == weights.shape_spec()), // [C06,C17] (also for empty inputs: the sum-type routine only checks shapes)
            self.shape_spec() == weights.shape_spec() ==> r is Ok, // [C17] Ok otherwise, empty inputs included
            // otherwise: zero + d_0*w_0 + d_1*w_1 + ... with data and weights paired by *logical* index, in logical order
            self.shape_spec() == weights.shape_spec() ==> (r matches Ok(v) && v == zip_seq(self@, weights@).fold_left(A::zero_spec(), wsum_f::<A>())), // [C06,C20]
//@closure 0
|acc: A, p: (&A, &A)| -> (r0: A) ensures r0 == acc.add_spec((*p.0).mul_spec(*p.1))
let d = *p.0; let w = *p.1;
//@at entry
        proof { assert(lawful_clone::<usize>()); }
//@at after_call fold 0
        proof {
            assert(self.shape_spec() =~= weights.shape_spec());
            axiom_len_of_shape(self, weights);
            let ps = zip_seq(self@, weights@);
            let n = ps.len() as int;
            let v = __r->Ok_0;
            assert(exists|accs: Seq<A>| #[trigger] accs.len() == n + 1 && accs[0] == A::zero_spec() && accs[n] == v
                && forall|k: int| 0 <= k < n ==> #[trigger] accs[k + 1] == wsum_f::<A>()(accs[k], ps[k]));
            let accs = choose|accs: Seq<A>| #[trigger] accs.len() == n + 1 && accs[0] == A::zero_spec() && accs[n] == v
                && forall|k: int| 0 <= k < n ==> #[trigger] accs[k + 1] == wsum_f::<A>()(accs[k], ps[k]);
            lemma_trace_is_fold(accs, ps, wsum_f::<A>());
        }
//@end

//@extract file=src/summary_statistics/means.rs impl=SummaryStatisticsExt:ArrayBase fn=weighted_mean id=weighted_mean tags=C06,C17,C20 body_tags=C06
//@sig
    fn weighted_mean(&self, weights: &ArrayN<A, D>) -> (r: Result<A, MultiInputError>)
    where
        A: Copy + Div<Output = A> + Mul<Output = A> + Add<Output = A> + Zero,
//@spec
        requires arith_ok::<A>(), forall|a: A, b: A| #[trigger] a.div_req(b),
        ensures
            self@.len() == 0 ==> r matches Err(MultiInputError::EmptyInput), // [C06,C17]
            self@.len() > 0 && self.shape_spec() != weights.shape_spec() ==> (r matches Err(MultiInputError::ShapeMismatch(sm)) && sm.first_shape@ == self.shape_spec() && sm.second_shape@ == weights.shape_spec()), // [C06,C17]
            self@.len() > 0 && self.shape_spec() == weights.shape_spec() ==> r is Ok, // [C17] Ok otherwise
            // weighted_sum / (sum of the weights), with the type's own division
            self@.len() > 0 && self.shape_spec() == weights.shape_spec() ==> (r matches Ok(v) && exists|ws: Seq<A>| #[trigger] ws.to_multiset() == weights@.to_multiset()
                && v == zip_seq(self@, weights@).fold_left(A::zero_spec(), wsum_f::<A>()).div_spec(ws.fold_left(A::zero_spec(), |acc: A, x: A| acc.add_spec(x)))), // [C06,C20]
//@end

//@extract file=src/summary_statistics/means.rs impl=SummaryStatisticsExt:ArrayBase fn=mean id=mean tags=C06,C17,C20 body_tags=C06
//@sig
    fn mean(&self) -> (r: Result<A, MinMaxError>)
    where
        A: Clone + FromPrimitive + Add<Output = A> + Div<Output = A> + Zero,
//@spec
        requires
            A::obeys_add_spec(), A::obeys_div_spec(), forall|a: A, b: A| #[trigger] a.add_req(b), forall|a: A, b: A| #[trigger] a.div_req(b),
            A::from_usize_spec(self@.len() as usize).is_some(), self@.len() <= usize::MAX,
        ensures
            self@.len() == 0 ==> r matches Err(MinMaxError::EmptyInput), // [C06,C17] (EmptyInput is modelled by the value it converts to, see shim/ndarr.rs)
            self@.len() > 0 ==> r is Ok, // [C17] Ok otherwise
            // (sum of all elements) / n with the type's own division
            self@.len() > 0 ==> (r matches Ok(v) && exists|ps: Seq<A>| #[trigger] ps.to_multiset() == self@.to_multiset()
                && v == ps.fold_left(A::zero_spec(), |acc: A, x: A| acc.add_spec(x)).div_spec(A::from_usize_spec(self@.len() as usize).unwrap())), // [C06,C20]
//@end
}

// ---- C20 as lemmas over the contracts proved above (see unit `deviation` for the reading) ---------------------------------
pub open spec fn same_logical<A, D: Dimension>(a: &ArrayN<A, D>, b: &ArrayN<A, D>) -> bool { a@ == b@ && a.shape_spec() == b.shape_spec() }
pub open spec fn same_err(e1: MultiInputError, e2: MultiInputError) -> bool {
    match (e1, e2) {
        (MultiInputError::EmptyInput, MultiInputError::EmptyInput) => true,
        (MultiInputError::ShapeMismatch(s1), MultiInputError::ShapeMismatch(s2)) => s1.first_shape@ == s2.first_shape@ && s1.second_shape@ == s2.second_shape@,
        _ => false,
    }
}
pub open spec fn same_answer<T>(r1: Result<T, MultiInputError>, r2: Result<T, MultiInputError>) -> bool {
    match (r1, r2) { (Ok(v1), Ok(v2)) => v1 == v2, (Err(e1), Err(e2)) => same_err(e1, e2), _ => false }
}
pub open spec fn plus<A: Add<Output = A>>() -> spec_fn(A, A) -> A { |acc: A, x: A| acc.add_spec(x) }
// weighted_sum pairs by logical index and adds in logical order: the same value for every layout, whatever the arithmetic
proof fn lemma_layout_weighted_sum<A: Copy + Mul<Output = A> + Add<Output = A> + Zero, D: Dimension>(a1: ArrayN<A, D>, a2: ArrayN<A, D>, w1: ArrayN<A, D>, w2: ArrayN<A, D>, r1: Result<A, MultiInputError>, r2: Result<A, MultiInputError>)
    requires
        same_logical(&a1, &a2), same_logical(&w1, &w2),
        call_ensures(ArrayN::<A, D>::weighted_sum, (&a1, &w1), r1), call_ensures(ArrayN::<A, D>::weighted_sum, (&a2, &w2), r2),
    ensures same_answer(r1, r2), // [C20]
{
}
// weighted_mean and mean add with ndarray's `sum`, whose order is unspecified: the same value whenever the order of
// summation is immaterial for the element type (integers, exact types; for floats the answers agree up to summation roundoff)
proof fn lemma_layout_weighted_mean<A: Copy + Div<Output = A> + Mul<Output = A> + Add<Output = A> + Zero, D: Dimension>(a1: ArrayN<A, D>, a2: ArrayN<A, D>, w1: ArrayN<A, D>, w2: ArrayN<A, D>, r1: Result<A, MultiInputError>, r2: Result<A, MultiInputError>)
    requires
        same_logical(&a1, &a2), same_logical(&w1, &w2), vstd::seq_lib::commutative_foldl(|acc: A, x: A| acc.add_spec(x)),
        call_ensures(ArrayN::<A, D>::weighted_mean, (&a1, &w1), r1), call_ensures(ArrayN::<A, D>::weighted_mean, (&a2, &w2), r2),
    ensures same_answer(r1, r2), // [C20]
{
    if r1 is Ok && r2 is Ok {
        let f = |acc: A, x: A| acc.add_spec(x);
        let s1 = choose|ws: Seq<A>| #[trigger] ws.to_multiset() == w1@.to_multiset() && r1->Ok_0 == zip_seq(a1@, w1@).fold_left(A::zero_spec(), wsum_f::<A>()).div_spec(ws.fold_left(A::zero_spec(), |acc: A, x: A| acc.add_spec(x)));
        let s2 = choose|ws: Seq<A>| #[trigger] ws.to_multiset() == w2@.to_multiset() && r2->Ok_0 == zip_seq(a2@, w2@).fold_left(A::zero_spec(), wsum_f::<A>()).div_spec(ws.fold_left(A::zero_spec(), |acc: A, x: A| acc.add_spec(x)));
        vstd::seq_lib::lemma_fold_left_permutation(s1, w1@, f, A::zero_spec());
        vstd::seq_lib::lemma_fold_left_permutation(s2, w1@, f, A::zero_spec());
    }
}
proof fn lemma_layout_mean<A: Clone + FromPrimitive + Add<Output = A> + Div<Output = A> + Zero, D: Dimension>(a1: ArrayN<A, D>, a2: ArrayN<A, D>, r1: Result<A, MinMaxError>, r2: Result<A, MinMaxError>)
    requires
        same_logical(&a1, &a2), vstd::seq_lib::commutative_foldl(|acc: A, x: A| acc.add_spec(x)),
        call_ensures(ArrayN::<A, D>::mean, (&a1,), r1), call_ensures(ArrayN::<A, D>::mean, (&a2,), r2),
    ensures r1 == r2, // [C20]
{
    if r1 is Ok && r2 is Ok {
        let f = |acc: A, x: A| acc.add_spec(x);
        let p1 = choose|ps: Seq<A>| #[trigger] ps.to_multiset() == a1@.to_multiset() && r1->Ok_0 == ps.fold_left(A::zero_spec(), |acc: A, x: A| acc.add_spec(x)).div_spec(A::from_usize_spec(a1@.len() as usize).unwrap());
        let p2 = choose|ps: Seq<A>| #[trigger] ps.to_multiset() == a2@.to_multiset() && r2->Ok_0 == ps.fold_left(A::zero_spec(), |acc: A, x: A| acc.add_spec(x)).div_spec(A::from_usize_spec(a2@.len() as usize).unwrap());
        vstd::seq_lib::lemma_fold_left_permutation(p1, a1@, f, A::zero_spec());
        vstd::seq_lib::lemma_fold_left_permutation(p2, a1@, f, A::zero_spec());
    }
}

} // verus!
fn main() {}
