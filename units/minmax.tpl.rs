// unit `minmax`: src/quantile/mod.rs — argmin / argmax (C05, C17, C20)
#![allow(unused_imports, unused_variables, unused_mut, dead_code)]
use vstd::prelude::*;
use core::cmp::Ordering;
use std::cmp;
use vstd::std_specs::cmp::{OrdSpec, PartialOrdSpec};
verus! {
//@include ../shim/ndarr.rs

impl<A, D: Dimension> ArrayN<A, D> {
//@extract file=src/quantile/mod.rs impl=QuantileExt:ArrayBase fn=argmin id=argmin tags=C05,C17,C20 body_tags=C05
//@sig
    #[verifier::loop_isolation(false)]
    fn argmin(&self) -> (r: Result<D::Pattern, MinMaxError>)
    where
        A: PartialOrd,
//@spec
        requires float_like::<A>(),
        ensures
            self@.len() == 0 ==> r == Err::<D::Pattern, MinMaxError>(MinMaxError::EmptyInput), // [C05,C17] no elements -> EmptyInput
            self@.len() > 0 && has_nan(self@) ==> r == Err::<D::Pattern, MinMaxError>(MinMaxError::UndefinedOrder), // [C05] a NaN anywhere -> UndefinedOrder
            self@.len() > 0 && !has_nan(self@) ==> (r matches Ok(p) && exists|k: int| is_min_at(self@, k) && p == self.idx(k)), // [C05,C20] otherwise the logical index of a minimal element
//@at entry
        proof { reveal(float_like); }
        let ghost s = self@;
        let ghost mut kmin: int = 0;
//@loop 0 iter=it
            invariant
                float_like_laws::<A>(), s == self@, s.len() > 0,
                it.seq().len() == s.len(),
                forall|k: int| 0 <= k < s.len() ==> #[trigger] it.seq()[k] == (self.idx(k), &s[k]),
                0 <= kmin < s.len(), it.index@ == 0 ==> kmin == 0, it.index@ > 0 ==> kmin < it.index@,
                *current_min == s[kmin], // [C05]
                current_pattern_min == self.idx(kmin), // [C05,C20]
                forall|m: int| 0 <= m < it.index@ ==> !is_nan(#[trigger] s[m]), // [C05]
                forall|m: int| 0 <= m < it.index@ ==> ple(s[kmin], #[trigger] s[m]), // [C05]
//@at loop_start 0
            let ghost kprev = kmin;
            let ghost e = *elem;
            proof {
                assert(e == s[it.index@]);
                assert(*current_min == s[kprev]);
                // if the comparison below is undefined, one of the two operands is a NaN of the array
                if pcmp(e, s[kprev]).is_none() {
                    assert(is_nan(s[it.index@ as int]) || is_nan(s[kprev]));
                    assert(has_nan(s));
                }
            }
//@at then_start 0
                proof { kmin = it.index@; }
//@at loop_end 0
            proof {
                assert(pcmp(e, s[kprev]).is_some());
                assert(!is_nan(e) && !is_nan(s[kprev]));
                assert forall|m: int| 0 <= m <= it.index@ implies ple(s[kmin], #[trigger] s[m]) by {
                    if kmin == kprev {
                        if m == it.index@ { assert(ple(s[kprev], e)); }
                    } else {
                        assert(ple(e, s[kprev]));
                        if m < it.index@ { assert(ple(s[kprev], s[m])); } else { assert(ple(e, e)); }
                    }
                }
            }
//@at after_loop 0
        proof {
            assert(!has_nan(s));
            assert(is_min_at(s, kmin));
        }
//@end

//@extract file=src/quantile/mod.rs impl=QuantileExt:ArrayBase fn=argmax id=argmax tags=C05,C17,C20 body_tags=C05
//@sig
    #[verifier::loop_isolation(false)]
    fn argmax(&self) -> (r: Result<D::Pattern, MinMaxError>)
    where
        A: PartialOrd,
//@spec
        requires float_like::<A>(),
        ensures
            self@.len() == 0 ==> r == Err::<D::Pattern, MinMaxError>(MinMaxError::EmptyInput), // [C05,C17] no elements -> EmptyInput
            self@.len() > 0 && has_nan(self@) ==> r == Err::<D::Pattern, MinMaxError>(MinMaxError::UndefinedOrder), // [C05] a NaN anywhere -> UndefinedOrder
            self@.len() > 0 && !has_nan(self@) ==> (r matches Ok(p) && exists|k: int| is_max_at(self@, k) && p == self.idx(k)), // [C05,C20] otherwise the logical index of a maximal element
//@at entry
        proof { reveal(float_like); }
        let ghost s = self@;
        let ghost mut kmax: int = 0;
//@loop 0 iter=it
            invariant
                float_like_laws::<A>(), s == self@, s.len() > 0,
                it.seq().len() == s.len(),
                forall|k: int| 0 <= k < s.len() ==> #[trigger] it.seq()[k] == (self.idx(k), &s[k]),
                0 <= kmax < s.len(), it.index@ == 0 ==> kmax == 0, it.index@ > 0 ==> kmax < it.index@,
                *current_max == s[kmax], // [C05]
                current_pattern_max == self.idx(kmax), // [C05,C20]
                forall|m: int| 0 <= m < it.index@ ==> !is_nan(#[trigger] s[m]), // [C05]
                forall|m: int| 0 <= m < it.index@ ==> pge(s[kmax], #[trigger] s[m]), // [C05]
//@at loop_start 0
            let ghost kprev = kmax;
            let ghost e = *elem;
            proof {
                assert(e == s[it.index@]);
                assert(*current_max == s[kprev]);
                // if the comparison below is undefined, one of the two operands is a NaN of the array
                if pcmp(e, s[kprev]).is_none() {
                    assert(is_nan(s[it.index@ as int]) || is_nan(s[kprev]));
                    assert(has_nan(s));
                }
            }
//@at then_start 0
                proof { kmax = it.index@; }
//@at loop_end 0
            proof {
                assert(pcmp(e, s[kprev]).is_some());
                assert(!is_nan(e) && !is_nan(s[kprev]));
                assert forall|m: int| 0 <= m <= it.index@ implies pge(s[kmax], #[trigger] s[m]) by {
                    // pge(a, b) is ple(b, a); transitivity is stated for ple
                    if kmax == kprev {
                        if m == it.index@ { assert(pge(s[kprev], e)); }
                    } else {
                        assert(ple(s[kprev], e));
                        if m < it.index@ { assert(pge(s[kprev], s[m])); assert(ple(s[m], s[kprev])); assert(ple(s[m], e)); } else { assert(pge(e, e)); }
                    }
                }
            }
//@at after_loop 0
        proof {
            assert(!has_nan(s));
            assert(is_max_at(s, kmax));
        }
//@end
}

//@include ../shim/minmax_lemmas.rs

impl<A, D: Dimension> ArrayN<A, D> {
//@extract file=src/quantile/mod.rs impl=QuantileExt:ArrayBase fn=min id=min tags=C05,C17,C20 body_tags=C05
//@sig
    fn min(&self) -> (r: Result<&A, MinMaxError>)
    where
        A: PartialOrd,
//@spec
        requires float_like::<A>(),
        ensures
            self@.len() == 0 ==> r == Err::<&A, MinMaxError>(MinMaxError::EmptyInput), // [C05,C17]
            self@.len() > 0 && has_nan(self@) ==> r == Err::<&A, MinMaxError>(MinMaxError::UndefinedOrder), // [C05]
            self@.len() > 0 && !has_nan(self@) ==> (r matches Ok(x) && exists|k: int| is_min_at(self@, k) && *x == self@[k]), // [C05,C20] a reference to a minimal element
//@at entry
        proof { reveal(float_like); }
//@closure 0
|acc: Result<&A, MinMaxError>, elem: &A| -> (r0: Result<&A, MinMaxError>) ensures min_step(acc, elem, r0)
//@at after_call fold 0
        proof {
            let s = self@;
            let n = s.len() as int;
            assert(exists|ord: Seq<int>, accs: Seq<Result<&A, MinMaxError>>| is_visit_order(ord, n) && accs.len() == n + 1
                && accs[0] == Ok::<&A, MinMaxError>(first) && accs[n] == __r
                && forall|k: int| 0 <= k < n ==> min_step(#[trigger] accs[k], &s[ord[k]], accs[k + 1]));
            let (ord, accs) = choose|ord: Seq<int>, accs: Seq<Result<&A, MinMaxError>>| is_visit_order(ord, n) && accs.len() == n + 1
                && accs[0] == Ok::<&A, MinMaxError>(first) && accs[n] == __r
                && forall|k: int| 0 <= k < n ==> min_step(#[trigger] accs[k], &s[ord[k]], accs[k + 1]);
            lemma_min_fold(true, s, ord, accs, first);
            assert(forall|k: int| is_ext_at(true, s, k) ==> is_min_at(s, k));
        }
//@end

//@extract file=src/quantile/mod.rs impl=QuantileExt:ArrayBase fn=max id=max tags=C05,C17,C20 body_tags=C05
//@sig
    fn max(&self) -> (r: Result<&A, MinMaxError>)
    where
        A: PartialOrd,
//@spec
        requires float_like::<A>(),
        ensures
            self@.len() == 0 ==> r == Err::<&A, MinMaxError>(MinMaxError::EmptyInput), // [C05,C17]
            self@.len() > 0 && has_nan(self@) ==> r == Err::<&A, MinMaxError>(MinMaxError::UndefinedOrder), // [C05]
            self@.len() > 0 && !has_nan(self@) ==> (r matches Ok(x) && exists|k: int| is_max_at(self@, k) && *x == self@[k]), // [C05,C20] a reference to a maximal element
//@at entry
        proof { reveal(float_like); }
//@closure 0
|acc: Result<&A, MinMaxError>, elem: &A| -> (r0: Result<&A, MinMaxError>) ensures max_step(acc, elem, r0)
//@at after_call fold 0
        proof {
            let s = self@;
            let n = s.len() as int;
            assert(exists|ord: Seq<int>, accs: Seq<Result<&A, MinMaxError>>| is_visit_order(ord, n) && accs.len() == n + 1
                && accs[0] == Ok::<&A, MinMaxError>(first) && accs[n] == __r
                && forall|k: int| 0 <= k < n ==> max_step(#[trigger] accs[k], &s[ord[k]], accs[k + 1]));
            let (ord, accs) = choose|ord: Seq<int>, accs: Seq<Result<&A, MinMaxError>>| is_visit_order(ord, n) && accs.len() == n + 1
                && accs[0] == Ok::<&A, MinMaxError>(first) && accs[n] == __r
                && forall|k: int| 0 <= k < n ==> max_step(#[trigger] accs[k], &s[ord[k]], accs[k + 1]);
            lemma_min_fold(false, s, ord, accs, first);
            reveal(float_like);
            assert forall|k: int| is_ext_at(false, s, k) implies is_max_at(s, k) by {
                assert forall|m: int| 0 <= m < s.len() implies pge(s[k], #[trigger] s[m]) by { assert(lte_d(false, s[k], s[m])); }
            }
        }
//@end
}

// ---- C20 as lemmas over the contracts proved above -----------------------------------------------------------------------
// Logically equal arrays (same shape, same elements in logical order, same index patterns; strides, memory order, offset and
// ownership may differ) get the same error, and otherwise answers that designate extremal elements of the same logical array,
// equivalent under the element order.  (Which of several equivalent extremal elements is returned is NOT determined by the
// contracts - and not by the code either: known finding D11.)
pub open spec fn same_logical<A, D: Dimension>(a: &ArrayN<A, D>, b: &ArrayN<A, D>) -> bool {
    a@ == b@ && a.shape_spec() == b.shape_spec() && forall|k: int| a.idx(k) == b.idx(k)
}
proof fn lemma_layout_argmin<A: PartialOrd, D: Dimension>(a1: ArrayN<A, D>, a2: ArrayN<A, D>, r1: Result<D::Pattern, MinMaxError>, r2: Result<D::Pattern, MinMaxError>)
    requires
        float_like::<A>(), same_logical(&a1, &a2),
        call_ensures(ArrayN::<A, D>::argmin, (&a1,), r1), call_ensures(ArrayN::<A, D>::argmin, (&a2,), r2),
    ensures
        r1 is Err ==> r1 == r2, r2 is Err ==> r1 == r2, // [C20]
        (r1 matches Ok(p1) && r2 matches Ok(p2)) ==> exists|k1: int, k2: int| is_min_at(a1@, k1) && is_min_at(a1@, k2) && r1->Ok_0 == a1.idx(k1) && r2->Ok_0 == a1.idx(k2) && pcmp(a1@[k1], a1@[k2]) == Some(Ordering::Equal), // [C20]
{
    reveal(float_like);
    if r1 is Ok && r2 is Ok {
        let k1 = choose|k: int| is_min_at(a1@, k) && r1->Ok_0 == a1.idx(k);
        let k2 = choose|k: int| is_min_at(a2@, k) && r2->Ok_0 == a2.idx(k);
        assert(ple(a1@[k1], a1@[k2]) && ple(a1@[k2], a1@[k1]));
    }
}
proof fn lemma_layout_argmax<A: PartialOrd, D: Dimension>(a1: ArrayN<A, D>, a2: ArrayN<A, D>, r1: Result<D::Pattern, MinMaxError>, r2: Result<D::Pattern, MinMaxError>)
    requires
        float_like::<A>(), same_logical(&a1, &a2),
        call_ensures(ArrayN::<A, D>::argmax, (&a1,), r1), call_ensures(ArrayN::<A, D>::argmax, (&a2,), r2),
    ensures
        r1 is Err ==> r1 == r2, r2 is Err ==> r1 == r2, // [C20]
        (r1 matches Ok(p1) && r2 matches Ok(p2)) ==> exists|k1: int, k2: int| is_max_at(a1@, k1) && is_max_at(a1@, k2) && r1->Ok_0 == a1.idx(k1) && r2->Ok_0 == a1.idx(k2) && pcmp(a1@[k1], a1@[k2]) == Some(Ordering::Equal), // [C20]
{
    reveal(float_like);
    if r1 is Ok && r2 is Ok {
        let k1 = choose|k: int| is_max_at(a1@, k) && r1->Ok_0 == a1.idx(k);
        let k2 = choose|k: int| is_max_at(a2@, k) && r2->Ok_0 == a2.idx(k);
        assert(pge(a1@[k1], a1@[k2]) && pge(a1@[k2], a1@[k1]));
    }
}
proof fn lemma_layout_min<A: PartialOrd, D: Dimension>(a1: ArrayN<A, D>, a2: ArrayN<A, D>, r1: Result<&A, MinMaxError>, r2: Result<&A, MinMaxError>)
    requires
        float_like::<A>(), same_logical(&a1, &a2),
        call_ensures(ArrayN::<A, D>::min, (&a1,), r1), call_ensures(ArrayN::<A, D>::min, (&a2,), r2),
    ensures
        r1 is Err ==> r1 == r2, r2 is Err ==> r1 == r2, // [C20]
        (r1 matches Ok(x1) && r2 matches Ok(x2)) ==> pcmp(*(r1->Ok_0), *(r2->Ok_0)) == Some(Ordering::Equal), // [C20] the same value up to the order's equivalence
{
    reveal(float_like);
    if r1 is Ok && r2 is Ok {
        let k1 = choose|k: int| is_min_at(a1@, k) && *(r1->Ok_0) == a1@[k];
        let k2 = choose|k: int| is_min_at(a2@, k) && *(r2->Ok_0) == a2@[k];
        assert(ple(a1@[k1], a1@[k2]) && ple(a1@[k2], a1@[k1]));
    }
}
proof fn lemma_layout_max<A: PartialOrd, D: Dimension>(a1: ArrayN<A, D>, a2: ArrayN<A, D>, r1: Result<&A, MinMaxError>, r2: Result<&A, MinMaxError>)
    requires
        float_like::<A>(), same_logical(&a1, &a2),
        call_ensures(ArrayN::<A, D>::max, (&a1,), r1), call_ensures(ArrayN::<A, D>::max, (&a2,), r2),
    ensures
        r1 is Err ==> r1 == r2, r2 is Err ==> r1 == r2, // [C20]
        (r1 matches Ok(x1) && r2 matches Ok(x2)) ==> pcmp(*(r1->Ok_0), *(r2->Ok_0)) == Some(Ordering::Equal), // [C20]
{
    reveal(float_like);
    if r1 is Ok && r2 is Ok {
        let k1 = choose|k: int| is_max_at(a1@, k) && *(r1->Ok_0) == a1@[k];
        let k2 = choose|k: int| is_max_at(a2@, k) && *(r2->Ok_0) == a2@[k];
        assert(pge(a1@[k1], a1@[k2]) && pge(a1@[k2], a1@[k1]));
    }
}

} // verus!
fn main() {}
