// unit `entropy`: src/entropy.rs — entropy, kl_divergence, cross_entropy (C10, C17, C20) under the exact-arithmetic
// reading A-REAL with `ln` an uninterpreted real function
#![allow(unused_imports, unused_variables, unused_mut, dead_code, unused_braces)]
use vstd::prelude::*;
use core::cmp::Ordering;
use std::cmp;
use vstd::std_specs::cmp::{OrdSpec, PartialOrdSpec, PartialEqSpec};
use vstd::std_specs::ops::*;
use std::ops::{Add, Sub, Mul, Div, Neg, AddAssign};
verus! {
//@include ../shim/order.rs
//@include ../shim/ndarr.rs
//@include ../shim/zip.rs
//@include ../shim/realnum.rs
//@include ../shim/entropy.rs

// the conversion of errors.rs used by `.into()` (extracted; its meaning is declared through vstd's FromSpecImpl)
impl vstd::std_specs::convert::FromSpecImpl<ShapeMismatch> for MultiInputError {
    open spec fn obeys_from_spec() -> bool { true }
    open spec fn from_spec(v: ShapeMismatch) -> Self { MultiInputError::ShapeMismatch(v) }
}
impl From<ShapeMismatch> for MultiInputError {
//@extract file=src/errors.rs impl=From:MultiInputError fn=from nth=1 id=from_shape_mismatch tags=C10,C17
//@sig
    fn from(err: ShapeMismatch) -> Self
//@end
}

impl<A, D: Dimension> ArrayN<A, D> {
//@extract file=src/entropy.rs impl=EntropyExt:ArrayBase fn=entropy id=entropy tags=C10,C17,C20 body_tags=C10
//@sig
    fn entropy(&self) -> (r: Result<A, MinMaxError>)
    where
        A: Float,
//@spec
        requires fin_model::<A>(),
            // ordinary non-negative numbers, zeros included
            forall|i: int| 0 <= i < self@.len() ==> (#[trigger] self@[i]).fin() && self@[i].val() >= 0real,
        ensures
            self@.len() == 0 ==> r matches Err(MinMaxError::EmptyInput), // [C10,C17]
            self@.len() > 0 ==> r is Ok, // [C17] Ok otherwise
            // - sum x ln x over all elements, a zero element contributing exactly zero (an ordinary number, not NaN)
            self@.len() > 0 ==> (r matches Ok(v) && v.fin() && v.val() == -tsum1(vals(self@), |x: real| h_term(x), self@.len() as int)), // [C10,C20]
//@closure 0
|x: A| -> (y: A) requires x.fin() && x.val() >= 0real ensures y.fin() && y.val() == h_term(x.val())
//@at entry
        proof {
            assert forall|y: Seq<real>| y.len() == self@.len() && (forall|i: int| 0 <= i < self@.len() ==> #[trigger] y[i] == h_term(vals(self@)[i]))
                implies #[trigger] rsum(y) == tsum1(vals(self@), |x: real| h_term(x), self@.len() as int) by {
                lemma_tsum1_pointwise(y, vals(self@), |x: real| h_term(x), self@.len() as int);
            }
        }
//@end

//@extract file=src/entropy.rs impl=EntropyExt:ArrayBase fn=kl_divergence id=kl_divergence tags=C10,C17,C20 body_tags=C10
//@sig
    fn kl_divergence(&self, q: &ArrayN<A, D>) -> (r: Result<A, MultiInputError>)
    where
        A: Float,
//@spec
        requires fin_model::<A>(),
            // ordinary non-negative numbers; q may be zero only where p is zero
            forall|i: int| 0 <= i < self@.len() ==> (#[trigger] self@[i]).fin() && self@[i].val() >= 0real,
            forall|i: int| 0 <= i < q@.len() ==> (#[trigger] q@[i]).fin() && q@[i].val() >= 0real,
            self.shape_spec() == q.shape_spec() ==> forall|i: int| 0 <= i < self@.len() ==> (#[trigger] self@[i]).val() > 0real ==> q@[i].val() > 0real,
        ensures
            self@.len() == 0 ==> r matches Err(MultiInputError::EmptyInput), // [C10,C17]
            self@.len() > 0 && self.shape_spec() != q.shape_spec() ==> (r matches Err(MultiInputError::ShapeMismatch(sm)) && sm.first_shape@ == self.shape_spec() && sm.second_shape@ == q.shape_spec()), // [C10,C17]
            self@.len() > 0 && self.shape_spec() == q.shape_spec() ==> r is Ok, // [C17] Ok otherwise
            // - sum p ln(q / p), elements of p and q paired by logical index, a zero p contributing exactly zero
            self@.len() > 0 && self.shape_spec() == q.shape_spec() ==> (r matches Ok(v) && v.fin() && v.val() == -tsum2(vals(self@), vals(q@), |a: real, b: real| kl_term(a, b), self@.len() as int)), // [C10,C20]
//@at entry
        proof { assert(lawful_clone::<usize>()); }
        let ghost ps = vals(self@); let ghost qs = vals(q@); let ghost n = self@.len() as int;
//@at after_let temp 0
        let ghost temp0: Seq<A> = temp@; // (pins the element type of `temp`, which rustc otherwise infers from the closure)
//@at before_call verif_zip3_idx 0
        proof { assert(self.shape_spec() =~= q.shape_spec()); }
//@loop 0
            invariant
                fin_model::<A>(), all_fin(self@), all_fin(q@), all_fin(temp@), ps == vals(self@), qs == vals(q@), n == self@.len(), n == q@.len(), temp@.len() == n,
                it.seq() == __zs, __zs.len() == n, forall|i: int| 0 <= i < n ==> #[trigger] zip_visits(__zs, i),
                forall|k: int| 0 <= k < __zs.len() ==> (#[trigger] __zs[k]).0 < n && *__zs[k].1 == self@[__zs[k].0 as int] && *__zs[k].2 == q@[__zs[k].0 as int],
                forall|i: int| 0 <= i < n ==> ps[i] >= 0real && qs[i] >= 0real && (ps[i] > 0real ==> qs[i] > 0real),
                forall|j: int| 0 <= j < it.index@ ==> temp@[(#[trigger] __zs[j]).0 as int].val() == kl_term(ps[__zs[j].0 as int], qs[__zs[j].0 as int]), // [C10]
//@at loop_start 0
            proof { assert(__zs[it.index@] == (__i, __ref_p, __ref_q)); }
            let ghost temp_before = temp@;
//@at loop_end 0
            proof {
                let i = __i as int;
                assert(p.fin() && q.fin() && p.val() == ps[i] && q.val() == qs[i]);
                assert(ps[i] >= 0real && qs[i] >= 0real && (ps[i] > 0real ==> qs[i] > 0real));
                if ps[i] > 0real { rl_div_pos(qs[i], ps[i]); }
                assert(__slot.fin() && __slot.val() == kl_term(ps[i], qs[i]));
                assert(temp@ == temp_before.update(i, __slot));
                assert(all_fin(temp@));
            }
//@at after_loop 0
        proof {
            let ts = vals(temp@);
            assert forall|i: int| 0 <= i < n implies #[trigger] ts[i] == kl_term(ps[i], qs[i]) by {
                assert(zip_visits(__zs, i));
                let k = choose|k: int| 0 <= k < __zs.len() && (#[trigger] __zs[k]).0 == i;
                assert(temp@[__zs[k].0 as int].val() == kl_term(ps[i], qs[i]));
            }
            lemma_tsum2_pointwise(ts, ps, qs, |a: real, b: real| kl_term(a, b), n);
        }
//@end

//@extract file=src/entropy.rs impl=EntropyExt:ArrayBase fn=cross_entropy id=cross_entropy tags=C10,C17,C20 body_tags=C10
//@sig
    fn cross_entropy(&self, q: &ArrayN<A, D>) -> (r: Result<A, MultiInputError>)
    where
        A: Float,
//@spec
        requires fin_model::<A>(),
            // ordinary non-negative numbers; q may be zero only where p is zero
            forall|i: int| 0 <= i < self@.len() ==> (#[trigger] self@[i]).fin() && self@[i].val() >= 0real,
            forall|i: int| 0 <= i < q@.len() ==> (#[trigger] q@[i]).fin() && q@[i].val() >= 0real,
            self.shape_spec() == q.shape_spec() ==> forall|i: int| 0 <= i < self@.len() ==> (#[trigger] self@[i]).val() > 0real ==> q@[i].val() > 0real,
        ensures
            self@.len() == 0 ==> r matches Err(MultiInputError::EmptyInput), // [C10,C17]
            self@.len() > 0 && self.shape_spec() != q.shape_spec() ==> (r matches Err(MultiInputError::ShapeMismatch(sm)) && sm.first_shape@ == self.shape_spec() && sm.second_shape@ == q.shape_spec()), // [C10,C17]
            self@.len() > 0 && self.shape_spec() == q.shape_spec() ==> r is Ok, // [C17] Ok otherwise
            // - sum p ln q, elements paired by logical index, a zero p contributing exactly zero
            self@.len() > 0 && self.shape_spec() == q.shape_spec() ==> (r matches Ok(v) && v.fin() && v.val() == -tsum2(vals(self@), vals(q@), |a: real, b: real| ce_term(a, b), self@.len() as int)), // [C10,C20]
//@at entry
        proof { assert(lawful_clone::<usize>()); }
        let ghost ps = vals(self@); let ghost qs = vals(q@); let ghost n = self@.len() as int;
//@at after_let temp 0
        let ghost temp0: Seq<A> = temp@; // (pins the element type of `temp`, which rustc otherwise infers from the closure)
//@at before_call verif_zip3_idx 0
        proof { assert(self.shape_spec() =~= q.shape_spec()); }
//@loop 0
            invariant
                fin_model::<A>(), all_fin(self@), all_fin(q@), all_fin(temp@), ps == vals(self@), qs == vals(q@), n == self@.len(), n == q@.len(), temp@.len() == n,
                it.seq() == __zs, __zs.len() == n, forall|i: int| 0 <= i < n ==> #[trigger] zip_visits(__zs, i),
                forall|k: int| 0 <= k < __zs.len() ==> (#[trigger] __zs[k]).0 < n && *__zs[k].1 == self@[__zs[k].0 as int] && *__zs[k].2 == q@[__zs[k].0 as int],
                forall|i: int| 0 <= i < n ==> ps[i] >= 0real && qs[i] >= 0real && (ps[i] > 0real ==> qs[i] > 0real),
                forall|j: int| 0 <= j < it.index@ ==> temp@[(#[trigger] __zs[j]).0 as int].val() == ce_term(ps[__zs[j].0 as int], qs[__zs[j].0 as int]), // [C10]
//@at loop_start 0
            proof { assert(__zs[it.index@] == (__i, __ref_p, __ref_q)); }
            let ghost temp_before = temp@;
//@at loop_end 0
            proof {
                let i = __i as int;
                assert(p.fin() && q.fin() && p.val() == ps[i] && q.val() == qs[i]);
                assert(ps[i] >= 0real && qs[i] >= 0real && (ps[i] > 0real ==> qs[i] > 0real));
                assert(__slot.fin() && __slot.val() == ce_term(ps[i], qs[i]));
                assert(temp@ == temp_before.update(i, __slot));
                assert(all_fin(temp@));
            }
//@at after_loop 0
        proof {
            let ts = vals(temp@);
            assert forall|i: int| 0 <= i < n implies #[trigger] ts[i] == ce_term(ps[i], qs[i]) by {
                assert(zip_visits(__zs, i));
                let k = choose|k: int| 0 <= k < __zs.len() && (#[trigger] __zs[k]).0 == i;
                assert(temp@[__zs[k].0 as int].val() == ce_term(ps[i], qs[i]));
            }
            lemma_tsum2_pointwise(ts, ps, qs, |a: real, b: real| ce_term(a, b), n);
        }
//@end
}

// ---- C20 as lemmas over the contracts proved above (reading: unit `deviation`); in exact arithmetic (A-REAL) the order of
// summation is immaterial, so logically equal arrays give the same real value: on the machine the answers then agree up to the
// summation roundoff, which is what the property asks of floating-point sums ----------------------------------------------
pub open spec fn same_logical<A, D: Dimension>(a: &ArrayN<A, D>, b: &ArrayN<A, D>) -> bool { a@ == b@ && a.shape_spec() == b.shape_spec() }
pub open spec fn same_err(e1: MultiInputError, e2: MultiInputError) -> bool {
    match (e1, e2) {
        (MultiInputError::EmptyInput, MultiInputError::EmptyInput) => true,
        (MultiInputError::ShapeMismatch(s1), MultiInputError::ShapeMismatch(s2)) => s1.first_shape@ == s2.first_shape@ && s1.second_shape@ == s2.second_shape@,
        _ => false,
    }
}
pub open spec fn same_real<A: Float>(r1: Result<A, MultiInputError>, r2: Result<A, MultiInputError>) -> bool {
    match (r1, r2) { (Ok(v1), Ok(v2)) => v1.val() == v2.val(), (Err(e1), Err(e2)) => same_err(e1, e2), _ => false }
}
proof fn lemma_layout_entropy<A: Float, D: Dimension>(a1: ArrayN<A, D>, a2: ArrayN<A, D>, r1: Result<A, MinMaxError>, r2: Result<A, MinMaxError>)
    requires
        same_logical(&a1, &a2),
        call_ensures(ArrayN::<A, D>::entropy, (&a1,), r1), call_ensures(ArrayN::<A, D>::entropy, (&a2,), r2),
    ensures
        r1 is Err ==> r1 == r2, r2 is Err ==> r1 == r2, // [C20]
        r1 is Ok && r2 is Ok ==> r1->Ok_0.val() == r2->Ok_0.val(), // [C20]
{
}
proof fn lemma_layout_kl_divergence<A: Float, D: Dimension>(a1: ArrayN<A, D>, a2: ArrayN<A, D>, q1: ArrayN<A, D>, q2: ArrayN<A, D>, r1: Result<A, MultiInputError>, r2: Result<A, MultiInputError>)
    requires
        same_logical(&a1, &a2), same_logical(&q1, &q2),
        call_ensures(ArrayN::<A, D>::kl_divergence, (&a1, &q1), r1), call_ensures(ArrayN::<A, D>::kl_divergence, (&a2, &q2), r2),
    ensures same_real(r1, r2), // [C20]
{
}
proof fn lemma_layout_cross_entropy<A: Float, D: Dimension>(a1: ArrayN<A, D>, a2: ArrayN<A, D>, q1: ArrayN<A, D>, q2: ArrayN<A, D>, r1: Result<A, MultiInputError>, r2: Result<A, MultiInputError>)
    requires
        same_logical(&a1, &a2), same_logical(&q1, &q2),
        call_ensures(ArrayN::<A, D>::cross_entropy, (&a1, &q1), r1), call_ensures(ArrayN::<A, D>::cross_entropy, (&a2, &q2), r2),
    ensures same_real(r1, r2), // [C20]
{
}

} // verus!
fn main() {}
