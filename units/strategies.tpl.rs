// unit `strategies`: src/histogram/strategies.rs — Sqrt / Rice / Sturges ::from_array, compute_bin_width; src/histogram/errors.rs From<MinMaxError> (C12, C17)
#![feature(allocator_api)]
#![allow(unused_imports, unused_variables, unused_mut, dead_code)]
use vstd::prelude::*;
use core::cmp::Ordering;
use std::cmp;
use vstd::std_specs::cmp::{OrdSpec, PartialOrdSpec, PartialEqSpec};
use vstd::std_specs::ops::*;
use std::alloc::Allocator;
use std::ops::{Add, Sub, Mul, Div, Range};
verus! {
//@include ../shim/order.rs
//@include ../shim/ndarr.rs
//@include ../shim/lane.rs
//@include ../shim/slices.rs
//@include ../shim/bins_types.rs
//@include ../shim/num.rs
//@include ../shim/strategies.rs

impl From<MinMaxError> for BinsBuildError {
//@extract file=src/histogram/errors.rs impl=From:BinsBuildError fn=from nth=1 id=from_minmax_error tags=C17,C12
//@sig
    fn from(err: MinMaxError) -> BinsBuildError
//@end
}

//@extract file=src/histogram/strategies.rs fn=compute_bin_width id=compute_bin_width tags=C12
//@sig
fn compute_bin_width<T>(min: T, max: T, n_bins: usize) -> (r: T)
where
    T: Ord + Clone + FromPrimitive + NumOps + Zero,
//@spec
    requires width_ok::<T>(),
    ensures r == width_spec(min, max, n_bins), // [C12] (max - min) / n with the type's own operators
//@end

// what from_array must deliver: EmptyInput for no data; otherwise the builder is fitted to a minimal and a maximal element of the
// data and to the width (max - min) / n_bins, and constant data (or a non-positive width) are rejected with the Strategy error
pub open spec fn fitted<T: Ord + Clone + FromPrimitive + NumOps + Zero>(data: Seq<T>, nb: usize, r: Result<EquiSpaced<T>, BinsBuildError>) -> bool {
    &&& data.len() == 0 ==> r == Err::<EquiSpaced<T>, BinsBuildError>(BinsBuildError::EmptyInput)
    &&& data.len() > 0 ==> exists|kmin: int, kmax: int| #![trigger data[kmin], data[kmax]] is_min_at(data, kmin) && is_max_at(data, kmax) && ({
            let w = width_spec(data[kmin], data[kmax], nb);
            &&& r is Err <==> (le(w, T::zero_spec()) || le(data[kmax], data[kmin]))
            &&& r is Err ==> r == Err::<EquiSpaced<T>, BinsBuildError>(BinsBuildError::Strategy)
            &&& r matches Ok(b) ==> b.min == data[kmin] && b.max == data[kmax] && b.bin_width == w
        })
}
pub open spec fn strat_pre<T: Ord + Clone + FromPrimitive + NumOps + Zero>() -> bool {
    lawful_ord::<T>() && lawful_clone::<T>() && float_like::<T>() && width_ok::<T>()
}

impl<T> Sqrt<T>
where
    T: Ord + Clone + FromPrimitive + NumOps + Zero,
{
//@extract file=src/histogram/strategies.rs impl=BinsBuildingStrategy:Sqrt fn=from_array id=Sqrt::from_array tags=C12,C17
//@sig
    fn from_array(a: &ArrayN<T, Ix1>) -> (r: Result<Self, BinsBuildError>)
//@spec
        requires strat_pre::<T>(),
        ensures fitted(a@, sqrt_bins(a@.len() as usize), match r { Ok(s) => Ok(s.builder), Err(e) => Err(e) }), // [C12,C17]
//@replace_text
(n_elems as f64).sqrt().round() as usize
verif_sqrt_bins(n_elems)
//@try_desugar 0
//@try_desugar 1
//@at entry
        proof { lemma_no_nan(a@); }
//@end
}
impl<T> Rice<T>
where
    T: Ord + Clone + FromPrimitive + NumOps + Zero,
{
//@extract file=src/histogram/strategies.rs impl=BinsBuildingStrategy:Rice fn=from_array id=Rice::from_array tags=C12,C17
//@sig
    fn from_array(a: &ArrayN<T, Ix1>) -> (r: Result<Self, BinsBuildError>)
//@spec
        requires strat_pre::<T>(),
        ensures fitted(a@, rice_bins(a@.len() as usize), match r { Ok(s) => Ok(s.builder), Err(e) => Err(e) }), // [C12,C17]
//@replace_text
(2. * (n_elems as f64).powf(1. / 3.)).round() as usize
verif_rice_bins(n_elems)
//@try_desugar 0
//@try_desugar 1
//@at entry
        proof { lemma_no_nan(a@); }
//@end
}
impl<T> Sturges<T>
where
    T: Ord + Clone + FromPrimitive + NumOps + Zero,
{
//@extract file=src/histogram/strategies.rs impl=BinsBuildingStrategy:Sturges fn=from_array id=Sturges::from_array tags=C12,C17
//@sig
    fn from_array(a: &ArrayN<T, Ix1>) -> (r: Result<Self, BinsBuildError>)
//@spec
        requires strat_pre::<T>(),
        ensures fitted(a@, sturges_bins(a@.len() as usize), match r { Ok(s) => Ok(s.builder), Err(e) => Err(e) }), // [C12,C17]
//@replace_text
(n_elems as f64).log2().round() as usize + 1
verif_sturges_bins(n_elems)
//@try_desugar 0
//@try_desugar 1
//@at entry
        proof { lemma_no_nan(a@); }
//@end
}

} // verus!
fn main() {}
