// unit `strategies`: src/histogram/strategies.rs — Sqrt / Rice / Sturges ::from_array, compute_bin_width; src/histogram/errors.rs From<MinMaxError> (C12, C17)
#![feature(allocator_api)]
#![allow(unused_imports, unused_variables, unused_mut, dead_code)]
use vstd::prelude::*;
use core::cmp::Ordering;
use std::cmp;
use vstd::std_specs::cmp::{OrdSpec, PartialOrdSpec, PartialEqSpec};
use vstd::std_specs::ops::*;
use std::alloc::Allocator;
use std::ops::{Add, Sub, Mul, Div, Range};
verus! {
//@include ../shim/order.rs
//@include ../shim/ndarr.rs
//@include ../shim/lane.rs
//@include ../shim/slices.rs
//@include ../shim/bins_types.rs
//@include ../shim/num.rs
//@include ../shim/strategies.rs
//@include ../shim/iterchain.rs
//@include ../shim/grid_types.rs
//@include ../shim/gridbuilder.rs

impl From<MinMaxError> for BinsBuildError {
//@extract file=src/histogram/errors.rs impl=From:BinsBuildError fn=from nth=1 id=from_minmax_error tags=C17,C12
//@sig
    fn from(err: MinMaxError) -> BinsBuildError
//@end
}

//@extract file=src/histogram/strategies.rs fn=compute_bin_width id=compute_bin_width tags=C12
//@sig
fn compute_bin_width<T>(min: T, max: T, n_bins: usize) -> (r: T)
where
    T: Ord + Clone + FromPrimitive + NumOps + Zero,
//@spec
    requires width_ok::<T>(),
    ensures r == width_spec(min, max, n_bins), // [C12] (max - min) / n with the type's own operators
//@end

// what from_array must deliver: EmptyInput for no data; otherwise the builder is fitted to a minimal and a maximal element of the
// data and to the width (max - min) / n_bins, and constant data (or a non-positive width) are rejected with the Strategy error
pub open spec fn fitted<T: Ord + Clone + FromPrimitive + NumOps + Zero>(data: Seq<T>, nb: usize, r: Result<EquiSpaced<T>, BinsBuildError>) -> bool {
    &&& data.len() == 0 ==> r == Err::<EquiSpaced<T>, BinsBuildError>(BinsBuildError::EmptyInput)
    &&& data.len() > 0 ==> exists|kmin: int, kmax: int| #![trigger data[kmin], data[kmax]] is_min_at(data, kmin) && is_max_at(data, kmax) && ({
            let w = width_spec(data[kmin], data[kmax], nb);
            &&& r is Err <==> (le(w, T::zero_spec()) || le(data[kmax], data[kmin]))
            &&& r is Err ==> r == Err::<EquiSpaced<T>, BinsBuildError>(BinsBuildError::Strategy)
            &&& r matches Ok(b) ==> b.min == data[kmin] && b.max == data[kmax] && b.bin_width == w
        })
}
// the error clause on its own (C17): EmptyInput exactly for no data - any other failure is the Strategy error
pub open spec fn err_kind<B>(n: nat, r: Result<B, BinsBuildError>) -> bool {
    &&& (n == 0 ==> r == Err::<B, BinsBuildError>(BinsBuildError::EmptyInput))
    &&& (n > 0 && r is Err ==> r == Err::<B, BinsBuildError>(BinsBuildError::Strategy))
}
pub open spec fn strat_pre<T: Ord + Clone + FromPrimitive + NumOps + Zero>() -> bool {
    lawful_ord::<T>() && lawful_clone::<T>() && float_like::<T>() && width_ok::<T>()
}

impl<T> Sqrt<T>
where
    T: Ord + Clone + FromPrimitive + NumOps + Zero,
{
//@extract file=src/histogram/strategies.rs impl=BinsBuildingStrategy:Sqrt fn=from_array id=Sqrt::from_array tags=C12,C17 body_tags=C12
//@sig
    fn from_array(a: &ArrayN<T, Ix1>) -> (r: Result<Self, BinsBuildError>)
//@spec
        requires strat_pre::<T>(),
        ensures
            err_kind(a@.len(), r), // [C12,C17]
            fitted(a@, sqrt_bins(a@.len() as usize), match r { Ok(s) => Ok(s.builder), Err(e) => Err(e) }), // [C12] which data are rejected, and what the builder is fitted to
//@replace_text
(n_elems as f64).sqrt().round() as usize
verif_sqrt_bins(n_elems)
//@try_desugar 0
//@try_desugar 1
//@at entry
        proof { lemma_no_nan(a@); }
//@end
}
impl<T> Rice<T>
where
    T: Ord + Clone + FromPrimitive + NumOps + Zero,
{
//@extract file=src/histogram/strategies.rs impl=BinsBuildingStrategy:Rice fn=from_array id=Rice::from_array tags=C12,C17 body_tags=C12
//@sig
    fn from_array(a: &ArrayN<T, Ix1>) -> (r: Result<Self, BinsBuildError>)
//@spec
        requires strat_pre::<T>(),
        ensures
            err_kind(a@.len(), r), // [C12,C17]
            fitted(a@, rice_bins(a@.len() as usize), match r { Ok(s) => Ok(s.builder), Err(e) => Err(e) }), // [C12] which data are rejected, and what the builder is fitted to
//@replace_text
(2. * (n_elems as f64).powf(1. / 3.)).round() as usize
verif_rice_bins(n_elems)
//@try_desugar 0
//@try_desugar 1
//@at entry
        proof { lemma_no_nan(a@); }
//@end
}
impl<T> Sturges<T>
where
    T: Ord + Clone + FromPrimitive + NumOps + Zero,
{
//@extract file=src/histogram/strategies.rs impl=BinsBuildingStrategy:Sturges fn=from_array id=Sturges::from_array tags=C12,C17 body_tags=C12
//@sig
    fn from_array(a: &ArrayN<T, Ix1>) -> (r: Result<Self, BinsBuildError>)
//@spec
        requires strat_pre::<T>(),
        ensures
            err_kind(a@.len(), r), // [C12,C17]
            fitted(a@, sturges_bins(a@.len() as usize), match r { Ok(s) => Ok(s.builder), Err(e) => Err(e) }), // [C12] which data are rejected, and what the builder is fitted to
//@replace_text
(n_elems as f64).log2().round() as usize + 1
verif_sturges_bins(n_elems)
//@try_desugar 0
//@try_desugar 1
//@at entry
        proof { lemma_no_nan(a@); }
//@end
}

// the same with an arbitrary width w (FreedmanDiaconis derives it from the interquartile range, not from max - min)
pub open spec fn fitted_w<T: Ord + Clone + FromPrimitive + NumOps + Zero>(data: Seq<T>, w: T, r: Result<EquiSpaced<T>, BinsBuildError>) -> bool {
    &&& data.len() == 0 ==> r == Err::<EquiSpaced<T>, BinsBuildError>(BinsBuildError::EmptyInput)
    &&& data.len() > 0 ==> exists|kmin: int, kmax: int| #![trigger data[kmin], data[kmax]] is_min_at(data, kmin) && is_max_at(data, kmax) && ({
            &&& r is Err <==> (le(w, T::zero_spec()) || le(data[kmax], data[kmin]))
            &&& r is Err ==> r == Err::<EquiSpaced<T>, BinsBuildError>(BinsBuildError::Strategy)
            &&& r matches Ok(b) ==> b.min == data[kmin] && b.max == data[kmax] && b.bin_width == w
        })
}
impl<T> FreedmanDiaconis<T>
where
    T: Ord + Clone + FromPrimitive + NumOps + Zero,
{
//@extract file=src/histogram/strategies.rs impl=FreedmanDiaconis fn=compute_bin_width id=FreedmanDiaconis::compute_bin_width tags=C12
//@sig
    fn compute_bin_width(n_bins: usize, iqr: T) -> (r: T)
//@spec
        requires fd_ok::<T>(),
        ensures r == fd_width_spec(n_bins, iqr), // [C12] 2 * IQR / n^(1/3) with the type's own operators
//@replace_text
(n_bins as f64).powf(1. / 3.)
verif_cbrt(n_bins)
//@end

//@extract file=src/histogram/strategies.rs impl=BinsBuildingStrategy:FreedmanDiaconis fn=from_array id=FreedmanDiaconis::from_array tags=C12,C17 body_tags=C12
//@sig
    fn from_array(a: &ArrayN<T, Ix1>) -> (r: Result<Self, BinsBuildError>)
//@spec
        requires strat_pre::<T>(), fd_ok::<T>(),
        ensures
            err_kind(a@.len(), r), // [C12,C17]
            fitted_w(a@, fd_width_of(a@), match r { Ok(s) => Ok(s.builder), Err(e) => Err(e) }), // [C12]
//@replace_text
n64(0.25)
verif_q25()
//@replace_text
n64(0.75)
verif_q75()
//@try_desugar 0
//@try_desugar 1
//@at entry
        proof { lemma_no_nan(a@); }
//@end
}

impl<T> Sturges<T>
where
    T: Ord + Clone + FromPrimitive + NumOps + Zero,
{
//@extract file=src/histogram/strategies.rs impl=Sturges fn=bin_width id=Sturges::bin_width tags=C12
//@sig
    pub fn bin_width(&self) -> (r: T)
//@spec
        ensures lawful_clone::<T>() ==> r == self.builder.bin_width, // [C12]
//@end
}
impl<T> FreedmanDiaconis<T>
where
    T: Ord + Clone + FromPrimitive + NumOps + Zero,
{
//@extract file=src/histogram/strategies.rs impl=FreedmanDiaconis fn=bin_width id=FreedmanDiaconis::bin_width tags=C12
//@sig
    pub fn bin_width(&self) -> (r: T)
//@spec
        ensures lawful_clone::<T>() ==> r == self.builder.bin_width, // [C12]
//@end
}
// the equispaced builder an Auto strategy ends up with
pub open spec fn auto_builder<T>(s: Auto<T>) -> EquiSpaced<T> {
    match s.builder { SturgesOrFD::Sturges(b) => b.builder, SturgesOrFD::FreedmanDiaconis(b) => b.builder }
}
impl<T> Auto<T>
where
    T: Ord + Clone + FromPrimitive + NumOps + Zero,
{
//@extract file=src/histogram/strategies.rs impl=BinsBuildingStrategy:Auto fn=from_array id=Auto::from_array tags=C12,C17 body_tags=C12
//@sig
    fn from_array(a: &ArrayN<T, Ix1>) -> (r: Result<Self, BinsBuildError>)
//@spec
        requires strat_pre::<T>(), fd_ok::<T>(),
        ensures
            a@.len() == 0 ==> r matches Err(BinsBuildError::EmptyInput), // [C12,C17]
            a@.len() > 0 && r is Err ==> r matches Err(BinsBuildError::Strategy), // [C12,C17]
            // ... and it fails only when both candidate strategies fail: constant data, or both widths non-positive
            a@.len() > 0 && r is Err ==> exists|kmin: int, kmax: int| #![trigger a@[kmin], a@[kmax]] is_min_at(a@, kmin) && is_max_at(a@, kmax)
                && (le(a@[kmax], a@[kmin]) || (le(fd_width_of(a@), T::zero_spec()) && le(width_spec(a@[kmin], a@[kmax], sturges_bins(a@.len() as usize)), T::zero_spec()))), // [C12,C17]
            // otherwise one of the two fitted builders: minimum and maximum of the data, a positive width
            r matches Ok(s) ==> exists|kmin: int, kmax: int| #![trigger a@[kmin], a@[kmax]] is_min_at(a@, kmin) && is_max_at(a@, kmax)
                && auto_builder(s).min == a@[kmin] && auto_builder(s).max == a@[kmax] && !le(auto_builder(s).bin_width, T::zero_spec()), // [C12]
//@binop cmp 0 verif_val
//@end
}

impl<A, B> GridBuilder<B>
where
    A: Ord,
    B: BinsBuildingStrategy<Elem = A>,
{
//@extract file=src/histogram/grid.rs impl=GridBuilder fn=from_array id=GridBuilder::from_array tags=C12,C17 body_tags=C12
//@sig
    pub fn from_array(array: &Obs2<A>) -> (r: Result<Self, BinsBuildError>)
//@spec
        ensures
            // one strategy per column, each the result of the strategy's own from_array on that column ...
            r matches Ok(g) ==> g.bin_builders@.len() == array.slices(1).len()
                && forall|j: int| 0 <= j < g.bin_builders@.len() ==> B::from_array_post(array.slices(1)[j], Ok::<B, BinsBuildError>(#[trigger] g.bin_builders@[j])), // [C12,C17]
            // ... or the error some column's strategy reports (std's collect: the first one in index order)
            r matches Err(e) ==> exists|j: int| 0 <= j < array.slices(1).len() && B::from_array_post(#[trigger] array.slices(1)[j], Err::<B, BinsBuildError>(e)), // [C12,C17]
//@closure 0
|data: ArrayN<A, Ix1>| -> (o: Result<B, BinsBuildError>) ensures B::from_array_post(data@, o)
//@replace_text
.collect::<Result<Vec<B>, BinsBuildError>>()
.verif_collect_result()
//@end
}

impl<A: Ord> From<Vec<Bins<A>>> for Grid<A> {
//@extract file=src/histogram/grid.rs impl=From:Grid fn=from id=Grid::from_projections tags=C12
//@sig
    fn from(projections: Vec<Bins<A>>) -> (r: Self)
//@spec
        ensures r.projections == projections, // [C12]
//@end
}

impl<A, B> GridBuilder<B>
where
    A: Ord,
    B: BinsBuildingStrategy<Elem = A>,
{
//@extract file=src/histogram/grid.rs impl=GridBuilder fn=build id=GridBuilder::build tags=C12
//@sig
    pub fn build(&self) -> (r: Grid<A>)
//@spec
        ensures
            // one projection per fitted strategy, in the same order, each what that strategy's own `build` produces
            r.projections@.len() == self.bin_builders@.len(), // [C12]
            forall|j: int| 0 <= j < self.bin_builders@.len() ==> self.bin_builders@[j].build_post(#[trigger] r.projections@[j]), // [C12]
//@closure 0
|b: &B| -> (o: Bins<A>) ensures b.build_post(o)
//@replace_text
self.bin_builders.iter()
self.bin_builders.verif_iter()
//@end
}

} // verus!
fn main() {}
