// unit `deviation`: src/deviation.rs — count_eq, sq_l2_dist, l1_dist, linf_dist (C09, C17, C20)
#![allow(unused_imports, unused_variables, unused_mut, dead_code, unused_braces)]
use vstd::prelude::*;
use core::cmp::Ordering;
use std::cmp;
use vstd::std_specs::cmp::{OrdSpec, PartialOrdSpec, PartialEqSpec};
use vstd::std_specs::ops::*;
use std::ops::{Sub, Mul, AddAssign};
verus! {
//@include ../shim/order.rs
//@include ../shim/ndarr.rs
//@include ../shim/zip.rs

// number of index positions holding equal elements, as a left fold over the index-aligned pairs
pub open spec fn eq_count_f<A: PartialEq>() -> spec_fn(int, (A, A)) -> int { |c: int, p: (A, A)| if p.0.eq_spec(&p.1) { c + 1 } else { c } }
pub open spec fn count_eq_spec<A: PartialEq>(a: Seq<A>, b: Seq<A>) -> int { zip_seq(a, b).fold_left(0int, eq_count_f::<A>()) }

pub proof fn lemma_fold_prefix<P, B>(s: Seq<P>, k: int, v: B, f: spec_fn(B, P) -> B)
    requires 0 <= k < s.len()
    ensures s.subrange(0, k + 1).fold_left(v, f) == f(s.subrange(0, k).fold_left(v, f), s[k])
{
    let t = s.subrange(0, k + 1);
    assert(t.drop_last() =~= s.subrange(0, k));
    assert(t.last() == s[k]);
}

pub proof fn lemma_count_bound<A: PartialEq>(s: Seq<(A, A)>)
    ensures 0 <= s.fold_left(0int, eq_count_f::<A>()) <= s.len()
    decreases s.len()
{
    if s.len() > 0 { lemma_count_bound::<A>(s.drop_last()); }
}

// the distance folds, over index-aligned pairs
pub open spec fn sq_f<A: Signed + AddAssign>() -> spec_fn(A, (A, A)) -> A { |acc: A, p: (A, A)| *acc.add_assign_spec(p.0.sub_spec(p.1).mul_spec(p.0.sub_spec(p.1))) }
pub open spec fn l1_f<A: Signed + AddAssign>() -> spec_fn(A, (A, A)) -> A { |acc: A, p: (A, A)| *acc.add_assign_spec(p.0.sub_spec(p.1).abs_spec()) }
pub open spec fn linf_f<A: Signed + PartialOrd>() -> spec_fn(A, (A, A)) -> A { |acc: A, p: (A, A)| if p.0.sub_spec(p.1).abs_spec().partial_cmp_spec(&acc) == Some(Ordering::Greater) { p.0.sub_spec(p.1).abs_spec() } else { acc } }
// all index-aligned pairs, each exactly once, in the order in which Zip happened to visit them
pub open spec fn visits_all<A>(ps: Seq<(A, A)>, a: Seq<A>, b: Seq<A>) -> bool { ps.to_multiset() == zip_seq(a, b).to_multiset() }

impl<A, D: Dimension> ArrayN<A, D> {
//@extract file=src/deviation.rs impl=DeviationExt:ArrayBase fn=sq_l2_dist id=sq_l2_dist tags=C09,C17,C20 body_tags=C09 macro_into=verif_into_same
//@sig
    fn sq_l2_dist(&self, other: &ArrayN<A, D>) -> (r: Result<A, MultiInputError>)
    where
        A: AddAssign + Clone + Signed,
//@spec
        requires arith_total::<A>(), lawful_clone::<A>(),
        ensures
            self@.len() == 0 ==> r matches Err(MultiInputError::EmptyInput), // [C09,C17]
            self@.len() > 0 && self.shape_spec() != other.shape_spec() ==> (r matches Err(MultiInputError::ShapeMismatch(sm)) && sm.first_shape@ == self.shape_spec() && sm.second_shape@ == other.shape_spec()), // [C09,C17] both shapes in the payload
            self@.len() > 0 && self.shape_spec() == other.shape_spec() ==> r is Ok, // [C17] Ok otherwise
            // sum of (a-b)^2 over all index-aligned pairs (each once); for a commutative-associative `+` the order is immaterial
            self@.len() > 0 && self.shape_spec() == other.shape_spec() ==> (r matches Ok(v) && exists|ps: Seq<(A, A)>| #[trigger] visits_all(ps, self@, other@) && v == ps.fold_left(A::zero_spec(), sq_f::<A>())
                && (vstd::seq_lib::commutative_foldl(sq_f::<A>()) ==> v == zip_seq(self@, other@).fold_left(A::zero_spec(), sq_f::<A>()))), // [C09,C20]
//@at entry
        proof { assert(lawful_clone::<usize>()); }
//@at before_call verif_zip2 0
        proof { assert(self.shape_spec() =~= other.shape_spec()); }
        let ghost mut idx_g: int = 0;
//@loop 0
            invariant
                arith_total::<A>(), lawful_clone::<A>(),
                it.seq() == __zs, __zs.len() == self@.len(), idx_g == it.index@, idx_g <= __zs.len(),
                result == pairs_of(__zs).subrange(0, idx_g).fold_left(A::zero_spec(), sq_f::<A>()), // [C09]
//@at loop_end 0
            proof {
                lemma_fold_prefix(pairs_of(__zs), idx_g, A::zero_spec(), sq_f::<A>());
                idx_g = idx_g + 1;
            }
//@at after_loop 0
        proof {
            let ps = pairs_of(__zs);
            assert(idx_g == self@.len());
            assert(ps.subrange(0, ps.len() as int) =~= ps);
            assert(visits_all(ps, self@, other@));
            if vstd::seq_lib::commutative_foldl(sq_f::<A>()) { vstd::seq_lib::lemma_fold_left_permutation(ps, zip_seq(self@, other@), sq_f::<A>(), A::zero_spec()); }
        }
//@end

//@extract file=src/deviation.rs impl=DeviationExt:ArrayBase fn=l1_dist id=l1_dist tags=C09,C17,C20 body_tags=C09 macro_into=verif_into_same
//@sig
    fn l1_dist(&self, other: &ArrayN<A, D>) -> (r: Result<A, MultiInputError>)
    where
        A: AddAssign + Clone + Signed,
//@spec
        requires arith_total::<A>(), lawful_clone::<A>(),
        ensures
            self@.len() == 0 ==> r matches Err(MultiInputError::EmptyInput), // [C09,C17]
            self@.len() > 0 && self.shape_spec() != other.shape_spec() ==> (r matches Err(MultiInputError::ShapeMismatch(sm)) && sm.first_shape@ == self.shape_spec() && sm.second_shape@ == other.shape_spec()), // [C09,C17] both shapes in the payload
            self@.len() > 0 && self.shape_spec() == other.shape_spec() ==> r is Ok, // [C17] Ok otherwise
            self@.len() > 0 && self.shape_spec() == other.shape_spec() ==> (r matches Ok(v) && exists|ps: Seq<(A, A)>| #[trigger] visits_all(ps, self@, other@) && v == ps.fold_left(A::zero_spec(), l1_f::<A>())
                && (vstd::seq_lib::commutative_foldl(l1_f::<A>()) ==> v == zip_seq(self@, other@).fold_left(A::zero_spec(), l1_f::<A>()))), // [C09,C20] sum of |a-b|
//@at entry
        proof { assert(lawful_clone::<usize>()); }
//@at before_call verif_zip2 0
        proof { assert(self.shape_spec() =~= other.shape_spec()); }
        let ghost mut idx_g: int = 0;
//@loop 0
            invariant
                arith_total::<A>(), lawful_clone::<A>(),
                it.seq() == __zs, __zs.len() == self@.len(), idx_g == it.index@, idx_g <= __zs.len(),
                result == pairs_of(__zs).subrange(0, idx_g).fold_left(A::zero_spec(), l1_f::<A>()), // [C09]
//@at loop_end 0
            proof {
                lemma_fold_prefix(pairs_of(__zs), idx_g, A::zero_spec(), l1_f::<A>());
                idx_g = idx_g + 1;
            }
//@at after_loop 0
        proof {
            let ps = pairs_of(__zs);
            assert(idx_g == self@.len());
            assert(ps.subrange(0, ps.len() as int) =~= ps);
            assert(visits_all(ps, self@, other@));
            if vstd::seq_lib::commutative_foldl(l1_f::<A>()) { vstd::seq_lib::lemma_fold_left_permutation(ps, zip_seq(self@, other@), l1_f::<A>(), A::zero_spec()); }
        }
//@end

//@extract file=src/deviation.rs impl=DeviationExt:ArrayBase fn=linf_dist id=linf_dist tags=C09,C17,C20 body_tags=C09 macro_into=verif_into_same
//@sig
    fn linf_dist(&self, other: &ArrayN<A, D>) -> (r: Result<A, MultiInputError>)
    where
        A: Clone + PartialOrd + Signed,
//@spec
        requires A::obeys_sub_spec(), forall|a: A, b: A| #[trigger] a.sub_req(b), A::obeys_partial_cmp_spec(), lawful_clone::<A>(),
        ensures
            self@.len() == 0 ==> r matches Err(MultiInputError::EmptyInput), // [C09,C17]
            self@.len() > 0 && self.shape_spec() != other.shape_spec() ==> (r matches Err(MultiInputError::ShapeMismatch(sm)) && sm.first_shape@ == self.shape_spec() && sm.second_shape@ == other.shape_spec()), // [C09,C17] both shapes in the payload
            self@.len() > 0 && self.shape_spec() == other.shape_spec() ==> r is Ok, // [C17] Ok otherwise
            self@.len() > 0 && self.shape_spec() == other.shape_spec() ==> (r matches Ok(v) && exists|ps: Seq<(A, A)>| #[trigger] visits_all(ps, self@, other@) && v == ps.fold_left(A::zero_spec(), linf_f::<A>())
                && (vstd::seq_lib::commutative_foldl(linf_f::<A>()) ==> v == zip_seq(self@, other@).fold_left(A::zero_spec(), linf_f::<A>()))), // [C09,C20] running maximum of |a-b| starting from zero
//@at entry
        proof { assert(lawful_clone::<usize>()); }
//@at before_call verif_zip2 0
        proof { assert(self.shape_spec() =~= other.shape_spec()); }
        let ghost mut idx_g: int = 0;
//@loop 0
            invariant
                A::obeys_sub_spec(), forall|a: A, b: A| #[trigger] a.sub_req(b), A::obeys_partial_cmp_spec(), lawful_clone::<A>(),
                it.seq() == __zs, __zs.len() == self@.len(), idx_g == it.index@, idx_g <= __zs.len(),
                max == pairs_of(__zs).subrange(0, idx_g).fold_left(A::zero_spec(), linf_f::<A>()), // [C09]
//@at loop_end 0
            proof {
                lemma_fold_prefix(pairs_of(__zs), idx_g, A::zero_spec(), linf_f::<A>());
                idx_g = idx_g + 1;
            }
//@at after_loop 0
        proof {
            let ps = pairs_of(__zs);
            assert(idx_g == self@.len());
            assert(ps.subrange(0, ps.len() as int) =~= ps);
            assert(visits_all(ps, self@, other@));
            if vstd::seq_lib::commutative_foldl(linf_f::<A>()) { vstd::seq_lib::lemma_fold_left_permutation(ps, zip_seq(self@, other@), linf_f::<A>(), A::zero_spec()); }
        }
//@end

//@extract file=src/deviation.rs impl=DeviationExt:ArrayBase fn=l2_dist id=l2_dist tags=C09,C17 body_tags=C09
//@sig
    fn l2_dist(&self, other: &ArrayN<A, D>) -> (r: Result<f64, MultiInputError>)
    where
        A: AddAssign + Clone + Signed + ToPrimitive,
//@spec
        requires arith_total::<A>(), lawful_clone::<A>(), to_f64_total::<A>(),
        ensures
            self@.len() == 0 ==> r matches Err(MultiInputError::EmptyInput), // [C09,C17]
            self@.len() > 0 && self.shape_spec() != other.shape_spec() ==> (r matches Err(MultiInputError::ShapeMismatch(sm)) && sm.first_shape@ == self.shape_spec() && sm.second_shape@ == other.shape_spec()), // [C09,C17] both shapes in the payload
            self@.len() > 0 && self.shape_spec() == other.shape_spec() ==> r is Ok, // [C17] Ok otherwise
            // the square root of the squared distance, converted to f64 first
            r matches Ok(x) ==> exists|ps: Seq<(A, A)>| #[trigger] visits_all(ps, self@, other@) && x == f64_sqrt(ps.fold_left(A::zero_spec(), sq_f::<A>()).to_f64_spec()->Some_0), // [C09]
//@end

//@extract file=src/deviation.rs impl=DeviationExt:ArrayBase fn=mean_abs_err id=mean_abs_err tags=C09,C17 body_tags=C09
//@sig
    fn mean_abs_err(&self, other: &ArrayN<A, D>) -> (r: Result<f64, MultiInputError>)
    where
        A: AddAssign + Clone + Signed + ToPrimitive,
//@spec
        requires arith_total::<A>(), lawful_clone::<A>(), to_f64_total::<A>(),
        ensures
            self@.len() == 0 ==> r matches Err(MultiInputError::EmptyInput), // [C09,C17]
            self@.len() > 0 && self.shape_spec() != other.shape_spec() ==> (r matches Err(MultiInputError::ShapeMismatch(sm)) && sm.first_shape@ == self.shape_spec() && sm.second_shape@ == other.shape_spec()), // [C09,C17] both shapes in the payload
            self@.len() > 0 && self.shape_spec() == other.shape_spec() ==> r is Ok, // [C17] Ok otherwise
            // the l1 distance, converted to f64, divided by the number of elements converted to f64
            r matches Ok(x) ==> exists|ps: Seq<(A, A)>| #[trigger] visits_all(ps, self@, other@) && x == f64_div(ps.fold_left(A::zero_spec(), l1_f::<A>()).to_f64_spec()->Some_0, usize_as_f64(self@.len() as usize)), // [C09]
//@replace_text
self.len() as f64
verif_usize_as_f64(self.len())
//@binop / 0 verif_f64_div
//@end

//@extract file=src/deviation.rs impl=DeviationExt:ArrayBase fn=mean_sq_err id=mean_sq_err tags=C09,C17 body_tags=C09
//@sig
    fn mean_sq_err(&self, other: &ArrayN<A, D>) -> (r: Result<f64, MultiInputError>)
    where
        A: AddAssign + Clone + Signed + ToPrimitive,
//@spec
        requires arith_total::<A>(), lawful_clone::<A>(), to_f64_total::<A>(),
        ensures
            self@.len() == 0 ==> r matches Err(MultiInputError::EmptyInput), // [C09,C17]
            self@.len() > 0 && self.shape_spec() != other.shape_spec() ==> (r matches Err(MultiInputError::ShapeMismatch(sm)) && sm.first_shape@ == self.shape_spec() && sm.second_shape@ == other.shape_spec()), // [C09,C17] both shapes in the payload
            self@.len() > 0 && self.shape_spec() == other.shape_spec() ==> r is Ok, // [C17] Ok otherwise
            r matches Ok(x) ==> exists|ps: Seq<(A, A)>| #[trigger] visits_all(ps, self@, other@) && x == f64_div(ps.fold_left(A::zero_spec(), sq_f::<A>()).to_f64_spec()->Some_0, usize_as_f64(self@.len() as usize)), // [C09]
//@replace_text
self.len() as f64
verif_usize_as_f64(self.len())
//@binop / 0 verif_f64_div
//@end

//@extract file=src/deviation.rs impl=DeviationExt:ArrayBase fn=root_mean_sq_err id=root_mean_sq_err tags=C09,C17 body_tags=C09
//@sig
    fn root_mean_sq_err(&self, other: &ArrayN<A, D>) -> (r: Result<f64, MultiInputError>)
    where
        A: AddAssign + Clone + Signed + ToPrimitive,
//@spec
        requires arith_total::<A>(), lawful_clone::<A>(), to_f64_total::<A>(),
        ensures
            self@.len() == 0 ==> r matches Err(MultiInputError::EmptyInput), // [C09,C17]
            self@.len() > 0 && self.shape_spec() != other.shape_spec() ==> (r matches Err(MultiInputError::ShapeMismatch(sm)) && sm.first_shape@ == self.shape_spec() && sm.second_shape@ == other.shape_spec()), // [C09,C17] both shapes in the payload
            self@.len() > 0 && self.shape_spec() == other.shape_spec() ==> r is Ok, // [C17] Ok otherwise
            r matches Ok(x) ==> exists|ps: Seq<(A, A)>| #[trigger] visits_all(ps, self@, other@) && x == f64_sqrt(f64_div(ps.fold_left(A::zero_spec(), sq_f::<A>()).to_f64_spec()->Some_0, usize_as_f64(self@.len() as usize))), // [C09]
//@end

//@extract file=src/deviation.rs impl=DeviationExt:ArrayBase fn=peak_signal_to_noise_ratio id=peak_signal_to_noise_ratio tags=C09,C17 body_tags=C09
//@sig
    fn peak_signal_to_noise_ratio(&self, other: &ArrayN<A, D>, maxv: A) -> (r: Result<f64, MultiInputError>)
    where
        A: AddAssign + Clone + Signed + ToPrimitive,
//@spec
        requires arith_total::<A>(), lawful_clone::<A>(), to_f64_total::<A>(),
        ensures
            self@.len() == 0 ==> r matches Err(MultiInputError::EmptyInput), // [C09,C17]
            self@.len() > 0 && self.shape_spec() != other.shape_spec() ==> (r matches Err(MultiInputError::ShapeMismatch(sm)) && sm.first_shape@ == self.shape_spec() && sm.second_shape@ == other.shape_spec()), // [C09,C17] both shapes in the payload
            self@.len() > 0 && self.shape_spec() == other.shape_spec() ==> r is Ok, // [C17] Ok otherwise
            r matches Ok(x) ==> exists|ps: Seq<(A, A)>| #[trigger] visits_all(ps, self@, other@) && x == f64_mul(10.0f64, f64_log10(f64_div(f64_mul(maxv.to_f64_spec()->Some_0, maxv.to_f64_spec()->Some_0), f64_div(ps.fold_left(A::zero_spec(), sq_f::<A>()).to_f64_spec()->Some_0, usize_as_f64(self@.len() as usize))))), // [C09]
//@binop * 0 verif_f64_mul
//@binop * 1 verif_f64_mul
//@binop / 0 verif_f64_div
//@end

//@extract file=src/deviation.rs impl=DeviationExt:ArrayBase fn=count_eq id=count_eq tags=C09,C17,C20 body_tags=C09 macro_into=verif_into_same
//@sig
    fn count_eq(&self, other: &ArrayN<A, D>) -> (r: Result<usize, MultiInputError>)
    where
        A: PartialEq,
//@spec
        requires A::obeys_eq_spec(),
        ensures
            self@.len() == 0 ==> r matches Err(MultiInputError::EmptyInput), // [C09,C17]
            self@.len() > 0 && self.shape_spec() != other.shape_spec() ==> (r matches Err(MultiInputError::ShapeMismatch(sm)) && sm.first_shape@ == self.shape_spec() && sm.second_shape@ == other.shape_spec()), // [C09,C17] both shapes in the payload
            self@.len() > 0 && self.shape_spec() == other.shape_spec() ==> r is Ok, // [C17] Ok otherwise
            self@.len() > 0 && self.shape_spec() == other.shape_spec() ==> (r matches Ok(c) && c == count_eq_spec(self@, other@) && c <= self@.len()), // [C09,C20] the number of index positions holding equal elements
//@at entry
        proof { assert(lawful_clone::<usize>()); }
//@at before_call verif_zip2 0
        proof { assert(self.shape_spec() =~= other.shape_spec()); }
        let ghost mut idx_g: int = 0;
//@loop 0
            invariant
                A::obeys_eq_spec(),
                it.seq() == __zs, __zs.len() == self@.len(), idx_g == it.index@,
                count as int == pairs_of(__zs).subrange(0, idx_g).fold_left(0int, eq_count_f::<A>()), // [C09]
                count <= idx_g <= self@.len(), self@.len() <= usize::MAX,
//@at loop_end 0
            proof {
                lemma_fold_prefix(pairs_of(__zs), idx_g, 0int, eq_count_f::<A>());
                lemma_count_bound::<A>(pairs_of(__zs).subrange(0, idx_g + 1));
                idx_g = idx_g + 1;
            }
//@at after_loop 0
        proof {
            let ps = pairs_of(__zs);
            let f = eq_count_f::<A>();
            assert(idx_g == self@.len());
            assert(ps.subrange(0, ps.len() as int) =~= ps);
            assert(vstd::seq_lib::commutative_foldl(f));
            vstd::seq_lib::lemma_fold_left_permutation(ps, zip_seq(self@, other@), f, 0int);
        }
//@end

//@extract file=src/deviation.rs impl=DeviationExt:ArrayBase fn=count_neq id=count_neq tags=C09,C17,C20 body_tags=C09 macro_into=verif_into_same
//@sig
    fn count_neq(&self, other: &ArrayN<A, D>) -> (r: Result<usize, MultiInputError>)
    where
        A: PartialEq,
//@spec
        requires A::obeys_eq_spec(),
        ensures
            self@.len() == 0 ==> r matches Err(MultiInputError::EmptyInput), // [C09,C17]
            self@.len() > 0 && self.shape_spec() != other.shape_spec() ==> (r matches Err(MultiInputError::ShapeMismatch(sm)) && sm.first_shape@ == self.shape_spec() && sm.second_shape@ == other.shape_spec()), // [C09,C17] both shapes in the payload
            self@.len() > 0 && self.shape_spec() == other.shape_spec() ==> r is Ok, // [C17] Ok otherwise
            self@.len() > 0 && self.shape_spec() == other.shape_spec() ==> (r matches Ok(c) && c + count_eq_spec(self@, other@) == self@.len()), // [C09] count_eq + count_neq is the number of elements
//@closure 0
|n_eq: usize| -> (r0: usize) requires n_eq <= self@.len() ensures r0 == self@.len() - n_eq
//@end
}

// ---- C20 as lemmas over the contracts proved above -----------------------------------------------------------------------
// Two arrays are logically equal when they have the same shape, the same elements in logical order and the same index
// patterns; everything else about them (strides, memory order, offset, ownership: what `as_slice_memory_order`,
// `is_standard_layout` and the visiting order of Zip / fold reveal) may differ.  Each lemma takes the postcondition the
// routine was verified against (`call_ensures` of the routine itself) for two such arrays and derives that the answers agree.
pub open spec fn same_logical<A, D: Dimension>(a: &ArrayN<A, D>, b: &ArrayN<A, D>) -> bool {
    a@ == b@ && a.shape_spec() == b.shape_spec()
}
pub open spec fn same_err(e1: MultiInputError, e2: MultiInputError) -> bool {
    match (e1, e2) {
        (MultiInputError::EmptyInput, MultiInputError::EmptyInput) => true,
        (MultiInputError::ShapeMismatch(s1), MultiInputError::ShapeMismatch(s2)) => s1.first_shape@ == s2.first_shape@ && s1.second_shape@ == s2.second_shape@,
        _ => false,
    }
}
pub open spec fn same_answer<T>(r1: Result<T, MultiInputError>, r2: Result<T, MultiInputError>) -> bool {
    match (r1, r2) { (Ok(v1), Ok(v2)) => v1 == v2, (Err(e1), Err(e2)) => same_err(e1, e2), _ => false }
}
proof fn lemma_layout_count_eq<A: PartialEq, D: Dimension>(a1: ArrayN<A, D>, a2: ArrayN<A, D>, b1: ArrayN<A, D>, b2: ArrayN<A, D>, r1: Result<usize, MultiInputError>, r2: Result<usize, MultiInputError>)
    requires
        A::obeys_eq_spec(), same_logical(&a1, &a2), same_logical(&b1, &b2),
        call_ensures(ArrayN::<A, D>::count_eq, (&a1, &b1), r1), call_ensures(ArrayN::<A, D>::count_eq, (&a2, &b2), r2),
    ensures same_answer(r1, r2), // [C20]
{
}
proof fn lemma_layout_count_neq<A: PartialEq, D: Dimension>(a1: ArrayN<A, D>, a2: ArrayN<A, D>, b1: ArrayN<A, D>, b2: ArrayN<A, D>, r1: Result<usize, MultiInputError>, r2: Result<usize, MultiInputError>)
    requires
        same_logical(&a1, &a2), same_logical(&b1, &b2), A::obeys_eq_spec(),
        call_ensures(ArrayN::<A, D>::count_neq, (&a1, &b1), r1), call_ensures(ArrayN::<A, D>::count_neq, (&a2, &b2), r2),
    ensures same_answer(r1, r2), // [C20]
{
}
proof fn lemma_layout_sq_l2_dist<A: AddAssign + Clone + Signed, D: Dimension>(a1: ArrayN<A, D>, a2: ArrayN<A, D>, b1: ArrayN<A, D>, b2: ArrayN<A, D>, r1: Result<A, MultiInputError>, r2: Result<A, MultiInputError>)
    requires
        same_logical(&a1, &a2), same_logical(&b1, &b2), vstd::seq_lib::commutative_foldl(sq_f::<A>()), // the order of summation is immaterial for the element type (integers; not floats)
        call_ensures(ArrayN::<A, D>::sq_l2_dist, (&a1, &b1), r1), call_ensures(ArrayN::<A, D>::sq_l2_dist, (&a2, &b2), r2),
    ensures same_answer(r1, r2), // [C20]
{
}
proof fn lemma_layout_l1_dist<A: AddAssign + Clone + Signed, D: Dimension>(a1: ArrayN<A, D>, a2: ArrayN<A, D>, b1: ArrayN<A, D>, b2: ArrayN<A, D>, r1: Result<A, MultiInputError>, r2: Result<A, MultiInputError>)
    requires
        same_logical(&a1, &a2), same_logical(&b1, &b2), vstd::seq_lib::commutative_foldl(l1_f::<A>()),
        call_ensures(ArrayN::<A, D>::l1_dist, (&a1, &b1), r1), call_ensures(ArrayN::<A, D>::l1_dist, (&a2, &b2), r2),
    ensures same_answer(r1, r2), // [C20]
{
}
proof fn lemma_layout_linf_dist<A: Clone + PartialOrd + Signed, D: Dimension>(a1: ArrayN<A, D>, a2: ArrayN<A, D>, b1: ArrayN<A, D>, b2: ArrayN<A, D>, r1: Result<A, MultiInputError>, r2: Result<A, MultiInputError>)
    requires
        same_logical(&a1, &a2), same_logical(&b1, &b2), vstd::seq_lib::commutative_foldl(linf_f::<A>()),
        call_ensures(ArrayN::<A, D>::linf_dist, (&a1, &b1), r1), call_ensures(ArrayN::<A, D>::linf_dist, (&a2, &b2), r2),
    ensures same_answer(r1, r2), // [C20]
{
}
proof fn lemma_layout_l2_dist<A: AddAssign + Clone + Signed + ToPrimitive, D: Dimension>(a1: ArrayN<A, D>, a2: ArrayN<A, D>, b1: ArrayN<A, D>, b2: ArrayN<A, D>, r1: Result<f64, MultiInputError>, r2: Result<f64, MultiInputError>)
    requires
        same_logical(&a1, &a2), same_logical(&b1, &b2), vstd::seq_lib::commutative_foldl(sq_f::<A>()),
        call_ensures(ArrayN::<A, D>::l2_dist, (&a1, &b1), r1), call_ensures(ArrayN::<A, D>::l2_dist, (&a2, &b2), r2),
    ensures same_answer(r1, r2), // [C20]
{
    if r1 is Ok && r2 is Ok {
        let p1 = choose|ps: Seq<(A, A)>| #[trigger] visits_all(ps, a1@, b1@) && r1->Ok_0 == f64_sqrt(ps.fold_left(A::zero_spec(), sq_f::<A>()).to_f64_spec()->Some_0);
        let p2 = choose|ps: Seq<(A, A)>| #[trigger] visits_all(ps, a2@, b2@) && r2->Ok_0 == f64_sqrt(ps.fold_left(A::zero_spec(), sq_f::<A>()).to_f64_spec()->Some_0);
        vstd::seq_lib::lemma_fold_left_permutation(p1, zip_seq(a1@, b1@), sq_f::<A>(), A::zero_spec());
        vstd::seq_lib::lemma_fold_left_permutation(p2, zip_seq(a1@, b1@), sq_f::<A>(), A::zero_spec());
    }
}
proof fn lemma_layout_mean_abs_err<A: AddAssign + Clone + Signed + ToPrimitive, D: Dimension>(a1: ArrayN<A, D>, a2: ArrayN<A, D>, b1: ArrayN<A, D>, b2: ArrayN<A, D>, r1: Result<f64, MultiInputError>, r2: Result<f64, MultiInputError>)
    requires
        same_logical(&a1, &a2), same_logical(&b1, &b2), vstd::seq_lib::commutative_foldl(l1_f::<A>()),
        call_ensures(ArrayN::<A, D>::mean_abs_err, (&a1, &b1), r1), call_ensures(ArrayN::<A, D>::mean_abs_err, (&a2, &b2), r2),
    ensures same_answer(r1, r2), // [C20]
{
    if r1 is Ok && r2 is Ok {
        let p1 = choose|ps: Seq<(A, A)>| #[trigger] visits_all(ps, a1@, b1@) && r1->Ok_0 == f64_div(ps.fold_left(A::zero_spec(), l1_f::<A>()).to_f64_spec()->Some_0, usize_as_f64(a1@.len() as usize));
        let p2 = choose|ps: Seq<(A, A)>| #[trigger] visits_all(ps, a2@, b2@) && r2->Ok_0 == f64_div(ps.fold_left(A::zero_spec(), l1_f::<A>()).to_f64_spec()->Some_0, usize_as_f64(a2@.len() as usize));
        vstd::seq_lib::lemma_fold_left_permutation(p1, zip_seq(a1@, b1@), l1_f::<A>(), A::zero_spec());
        vstd::seq_lib::lemma_fold_left_permutation(p2, zip_seq(a1@, b1@), l1_f::<A>(), A::zero_spec());
    }
}
proof fn lemma_layout_mean_sq_err<A: AddAssign + Clone + Signed + ToPrimitive, D: Dimension>(a1: ArrayN<A, D>, a2: ArrayN<A, D>, b1: ArrayN<A, D>, b2: ArrayN<A, D>, r1: Result<f64, MultiInputError>, r2: Result<f64, MultiInputError>)
    requires
        same_logical(&a1, &a2), same_logical(&b1, &b2), vstd::seq_lib::commutative_foldl(sq_f::<A>()),
        call_ensures(ArrayN::<A, D>::mean_sq_err, (&a1, &b1), r1), call_ensures(ArrayN::<A, D>::mean_sq_err, (&a2, &b2), r2),
    ensures same_answer(r1, r2), // [C20]
{
    if r1 is Ok && r2 is Ok {
        let p1 = choose|ps: Seq<(A, A)>| #[trigger] visits_all(ps, a1@, b1@) && r1->Ok_0 == f64_div(ps.fold_left(A::zero_spec(), sq_f::<A>()).to_f64_spec()->Some_0, usize_as_f64(a1@.len() as usize));
        let p2 = choose|ps: Seq<(A, A)>| #[trigger] visits_all(ps, a2@, b2@) && r2->Ok_0 == f64_div(ps.fold_left(A::zero_spec(), sq_f::<A>()).to_f64_spec()->Some_0, usize_as_f64(a2@.len() as usize));
        vstd::seq_lib::lemma_fold_left_permutation(p1, zip_seq(a1@, b1@), sq_f::<A>(), A::zero_spec());
        vstd::seq_lib::lemma_fold_left_permutation(p2, zip_seq(a1@, b1@), sq_f::<A>(), A::zero_spec());
    }
}
proof fn lemma_layout_root_mean_sq_err<A: AddAssign + Clone + Signed + ToPrimitive, D: Dimension>(a1: ArrayN<A, D>, a2: ArrayN<A, D>, b1: ArrayN<A, D>, b2: ArrayN<A, D>, r1: Result<f64, MultiInputError>, r2: Result<f64, MultiInputError>)
    requires
        same_logical(&a1, &a2), same_logical(&b1, &b2), vstd::seq_lib::commutative_foldl(sq_f::<A>()),
        call_ensures(ArrayN::<A, D>::root_mean_sq_err, (&a1, &b1), r1), call_ensures(ArrayN::<A, D>::root_mean_sq_err, (&a2, &b2), r2),
    ensures same_answer(r1, r2), // [C20]
{
    if r1 is Ok && r2 is Ok {
        let p1 = choose|ps: Seq<(A, A)>| #[trigger] visits_all(ps, a1@, b1@) && r1->Ok_0 == f64_sqrt(f64_div(ps.fold_left(A::zero_spec(), sq_f::<A>()).to_f64_spec()->Some_0, usize_as_f64(a1@.len() as usize)));
        let p2 = choose|ps: Seq<(A, A)>| #[trigger] visits_all(ps, a2@, b2@) && r2->Ok_0 == f64_sqrt(f64_div(ps.fold_left(A::zero_spec(), sq_f::<A>()).to_f64_spec()->Some_0, usize_as_f64(a2@.len() as usize)));
        vstd::seq_lib::lemma_fold_left_permutation(p1, zip_seq(a1@, b1@), sq_f::<A>(), A::zero_spec());
        vstd::seq_lib::lemma_fold_left_permutation(p2, zip_seq(a1@, b1@), sq_f::<A>(), A::zero_spec());
    }
}
proof fn lemma_layout_peak_signal_to_noise_ratio<A: AddAssign + Clone + Signed + ToPrimitive, D: Dimension>(a1: ArrayN<A, D>, a2: ArrayN<A, D>, b1: ArrayN<A, D>, b2: ArrayN<A, D>, maxv: A, r1: Result<f64, MultiInputError>, r2: Result<f64, MultiInputError>)
    requires
        same_logical(&a1, &a2), same_logical(&b1, &b2), vstd::seq_lib::commutative_foldl(sq_f::<A>()),
        call_ensures(ArrayN::<A, D>::peak_signal_to_noise_ratio, (&a1, &b1, maxv), r1), call_ensures(ArrayN::<A, D>::peak_signal_to_noise_ratio, (&a2, &b2, maxv), r2),
    ensures same_answer(r1, r2), // [C20]
{
    if r1 is Ok && r2 is Ok {
        let mv = maxv.to_f64_spec()->Some_0;
        let p1 = choose|ps: Seq<(A, A)>| #[trigger] visits_all(ps, a1@, b1@) && r1->Ok_0 == f64_mul(10.0f64, f64_log10(f64_div(f64_mul(mv, mv), f64_div(ps.fold_left(A::zero_spec(), sq_f::<A>()).to_f64_spec()->Some_0, usize_as_f64(a1@.len() as usize)))));
        let p2 = choose|ps: Seq<(A, A)>| #[trigger] visits_all(ps, a2@, b2@) && r2->Ok_0 == f64_mul(10.0f64, f64_log10(f64_div(f64_mul(mv, mv), f64_div(ps.fold_left(A::zero_spec(), sq_f::<A>()).to_f64_spec()->Some_0, usize_as_f64(a2@.len() as usize)))));
        vstd::seq_lib::lemma_fold_left_permutation(p1, zip_seq(a1@, b1@), sq_f::<A>(), A::zero_spec());
        vstd::seq_lib::lemma_fold_left_permutation(p2, zip_seq(a1@, b1@), sq_f::<A>(), A::zero_spec());
    }
}

} // verus!
fn main() {}
