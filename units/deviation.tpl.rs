// unit `deviation`: src/deviation.rs — count_eq, sq_l2_dist, l1_dist, linf_dist (C09, C17, C20)
#![allow(unused_imports, unused_variables, unused_mut, dead_code, unused_braces)]
use vstd::prelude::*;
use core::cmp::Ordering;
use std::cmp;
use vstd::std_specs::cmp::{OrdSpec, PartialOrdSpec, PartialEqSpec};
verus! {
//@include ../shim/order.rs
//@include ../shim/ndarr.rs
//@include ../shim/zip.rs

// number of index positions holding equal elements, as a left fold over the index-aligned pairs
pub open spec fn eq_count_f<A: PartialEq>() -> spec_fn(int, (A, A)) -> int { |c: int, p: (A, A)| if p.0.eq_spec(&p.1) { c + 1 } else { c } }
pub open spec fn count_eq_spec<A: PartialEq>(a: Seq<A>, b: Seq<A>) -> int { zip_seq(a, b).fold_left(0int, eq_count_f::<A>()) }

pub proof fn lemma_fold_prefix<P, B>(s: Seq<P>, k: int, v: B, f: spec_fn(B, P) -> B)
    requires 0 <= k < s.len()
    ensures s.subrange(0, k + 1).fold_left(v, f) == f(s.subrange(0, k).fold_left(v, f), s[k])
{
    let t = s.subrange(0, k + 1);
    assert(t.drop_last() =~= s.subrange(0, k));
    assert(t.last() == s[k]);
}

pub proof fn lemma_count_bound<A: PartialEq>(s: Seq<(A, A)>)
    ensures 0 <= s.fold_left(0int, eq_count_f::<A>()) <= s.len()
    decreases s.len()
{
    if s.len() > 0 { lemma_count_bound::<A>(s.drop_last()); }
}

impl<A, D: Dimension> ArrayN<A, D> {
//@extract file=src/deviation.rs impl=DeviationExt:ArrayBase fn=count_eq id=count_eq tags=C09,C17,C20 body_tags=C09
//@sig
    fn count_eq(&self, other: &ArrayN<A, D>) -> (r: Result<usize, MultiInputError>)
    where
        A: PartialEq,
//@spec
        requires A::obeys_eq_spec(),
        ensures
            self@.len() == 0 ==> r matches Err(MultiInputError::EmptyInput), // [C09,C17]
            self@.len() > 0 && self.shape_spec() != other.shape_spec() ==> r is Err, // [C09,C17] (the payload goes through `.into()`, which Verus does not model for the reflexive From impl: checked by enum:errors)
            self@.len() > 0 && self.shape_spec() == other.shape_spec() ==> (r matches Ok(c) && c == count_eq_spec(self@, other@) && c <= self@.len()), // [C09,C20] the number of index positions holding equal elements
//@at entry
        proof { assert(lawful_clone::<usize>()); }
//@at before_call verif_zip2 0
        proof { assert(self.shape_spec() =~= other.shape_spec()); }
        let ghost mut idx_g: int = 0;
//@loop 0
            invariant
                A::obeys_eq_spec(),
                it.seq() == __zs, __zs.len() == self@.len(), idx_g == it.index@,
                count as int == pairs_of(__zs).subrange(0, idx_g).fold_left(0int, eq_count_f::<A>()), // [C09]
                count <= idx_g <= self@.len(), self@.len() <= usize::MAX,
//@at loop_end 0
            proof {
                lemma_fold_prefix(pairs_of(__zs), idx_g, 0int, eq_count_f::<A>());
                lemma_count_bound::<A>(pairs_of(__zs).subrange(0, idx_g + 1));
                idx_g = idx_g + 1;
            }
//@at after_loop 0
        proof {
            let ps = pairs_of(__zs);
            let f = eq_count_f::<A>();
            assert(idx_g == self@.len());
            assert(ps.subrange(0, ps.len() as int) =~= ps);
            assert(vstd::seq_lib::commutative_foldl(f));
            vstd::seq_lib::lemma_fold_left_permutation(ps, zip_seq(self@, other@), f, 0int);
        }
//@end

//@extract file=src/deviation.rs impl=DeviationExt:ArrayBase fn=count_neq id=count_neq tags=C09,C17,C20 body_tags=C09
//@sig
    fn count_neq(&self, other: &ArrayN<A, D>) -> (r: Result<usize, MultiInputError>)
    where
        A: PartialEq,
//@spec
        requires A::obeys_eq_spec(),
        ensures
            self@.len() == 0 ==> r matches Err(MultiInputError::EmptyInput), // [C09,C17]
            self@.len() > 0 && self.shape_spec() != other.shape_spec() ==> r is Err, // [C09,C17]
            self@.len() > 0 && self.shape_spec() == other.shape_spec() ==> (r matches Ok(c) && c + count_eq_spec(self@, other@) == self@.len()), // [C09] count_eq + count_neq is the number of elements
//@closure 0
|n_eq: usize| -> (r0: usize) requires n_eq <= self@.len() ensures r0 == self@.len() - n_eq
//@end
}

} // verus!
fn main() {}
