// unit `sort`: src/sort.rs — partition_mut, get_from_sorted_mut (C15, C02, C03, C16, C18)
#![feature(allocator_api)]
#![allow(unused_imports, unused_variables, unused_mut, dead_code)]
use vstd::prelude::*;
use core::cmp::Ordering;
use vstd::std_specs::cmp::{OrdSpec, PartialOrdSpec, PartialEqSpec};
use std::alloc::Allocator;
verus! {
//@include ../shim/order.rs
//@include ../shim/lane.rs
//@include ../shim/indexmap.rs

impl<A> Lane<A> {
//@extract file=src/sort.rs impl=Sort1dExt fn=partition_mut id=partition_mut tags=C15,C02,C03,C16,C18 body_tags=C15,C16
//@sig
    fn partition_mut(&mut self, pivot_index: usize) -> (r: usize)
    where
        A: Ord + Clone,
//@spec
        requires
            lawful_ord::<A>(), lawful_clone::<A>(),
//@ifmode N
            pivot_index < old(self)@.len(),
//@endif
        ensures
//@ifmode P
            pivot_index < old(self)@.len(), // [C16] returns only for an in-range pivot position
//@endif
            final(self)@.len() == old(self)@.len(), // [C03,C15,C02]
            final(self)@.to_multiset() == old(self)@.to_multiset(), // [C03]
            r < final(self)@.len(), // [C15,C02,C16]
            final(self)@[r as int] == old(self)@[pivot_index as int], // [C15,C02]
            forall|k: int| 0 <= k < r ==> lt(#[trigger] final(self)@[k], old(self)@[pivot_index as int]), // [C15,C02]
            forall|k: int| r < k < final(self)@.len() ==> !lt(#[trigger] final(self)@[k], old(self)@[pivot_index as int]), // [C15,C02]
//@at entry
        proof { reveal(lawful_ord); }
//@loop 0
            invariant
                ord_laws::<A>(),
                n == self@.len(), n >= 1,
                self@.to_multiset() == old(self)@.to_multiset(), // [C03]
                self@[0] == pivot_value, pivot_value == old(self)@[pivot_index as int], // [C15,C02]
                1 <= i <= j + 1, j <= n - 1, // [C15,C02,C16]
                n >= 2 ==> j >= 1, // [C15,C02,C16]
                forall|k: int| 1 <= k < i ==> lt(#[trigger] self@[k], pivot_value), // [C15,C02]
                forall|k: int| j < k < n ==> !lt(#[trigger] self@[k], pivot_value), // [C15,C02]
            ensures
                i >= 1, i <= n, // [C15,C02,C16]
                forall|k: int| i <= k < n ==> !lt(#[trigger] self@[k], pivot_value), // [C15,C02]
            decreases j + 1 - i
//@loop 1
                invariant
                    ord_laws::<A>(),
                    n == self@.len(),
                    1 <= i <= j + 1, j <= n - 1, // [C15,C02,C16]
                    forall|k: int| 1 <= k < i ==> lt(#[trigger] self@[k], pivot_value), // [C15,C02]
                ensures
                    i == j + 1 || (i <= j && !lt(self@[i as int], pivot_value)), // [C15,C02]
                decreases j + 1 - i
//@loop 2
                invariant
                    ord_laws::<A>(),
                    n == self@.len(), n >= 1,
                    1 <= i <= j + 1, j <= n - 1, // [C15,C02,C16]
                    n >= 2 ==> j >= 1, // [C15,C02,C16]
                    self@[0] == pivot_value,
                    forall|k: int| 1 <= k < i ==> lt(#[trigger] self@[k], pivot_value), // [C15,C02]
                    forall|k: int| j < k < n ==> !lt(#[trigger] self@[k], pivot_value), // [C15,C02]
                    i <= j ==> !lt(self@[i as int], pivot_value), // [C15,C02]
                ensures
                    i <= j ==> lt(self@[j as int], pivot_value) || (j == 1 && i == 1), // [C15,C02]
                decreases j
//@end
//@extract file=src/sort.rs impl=Sort1dExt fn=get_from_sorted_mut id=get_from_sorted_mut tags=C02,C03,C16,C18 body_tags=C16
//@sig
    fn get_from_sorted_mut(&mut self, i: usize) -> (r: A)
    where
        A: Ord + Clone,
//@ifmode P
//@spec tags=C16
        requires lawful_ord::<A>(), lawful_clone::<A>(), i >= old(self)@.len(),
        ensures false, // [C16] an out-of-range position never returns normally (and, by `decreases`, never diverges)
        decreases old(self)@.len()
//@endif
//@ifmode N
//@spec
        requires lawful_ord::<A>(), lawful_clone::<A>(), i < old(self)@.len(),
        ensures
            final(self)@.len() == old(self)@.len(), // [C03,C02]
            perm(final(self)@, old(self)@), // [C03]
            selected_at(final(self)@, i as int, r), // [C02,C18] r is at position i, everything before is <= r, everything from i on is >= r
        decreases old(self)@.len()
//@at after_let partition_index tags=C02
            let ghost mid = self@;
//@at after_call clone 0 tags=C02
            proof { lemma_select_pivot(self@, 0); }
//@at after_call clone 1 tags=C02
                proof { lemma_select_pivot(self@, partition_index as int); }
//@at after_call get_from_sorted_mut 0 tags=C02,C03
                proof {
                    let p = partition_index as int;
                    assert(self@.subrange(p + 1, n as int) =~= mid.subrange(p + 1, n as int));
                    lemma_repartition(mid, self@, p);
                    lemma_select_left(self@, p, i as int, __r);
                }
//@at after_call get_from_sorted_mut 1 tags=C02,C03
                proof {
                    let p = partition_index as int;
                    assert(self@.subrange(0, p) =~= mid.subrange(0, p));
                    lemma_repartition(mid, self@, p);
                    lemma_select_right(self@, p, i as int, __r);
                }
//@endif
//@end

//@extract file=src/sort.rs impl=Sort1dExt fn=get_many_from_sorted_mut id=get_many_from_sorted_mut tags=C02,C03,C16,C18 body_tags=C16
//@sig
    fn get_many_from_sorted_mut(&mut self, indexes: &Lane<usize>) -> (r: IndexMap<usize, A>)
    where
        A: Ord + Clone,
//@ifmode N
//@spec
        requires
            lawful_ord::<A>(), lawful_clone::<A>(),
            forall|k: int| 0 <= k < indexes@.len() ==> indexes@[k] < old(self)@.len(),
        ensures
            final(self)@.len() == old(self)@.len(), // [C03]
            perm(final(self)@, old(self)@), // [C03]
            // one entry per distinct requested index, iterated in increasing index order
            strictly_increasing(keys_of(r@)), // [C02]
            forall|x: usize| indexes@.contains(x) <==> #[trigger] keys_of(r@).contains(x), // [C02]
            // each entry's value is what a full sort would put at that position
            forall|k: int| 0 <= k < r@.len() ==> selected_at(final(self)@, (#[trigger] r@[k]).0 as int, r@[k].1), // [C02,C18]
//@at after_call sort_unstable 0 tags=C02,C16
        let ghost v1 = deduped_indexes@;
        proof {
            reveal(lawful_ord);
            lemma_lawful_ord_usize();
            assert(sorted_usize(v1));
            lemma_structural_eq_usize();
            lemma_dedup_sorted(v1);
        }
//@at after_call dedup 0 tags=C02,C16
        let ghost v2 = deduped_indexes@;
        proof {
            assert forall|x: usize| indexes@.contains(x) <==> v2.contains(x) by { lemma_perm_contains_iff(indexes@, v1, x); }
            assert forall|k: int| 0 <= k < v2.len() implies #[trigger] v2[k] < self@.len() by {
                assert(v2.contains(v2[k]));
                let j = choose|j: int| 0 <= j < indexes@.len() && indexes@[j] == v2[k];
            }
        }
//@at after_call get_many_from_sorted_mut_unchecked 0 tags=C02
        proof {
            assert(keys_of(__r@) =~= v2);
        }
//@endif
//@ifmode P
//@spec tags=C16
        requires
            lawful_ord::<A>(), lawful_clone::<A>(),
            exists|k: int| 0 <= k < indexes@.len() && indexes@[k] >= old(self)@.len(),
        ensures false, // [C16]
//@at after_call sort_unstable 0 tags=C16
        let ghost v1 = deduped_indexes@;
        proof {
            reveal(lawful_ord);
            lemma_lawful_ord_usize();
            assert(sorted_usize(v1));
            lemma_structural_eq_usize();
            lemma_dedup_sorted(v1);
            let k = choose|k: int| 0 <= k < indexes@.len() && indexes@[k] >= self@.len();
            lemma_perm_contains_iff(indexes@, v1, indexes@[k]);
            assert(indexes@.contains(indexes@[k]));
            let j = choose|j: int| 0 <= j < v1.len() && v1[j] == indexes@[k];
            assert(v1[j] <= v1[v1.len() - 1]);
        }
//@endif
//@end
}

//@include ../shim/slices.rs
//@include ../shim/select_lemmas.rs

//@ifmode N
//@extract file=src/sort.rs fn=_get_many_from_sorted_mut_unchecked id=_get_many_from_sorted_mut_unchecked tags=C02,C03,C16,C18 body_tags=C16
//@sig
fn _get_many_from_sorted_mut_unchecked<A>(
    mut array: &mut Lane<A>,
    indexes: &mut [usize],
    values: &mut [A],
) where
    A: Ord + Clone,
//@spec
    requires
        lawful_ord::<A>(), lawful_clone::<A>(),
        old(values)@.len() == old(indexes)@.len(),
        strictly_increasing(old(indexes)@),
        forall|k: int| 0 <= k < old(indexes)@.len() ==> old(indexes)@[k] < old(array)@.len(),
    ensures
        final(array)@.len() == old(array)@.len(), // [C03,C02]
        perm(final(array)@, old(array)@), // [C03]
        final(values)@.len() == old(values)@.len(), // [C02]
        forall|k: int| 0 <= k < old(indexes)@.len() ==> selected_at(final(array)@, old(indexes)@[k] as int, #[trigger] final(values)@[k]), // [C02,C18]
    decreases old(array)@.len()
//@at entry tags=C02,C03,C16
    let ghost a0 = array@;
    let ghost ix0 = indexes@;
    proof {
        if ix0.len() > 0 {
            lemma_si_lower(ix0, ix0.len() - 1);
        }
    }
//@at after_call clone 0 tags=C02
        proof { lemma_select_pivot(array@, 0); }
//@at after_let array_partition_index tags=C02,C03
    let ghost mid = array@;
    let ghost p = array_partition_index as int;
    proof { lemma_si_sorted(ix0); }
//@at after_let index_split tags=C02,C16
    proof {
        assert(index_split <= ix0.len());
        assert forall|k: int| 0 <= k < index_split implies #[trigger] ix0[k] < p by {
            if found_exact { lemma_si_pair(ix0, k, index_split as int); } else { assert(lt(ix0[k], array_partition_index)); }
        }
        assert(found_exact ==> index_split < ix0.len() && ix0[index_split as int] == p);
        assert forall|k: int| index_split <= k < ix0.len() && !(found_exact && k == index_split) implies #[trigger] ix0[k] > p by {
            if found_exact { lemma_si_pair(ix0, index_split as int, k); } else { assert(lt(array_partition_index, ix0[k])); }
        }
    }
//@at after_let bigger_values tags=C02,C16
    let ghost off: int = if found_exact { index_split as int + 1 } else { index_split as int };
    proof {
        assert(smaller_indexes@ =~= ix0.subrange(0, index_split as int));
        assert(bigger_indexes@ =~= ix0.subrange(off, ix0.len() as int));
        assert(bigger_values@.len() == bigger_indexes@.len());
        lemma_si_sub(ix0, 0, index_split as int);
        lemma_si_sub(ix0, off, ix0.len() as int);
    }
    let ghost bi_unshifted = bigger_indexes@;
//@at after_call _get_many_from_sorted_mut_unchecked 0 tags=C02,C03
    let ghost mid2 = array@;
    let ghost sv = smaller_values@;
    proof {
        assert(mid2.subrange(0, p) =~= array@.subrange(0, p));
        assert(forall|k: int| p <= k < mid.len() ==> mid2[k] == mid[k]);
    }
//@at after_call verif_sub_assign_all 0 tags=C02,C16
    let ghost bi = bigger_indexes@;
    proof {
        lemma_si_shift(bi_unshifted, bi, p + 1);
        assert(forall|k: int| 0 <= k < bi.len() ==> #[trigger] bi[k] == ix0[k + off] - (p + 1));
    }
//@at after_call _get_many_from_sorted_mut_unchecked 1 tags=C02,C03
    proof {
        let fin = array@;
        let n = mid.len() as int;
        assert(fin.subrange(0, p) =~= mid2.subrange(0, p));
        assert(mid2.subrange(p + 1, n) =~= mid.subrange(p + 1, n));
        assert(fin[p] == mid[p]);
        lemma_repartition(mid, fin, p);
        assert(perm(fin, a0));
        assert forall|k: int| 0 <= k < ix0.len() implies selected_at(fin, ix0[k] as int, #[trigger] values@[k]) by {
            if k < index_split {
                assert(values@[k] == sv[k]);
                assert(selected_at(fin.subrange(0, p), ix0[k] as int, sv[k]));
                lemma_select_left(fin, p, ix0[k] as int, sv[k]);
            } else if found_exact && k == index_split {
                lemma_select_pivot(fin, p);
            } else {
                assert(values@[k] == bigger_values@[k - off]);
                assert(bi[k - off] == ix0[k] - (p + 1));
                lemma_select_right(fin, p, ix0[k] as int, values@[k]);
            }
        }
    }
//@end
//@endif

//@ifmode N
//@extract file=src/sort.rs fn=get_many_from_sorted_mut_unchecked id=get_many_from_sorted_mut_unchecked tags=C02,C03,C18 body_tags=C16
//@sig
pub fn get_many_from_sorted_mut_unchecked<A>(
    array: &mut Lane<A>,
    indexes: &[usize],
) -> (r: IndexMap<usize, A>)
where
    A: Ord + Clone,
//@spec
    requires
        lawful_ord::<A>(), lawful_clone::<A>(),
        strictly_increasing(indexes@),
        forall|k: int| 0 <= k < indexes@.len() ==> indexes@[k] < old(array)@.len(),
    ensures
        final(array)@.len() == old(array)@.len(), // [C03]
        perm(final(array)@, old(array)@), // [C03]
        r@.len() == indexes@.len(), // [C02]
        forall|k: int| 0 <= k < indexes@.len() ==> (#[trigger] r@[k]).0 == indexes@[k]
            && selected_at(final(array)@, indexes@[k] as int, r@[k].1), // [C02,C18]
//@at entry tags=C02,C16
    proof {
        lemma_lawful_clone_usize();
        if indexes@.len() > 0 { assert(indexes@[0] < array@.len()); }
    }
//@end
//@endif
//@ifmode P
#[verifier::external_body]
pub fn get_many_from_sorted_mut_unchecked<A>(array: &mut Lane<A>, indexes: &[usize]) -> (r: IndexMap<usize, A>)
where A: Ord + Clone
{ unimplemented!() }
//@endif

} // verus!
fn main() {}
