// unit `sort`: src/sort.rs — partition_mut, get_from_sorted_mut (C15, C02, C03, C16, C18)
#![allow(unused_imports, unused_variables, unused_mut, dead_code)]
use vstd::prelude::*;
use core::cmp::Ordering;
use vstd::std_specs::cmp::{OrdSpec, PartialOrdSpec};
verus! {
//@include ../shim/order.rs
//@include ../shim/lane.rs

impl<A> Lane<A> {
//@extract file=src/sort.rs impl=Sort1dExt fn=partition_mut id=partition_mut tags=C15,C02,C03,C16,C18 body_tags=C15,C16
//@sig
    fn partition_mut(&mut self, pivot_index: usize) -> (r: usize)
    where
        A: Ord + Clone,
//@spec
        requires
            lawful_ord::<A>(), lawful_clone::<A>(),
//@ifmode N
            pivot_index < old(self)@.len(),
//@endif
        ensures
//@ifmode P
            pivot_index < old(self)@.len(), // [C16] returns only for an in-range pivot position
//@endif
            final(self)@.len() == old(self)@.len(), // [C03,C15,C02]
            final(self)@.to_multiset() == old(self)@.to_multiset(), // [C03]
            r < final(self)@.len(), // [C15,C02,C16]
            final(self)@[r as int] == old(self)@[pivot_index as int], // [C15,C02]
            forall|k: int| 0 <= k < r ==> lt(#[trigger] final(self)@[k], old(self)@[pivot_index as int]), // [C15,C02]
            forall|k: int| r < k < final(self)@.len() ==> !lt(#[trigger] final(self)@[k], old(self)@[pivot_index as int]), // [C15,C02]
//@loop 0
            invariant
                lawful_ord::<A>(),
                n == self@.len(), n >= 1,
                self@.to_multiset() == old(self)@.to_multiset(), // [C03]
                self@[0] == pivot_value, pivot_value == old(self)@[pivot_index as int], // [C15,C02]
                1 <= i <= j + 1, j <= n - 1, // [C15,C02,C16]
                n >= 2 ==> j >= 1, // [C15,C02,C16]
                forall|k: int| 1 <= k < i ==> lt(#[trigger] self@[k], pivot_value), // [C15,C02]
                forall|k: int| j < k < n ==> !lt(#[trigger] self@[k], pivot_value), // [C15,C02]
            ensures
                i >= 1, i <= n, // [C15,C02,C16]
                forall|k: int| i <= k < n ==> !lt(#[trigger] self@[k], pivot_value), // [C15,C02]
            decreases j + 1 - i
//@loop 1
                invariant
                    lawful_ord::<A>(),
                    n == self@.len(),
                    1 <= i <= j + 1, j <= n - 1, // [C15,C02,C16]
                    forall|k: int| 1 <= k < i ==> lt(#[trigger] self@[k], pivot_value), // [C15,C02]
                ensures
                    i == j + 1 || (i <= j && !lt(self@[i as int], pivot_value)), // [C15,C02]
                decreases j + 1 - i
//@loop 2
                invariant
                    lawful_ord::<A>(),
                    n == self@.len(), n >= 1,
                    1 <= i <= j + 1, j <= n - 1, // [C15,C02,C16]
                    n >= 2 ==> j >= 1, // [C15,C02,C16]
                    self@[0] == pivot_value,
                    forall|k: int| 1 <= k < i ==> lt(#[trigger] self@[k], pivot_value), // [C15,C02]
                    forall|k: int| j < k < n ==> !lt(#[trigger] self@[k], pivot_value), // [C15,C02]
                    i <= j ==> !lt(self@[i as int], pivot_value), // [C15,C02]
                ensures
                    i <= j ==> lt(self@[j as int], pivot_value) || (j == 1 && i == 1), // [C15,C02]
                decreases j
//@end
//@extract file=src/sort.rs impl=Sort1dExt fn=get_from_sorted_mut id=get_from_sorted_mut tags=C02,C03,C16,C18 body_tags=C16
//@sig
    fn get_from_sorted_mut(&mut self, i: usize) -> (r: A)
    where
        A: Ord + Clone,
//@ifmode P
//@spec tags=C16
        requires lawful_ord::<A>(), lawful_clone::<A>(), i >= old(self)@.len(),
        ensures false, // [C16] an out-of-range position never returns normally (and, by `decreases`, never diverges)
        decreases old(self)@.len()
//@endif
//@ifmode N
//@spec
        requires lawful_ord::<A>(), lawful_clone::<A>(), i < old(self)@.len(),
        ensures
            final(self)@.len() == old(self)@.len(), // [C03,C02]
            perm(final(self)@, old(self)@), // [C03]
            r == final(self)@[i as int], // [C02,C18]
            forall|k: int| 0 <= k < i ==> le(#[trigger] final(self)@[k], r), // [C02,C18]
            forall|k: int| i <= k < final(self)@.len() ==> le(r, #[trigger] final(self)@[k]), // [C02,C18]
        decreases old(self)@.len()
//@at after_let partition_index tags=C02
            let ghost mid = self@;
            let ghost pv = mid[partition_index as int];
//@at after_call get_from_sorted_mut 0 tags=C02,C03
                proof {
                    let p = partition_index as int;
                    let a = mid.subrange(0, 0);
                    let m = mid.subrange(0, p);
                    let c = mid.subrange(p, n as int);
                    let m2 = self@.subrange(0, p);
                    assert(self@ =~= a + m2 + c);
                    assert(mid =~= a + m + c);
                    lemma_perm_concat3(a, m, m2, c);
                    assert forall|k: int| 0 <= k < p implies lt(#[trigger] self@[k], pv) by {
                        lemma_perm_contains(m, m2, k);
                    }
                    assert forall|k: int| i <= k < self@.len() implies le(__r, #[trigger] self@[k]) by {
                        if k >= p {
                            assert(self@[k] == mid[k]);
                            assert(__r == self@[i as int]);
                            assert(lt(self@[i as int], pv));
                            assert(le(__r, pv));
                            assert(le(pv, mid[k]));
                        } else {
                            assert(self@.subrange(0, p)[k] == self@[k]);
                        }
                    }
                }
//@at after_call get_from_sorted_mut 1 tags=C02,C03
                proof {
                    let p = partition_index as int;
                    let a = mid.subrange(0, p + 1);
                    let m = mid.subrange(p + 1, n as int);
                    let c = mid.subrange(n as int, n as int);
                    let m2 = self@.subrange(p + 1, n as int);
                    assert(self@ =~= a + m2 + c);
                    assert(mid =~= a + m + c);
                    lemma_perm_concat3(a, m, m2, c);
                    assert forall|k: int| p < k < n implies !lt(#[trigger] self@[k], pv) by {
                        lemma_perm_contains(m, m2, k - (p + 1));
                    }
                    assert(!lt(__r, pv));
                    assert forall|k: int| 0 <= k < i implies le(#[trigger] self@[k], __r) by {
                        if k <= p {
                            assert(self@[k] == mid[k]);
                            assert(__r == self@[i as int]);
                            assert(!lt(self@[i as int], pv));
                            assert(le(pv, __r));
                            assert(le(mid[k], pv));
                        } else {
                            assert(self@.subrange(p + 1, n as int)[k - (p + 1)] == self@[k]);
                        }
                    }
                }
//@endif
//@end
}

} // verus!
fn main() {}
