// unit `skipnan`: src/maybe_nan/mod.rs — fold_skipnan, indexed_fold_skipnan, visit_skipnan (C14)
#![allow(unused_imports, unused_variables, unused_mut, dead_code, unused_braces)]
use vstd::prelude::*;
use core::cmp::Ordering;
use std::cmp;
use vstd::std_specs::cmp::{OrdSpec, PartialOrdSpec, PartialEqSpec};
verus! {
//@include ../shim/order.rs
//@include ../shim/ndarr.rs
//@include ../shim/skipnan.rs
//@include ../shim/foldaxis.rs

impl<A: MaybeNan, D: Dimension> ArrayN<A, D> {
//@extract file=src/maybe_nan/mod.rs impl=MaybeNanExt:ArrayBase fn=fold_skipnan id=fold_skipnan tags=C14 body_tags=C14 lower=fold
//@sig
    fn fold_skipnan<'a, F, B>(&'a self, init: B, mut f: F) -> (r: B)
    where
        A: 'a,
        F: FnMut(B, &'a A::NotNan) -> B,
//@spec
        requires forall|acc: B, x: &'a A::NotNan| #[trigger] call_requires(f, (acc, x)),
        ensures
            // the elements are visited exactly once each (in the order ndarray's fold happens to use); the accumulator passes
            // unchanged over a missing element and through f, with the not-NaN value, over every other one
            skipnan_trace::<A, D, B, F>(self, f, init, r), // [C14]
//@at entry
        let ghost mut accs: Seq<B> = seq![init]; let ghost f0 = f;
//@loop 0
            invariant
                forall|acc: B, x: &'a A::NotNan| #[trigger] call_requires(f, (acc, x)),
                // calling an FnMut changes the closure value but not what it promises
                forall|acc: B, x: &'a A::NotNan, out: B| #[trigger] call_ensures(f, (acc, x), out) <==> call_ensures(f0, (acc, x), out),
                it.seq() == __fos, accs.len() == it.index@ + 1, accs[0] == init, accs[it.index@ as int] == __acc,
                forall|k: int| 0 <= k < it.index@ ==> skip_step::<A, B, F>(f0, #[trigger] accs[k], *__fos[k], accs[k + 1]), // [C14]
//@at loop_end 0
            proof { accs = accs.push(__acc); }
//@at after_loop 0
        proof {
            assert((&*self).fold_items_ok(__fos));
            assert(accs.len() == __fos.len() + 1 && accs[0] == init && accs[__fos.len() as int] == __acc);
            assert(forall|k: int| 0 <= k < __fos.len() ==> skip_step::<A, B, F>(f0, #[trigger] accs[k], *__fos[k], accs[k + 1]));
        }
//@end

//@extract file=src/maybe_nan/mod.rs impl=MaybeNanExt:ArrayBase fn=indexed_fold_skipnan id=indexed_fold_skipnan tags=C14 body_tags=C14 lower=fold
//@sig
    fn indexed_fold_skipnan<'a, F, B>(&'a self, init: B, mut f: F) -> (r: B)
    where
        A: 'a,
        F: FnMut(B, (D::Pattern, &'a A::NotNan)) -> B,
//@spec
        requires forall|acc: B, p: D::Pattern, x: &'a A::NotNan| #[trigger] call_requires(f, (acc, (p, x))),
        ensures
            // in logical order: element k is skipped when missing and otherwise handed to f together with its own index pattern
            exists|accs: Seq<B>| #![auto] accs.len() == self@.len() + 1 && accs[0] == init && accs[self@.len() as int] == r
                && forall|k: int| 0 <= k < self@.len() ==> skip_step_idx::<A, D::Pattern, B, F>(f, accs[k], self.idx(k), self@[k], accs[k + 1]), // [C14]
//@at entry
        let ghost mut accs: Seq<B> = seq![init]; let ghost f0 = f;
//@loop 0
            invariant
                forall|acc: B, p: D::Pattern, x: &'a A::NotNan| #[trigger] call_requires(f, (acc, (p, x))),
                forall|acc: B, p: D::Pattern, x: &'a A::NotNan, out: B| #[trigger] call_ensures(f, (acc, (p, x)), out) <==> call_ensures(f0, (acc, (p, x)), out),
                it.seq() == __fos, __fos.len() == self@.len(), forall|k: int| 0 <= k < self@.len() ==> #[trigger] __fos[k] == (self.idx(k), &self@[k]),
                accs.len() == it.index@ + 1, accs[0] == init, accs[it.index@ as int] == __acc,
                forall|k: int| 0 <= k < it.index@ ==> skip_step_idx::<A, D::Pattern, B, F>(f0, #[trigger] accs[k], self.idx(k), self@[k], accs[k + 1]), // [C14]
//@at loop_start 0
            proof { assert(__fos[it.index@] == (self.idx(it.index@ as int), &self@[it.index@ as int])); }
//@at loop_end 0
            proof { accs = accs.push(__acc); }
//@at after_loop 0
        proof {
            assert(accs.len() == self@.len() + 1 && accs[0] == init && accs[self@.len() as int] == __acc);
            assert(forall|k: int| 0 <= k < self@.len() ==> skip_step_idx::<A, D::Pattern, B, F>(f0, #[trigger] accs[k], self.idx(k), self@[k], accs[k + 1]));
        }
//@end

//@extract file=src/maybe_nan/mod.rs impl=MaybeNanExt:ArrayBase fn=visit_skipnan id=visit_skipnan tags=C14 body_tags=C14 lower=for_each
//@sig
    fn visit_skipnan<'a, F>(&'a self, mut f: F)
    where
        A: 'a,
        F: FnMut(&'a A::NotNan),
//@spec
        requires forall|x: &'a A::NotNan| #[trigger] call_requires(f, (x,)),
        ensures
            // every element is visited exactly once; f is called on exactly the ones that are not missing
            exists|items: Seq<&'a A>| #![auto] (&*self).fold_items_ok(items) && forall|k: int| 0 <= k < items.len() ==> visit_step::<A, F>(f, *items[k]), // [C14]
//@at entry
        let ghost f0 = f;
//@loop 0
            invariant
                forall|x: &'a A::NotNan| #[trigger] call_requires(f, (x,)),
                forall|x: &'a A::NotNan| #[trigger] call_ensures(f, (x,), ()) <==> call_ensures(f0, (x,), ()),
                it.seq() == __fos,
                forall|k: int| 0 <= k < it.index@ ==> visit_step::<A, F>(f0, *#[trigger] __fos[k]), // [C14]
//@at after_loop 0
        proof { assert((&*self).fold_items_ok(__fos)); assert(forall|k: int| 0 <= k < __fos.len() ==> visit_step::<A, F>(f0, *#[trigger] __fos[k])); }
//@end

//@extract file=src/maybe_nan/mod.rs impl=MaybeNanExt:ArrayBase fn=fold_axis_skipnan id=fold_axis_skipnan tags=C14 body_tags=C14 lower=fold_axis
//@sig
    fn fold_axis_skipnan<B, F>(&self, axis: Axis, init: B, mut fold: F) -> (r: ArrayN<B, D::Smaller>)
    where
        D: RemoveAxis,
        F: FnMut(&B, &A::NotNan) -> B,
        B: Clone,
//@spec
        requires forall|acc: &B, x: &A::NotNan| #[trigger] call_requires(fold, (acc, x)),
        ensures
            // one result per lane: the accumulator started from init and threaded through the elements of the lane in axis
            // order, cloned unchanged over a missing element and through fold, with the not-NaN value, over every other one
            r@.len() == self.lanes(axis.0 as int).len(), // [C14]
            forall|j: int| 0 <= j < r@.len() ==> lane_fold::<A, B, F>(fold, init, self.lanes(axis.0 as int)[j], #[trigger] r@[j]), // [C14]
//@at entry
        let ghost f0 = fold; let ghost l0 = self.lanes(axis.0 as int); let ghost nl = l0.len() as int;
//@loop 0
            invariant
                forall|acc: &B, x: &A::NotNan| #[trigger] call_requires(fold, (acc, x)),
                forall|acc: &B, x: &A::NotNan, out: B| #[trigger] call_ensures(fold, (acc, x), out) <==> call_ensures(f0, (acc, x), out),
                it.seq() == __lzs, __lzs.len() == nl, self.lanes(axis.0 as int) == l0, nl == l0.len(),
                forall|k: int| 0 <= k < nl ==> #[trigger] __lzs[k] < nl,
                forall|k1: int, k2: int| 0 <= k1 < k2 < nl ==> __lzs[k1] != __lzs[k2],
                forall|j: int| 0 <= j < nl ==> #[trigger] visits(__lzs, j),
                __res.slots().len() == nl,
                forall|k: int| 0 <= k < it.index@ ==> (#[trigger] __res.slots()[__lzs[k] as int]) is Some && lane_fold::<A, B, F>(f0, init, l0[__lzs[k] as int], __res.slots()[__lzs[k] as int]->Some_0), // [C14]
//@at loop_start 0
            proof { assert(__j == __lzs[it.index@]); }
            let ghost mut accs: Seq<B> = seq![__a]; let ghost lane = l0[__j as int];
//@loop 1
                invariant
                    forall|acc: &B, x: &A::NotNan| #[trigger] call_requires(fold, (acc, x)),
                    forall|acc: &B, x: &A::NotNan, out: B| #[trigger] call_ensures(fold, (acc, x), out) <==> call_ensures(f0, (acc, x), out),
                    it2.seq() == __lis, __lis.len() == lane.len(), forall|k: int| 0 <= k < lane.len() ==> *(#[trigger] __lis[k]) == lane[k],
                    accs.len() == it2.index@ + 1, is_init_copy(init, accs[0]), accs[it2.index@ as int] == __a,
                    forall|k: int| 0 <= k < it2.index@ ==> skip_step_ref::<A, B, F>(f0, #[trigger] accs[k], lane[k], accs[k + 1]), // [C14]
//@at loop_end 1
                proof { accs = accs.push(__a); }
//@at loop_tail 0
            proof {
                assert(accs.len() == lane.len() + 1 && accs[lane.len() as int] == __a);
                assert(forall|k: int| 0 <= k < lane.len() ==> skip_step_ref::<A, B, F>(f0, #[trigger] accs[k], lane[k], accs[k + 1]));
                assert(lane_fold::<A, B, F>(f0, init, lane, __a));
            }
//@at after_loop 0
        proof {
            assert forall|j: int| 0 <= j < nl implies (#[trigger] __res.slots()[j]) is Some && lane_fold::<A, B, F>(f0, init, l0[j], __res.slots()[j]->Some_0) by {
                assert(visits(__lzs, j));
                let k = choose|k: int| 0 <= k < __lzs.len() && __lzs[k] == j;
                assert(__res.slots()[__lzs[k] as int] is Some);
            }
        }
//@end

//@extract file=src/quantile/mod.rs impl=QuantileExt:ArrayBase fn=min_skipnan id=min_skipnan tags=C14 body_tags=C14
//@sig
    fn min_skipnan<'a>(&'a self) -> (r: &'a A)
    where
        A: MaybeNan,
        A::NotNan: Ord + 'a,
//@spec
        requires lawful_ord::<A::NotNan>(),
        ensures
            // nothing left (empty or every element missing): the missing value
            (forall|k: int| 0 <= k < self@.len() ==> (#[trigger] self@[k]).is_nan_spec()) ==> r.is_nan_spec(), // [C14]
            // otherwise: a not-missing element of the array that is <= every not-missing element
            (exists|k: int| 0 <= k < self@.len() && !(#[trigger] self@[k]).is_nan_spec()) ==> (!r.is_nan_spec()
                && (exists|k: int| 0 <= k < self@.len() && !(#[trigger] self@[k]).is_nan_spec() && self@[k].not_nan_spec() == r.not_nan_spec())
                && forall|k: int| 0 <= k < self@.len() && !(#[trigger] self@[k]).is_nan_spec() ==> dle(false, r.not_nan_spec(), self@[k].not_nan_spec())), // [C14]
//@rename_call min verif_min
//@closure 0
|v: &'a A| -> (o: Option<&'a A::NotNan>) ensures (*v).is_nan_spec() <==> o is None, o matches Some(x) ==> *x == (*v).not_nan_spec()
//@closure 1
|acc: Option<&'a A::NotNan>, elem: &'a A::NotNan| -> (o: Option<&'a A::NotNan>) ensures o matches Some(x) && ext_rel(false, opt_val(acc), *elem, *x)
//@at after_let first 0
        proof { assert(first matches Some(x) ==> !self@[0].is_nan_spec() && self@[0].not_nan_spec() == *x); }
//@name_call fold_skipnan 0
            proof { lemma_ext_from_trace::<A, D, _>(false, self, __clg, first, __t); }
//@end

//@extract file=src/quantile/mod.rs impl=QuantileExt:ArrayBase fn=max_skipnan id=max_skipnan tags=C14 body_tags=C14
//@sig
    fn max_skipnan<'a>(&'a self) -> (r: &'a A)
    where
        A: MaybeNan,
        A::NotNan: Ord + 'a,
//@spec
        requires lawful_ord::<A::NotNan>(),
        ensures
            // nothing left (empty or every element missing): the missing value
            (forall|k: int| 0 <= k < self@.len() ==> (#[trigger] self@[k]).is_nan_spec()) ==> r.is_nan_spec(), // [C14]
            // otherwise: a not-missing element of the array that is >= every not-missing element
            (exists|k: int| 0 <= k < self@.len() && !(#[trigger] self@[k]).is_nan_spec()) ==> (!r.is_nan_spec()
                && (exists|k: int| 0 <= k < self@.len() && !(#[trigger] self@[k]).is_nan_spec() && self@[k].not_nan_spec() == r.not_nan_spec())
                && forall|k: int| 0 <= k < self@.len() && !(#[trigger] self@[k]).is_nan_spec() ==> dle(true, r.not_nan_spec(), self@[k].not_nan_spec())), // [C14]
//@rename_call max verif_max
//@closure 0
|v: &'a A| -> (o: Option<&'a A::NotNan>) ensures (*v).is_nan_spec() <==> o is None, o matches Some(x) ==> *x == (*v).not_nan_spec()
//@closure 1
|acc: Option<&'a A::NotNan>, elem: &'a A::NotNan| -> (o: Option<&'a A::NotNan>) ensures o matches Some(x) && ext_rel(true, opt_val(acc), *elem, *x)
//@at after_let first 0
        proof { assert(first matches Some(x) ==> !self@[0].is_nan_spec() && self@[0].not_nan_spec() == *x); }
//@name_call fold_skipnan 0
            proof { lemma_ext_from_trace::<A, D, _>(true, self, __clg, first, __t); }
//@end

//@extract file=src/quantile/mod.rs impl=QuantileExt:ArrayBase fn=argmin_skipnan id=argmin_skipnan tags=C14,C17 body_tags=C14 lower=fold inline=indexed_fold_skipnan@src/maybe_nan/mod.rs@MaybeNanExt:ArrayBase inline_ty=init:Option<&A::NotNan>
//@sig
    fn argmin_skipnan(&self) -> (r: Result<D::Pattern, MinMaxError>)
    where
        A: MaybeNan,
        A::NotNan: Ord,
//@spec
        requires lawful_ord::<A::NotNan>(),
        ensures
            // nothing left (empty or every element missing): EmptyInput
            (forall|k: int| 0 <= k < self@.len() ==> (#[trigger] self@[k]).is_nan_spec()) ==> r is Err, // [C14,C17] (the only error value is EmptyInput)
            // otherwise: the index of a not-missing element of the array that bounds every not-missing element
            (exists|k: int| 0 <= k < self@.len() && !(#[trigger] self@[k]).is_nan_spec()) ==> (r matches Ok(p)
                && exists|k: int| 0 <= k < self@.len() && !(#[trigger] self@[k]).is_nan_spec() && p == self.idx(k)
                    && forall|j: int| 0 <= j < self@.len() && !(#[trigger] self@[j]).is_nan_spec() ==> dle(false, self@[k].not_nan_spec(), self@[j].not_nan_spec())), // [C14]
//@binop cmp 0 verif_ref
//@at entry
        proof { reveal(lawful_ord); }
//@at before_loop 0
        let ghost mut i0: int = 0; let ghost mut acc0: Option<&A::NotNan> = None; let ghost mut pat0 = pattern_min;
//@loop 0
            invariant
                ord_laws::<A::NotNan>(),
                it.seq() == __fos, __fos.len() == self@.len(), forall|k: int| 0 <= k < self@.len() ==> #[trigger] __fos[k] == (self.idx(k), &self@[k]),
                __acc is None <==> (forall|k: int| 0 <= k < it.index@ ==> (#[trigger] self@[k]).is_nan_spec()), // [C14]
                __acc matches Some(m) ==> exists|k: int| 0 <= k < it.index@ && !(#[trigger] self@[k]).is_nan_spec() && *m == self@[k].not_nan_spec() && pattern_min == self.idx(k)
                    && forall|j: int| 0 <= j < it.index@ && !(#[trigger] self@[j]).is_nan_spec() ==> dle(false, self@[k].not_nan_spec(), self@[j].not_nan_spec()), // [C14]
//@at loop_start 0
            proof { assert(__fos[it.index@] == (self.idx(it.index@ as int), &self@[it.index@ as int])); }
            proof { i0 = it.index@ as int; acc0 = __acc; pat0 = pattern_min; }
//@at loop_end 0
            proof {
                if !self@[i0].is_nan_spec() {
                    let e = self@[i0].not_nan_spec();
                    if acc0 is Some {
                        let m0 = acc0->Some_0;
                        let k0 = choose|k: int| 0 <= k < i0 && !(#[trigger] self@[k]).is_nan_spec() && *m0 == self@[k].not_nan_spec() && pat0 == self.idx(k)
                            && forall|j: int| 0 <= j < i0 && !(#[trigger] self@[j]).is_nan_spec() ==> dle(false, self@[k].not_nan_spec(), self@[j].not_nan_spec());
                        if dle(false, *m0, e) && __acc == acc0 {
                            assert(forall|j: int| 0 <= j < i0 + 1 && !(#[trigger] self@[j]).is_nan_spec() ==> dle(false, self@[k0].not_nan_spec(), self@[j].not_nan_spec()));
                        } else {
                            assert(dle(false, e, *m0));
                            assert forall|j: int| 0 <= j < i0 + 1 && !(#[trigger] self@[j]).is_nan_spec() implies dle(false, e, self@[j].not_nan_spec()) by {
                                if j < i0 { assert(dle(false, *m0, self@[j].not_nan_spec())); }
                            }
                            assert(!self@[i0].is_nan_spec() && pattern_min == self.idx(i0));
                        }
                    } else {
                        assert forall|j: int| 0 <= j < i0 + 1 && !(#[trigger] self@[j]).is_nan_spec() implies dle(false, e, self@[j].not_nan_spec()) by { assert(j == i0); }
                        assert(!self@[i0].is_nan_spec() && pattern_min == self.idx(i0));
                    }
                }
            }
//@end

//@extract file=src/quantile/mod.rs impl=QuantileExt:ArrayBase fn=argmax_skipnan id=argmax_skipnan tags=C14,C17 body_tags=C14 lower=fold inline=indexed_fold_skipnan@src/maybe_nan/mod.rs@MaybeNanExt:ArrayBase inline_ty=init:Option<&A::NotNan>
//@sig
    fn argmax_skipnan(&self) -> (r: Result<D::Pattern, MinMaxError>)
    where
        A: MaybeNan,
        A::NotNan: Ord,
//@spec
        requires lawful_ord::<A::NotNan>(),
        ensures
            // nothing left (empty or every element missing): EmptyInput
            (forall|k: int| 0 <= k < self@.len() ==> (#[trigger] self@[k]).is_nan_spec()) ==> r is Err, // [C14,C17] (the only error value is EmptyInput)
            // otherwise: the index of a not-missing element of the array that bounds every not-missing element
            (exists|k: int| 0 <= k < self@.len() && !(#[trigger] self@[k]).is_nan_spec()) ==> (r matches Ok(p)
                && exists|k: int| 0 <= k < self@.len() && !(#[trigger] self@[k]).is_nan_spec() && p == self.idx(k)
                    && forall|j: int| 0 <= j < self@.len() && !(#[trigger] self@[j]).is_nan_spec() ==> dle(true, self@[k].not_nan_spec(), self@[j].not_nan_spec())), // [C14]
//@binop cmp 0 verif_ref
//@at entry
        proof { reveal(lawful_ord); }
//@at before_loop 0
        let ghost mut i0: int = 0; let ghost mut acc0: Option<&A::NotNan> = None; let ghost mut pat0 = pattern_max;
//@loop 0
            invariant
                ord_laws::<A::NotNan>(),
                it.seq() == __fos, __fos.len() == self@.len(), forall|k: int| 0 <= k < self@.len() ==> #[trigger] __fos[k] == (self.idx(k), &self@[k]),
                __acc is None <==> (forall|k: int| 0 <= k < it.index@ ==> (#[trigger] self@[k]).is_nan_spec()), // [C14]
                __acc matches Some(m) ==> exists|k: int| 0 <= k < it.index@ && !(#[trigger] self@[k]).is_nan_spec() && *m == self@[k].not_nan_spec() && pattern_max == self.idx(k)
                    && forall|j: int| 0 <= j < it.index@ && !(#[trigger] self@[j]).is_nan_spec() ==> dle(true, self@[k].not_nan_spec(), self@[j].not_nan_spec()), // [C14]
//@at loop_start 0
            proof { assert(__fos[it.index@] == (self.idx(it.index@ as int), &self@[it.index@ as int])); }
            proof { i0 = it.index@ as int; acc0 = __acc; pat0 = pattern_max; }
//@at loop_end 0
            proof {
                if !self@[i0].is_nan_spec() {
                    let e = self@[i0].not_nan_spec();
                    if acc0 is Some {
                        let m0 = acc0->Some_0;
                        let k0 = choose|k: int| 0 <= k < i0 && !(#[trigger] self@[k]).is_nan_spec() && *m0 == self@[k].not_nan_spec() && pat0 == self.idx(k)
                            && forall|j: int| 0 <= j < i0 && !(#[trigger] self@[j]).is_nan_spec() ==> dle(true, self@[k].not_nan_spec(), self@[j].not_nan_spec());
                        if dle(true, *m0, e) && __acc == acc0 {
                            assert(forall|j: int| 0 <= j < i0 + 1 && !(#[trigger] self@[j]).is_nan_spec() ==> dle(true, self@[k0].not_nan_spec(), self@[j].not_nan_spec()));
                        } else {
                            assert(dle(true, e, *m0));
                            assert forall|j: int| 0 <= j < i0 + 1 && !(#[trigger] self@[j]).is_nan_spec() implies dle(true, e, self@[j].not_nan_spec()) by {
                                if j < i0 { assert(dle(true, *m0, self@[j].not_nan_spec())); }
                            }
                            assert(!self@[i0].is_nan_spec() && pattern_max == self.idx(i0));
                        }
                    } else {
                        assert forall|j: int| 0 <= j < i0 + 1 && !(#[trigger] self@[j]).is_nan_spec() implies dle(true, e, self@[j].not_nan_spec()) by { assert(j == i0); }
                        assert(!self@[i0].is_nan_spec() && pattern_max == self.idx(i0));
                    }
                }
            }
//@end

}

// ---- C20 as lemmas over the contracts proved above (reading: unit `deviation`) -------------------------------------------
proof fn lemma_layout_min_skipnan<'a, A: MaybeNan, D: Dimension>(a1: &'a ArrayN<A, D>, a2: &'a ArrayN<A, D>, r1: &'a A, r2: &'a A)
    where A::NotNan: Ord + 'a
    requires
        lawful_ord::<A::NotNan>(), a1@ == a2@,
        call_ensures(ArrayN::<A, D>::min_skipnan, (a1,), r1), call_ensures(ArrayN::<A, D>::min_skipnan, (a2,), r2),
    ensures
        r1.is_nan_spec() <==> r2.is_nan_spec(), // [C20]
        !r1.is_nan_spec() ==> eqv(r1.not_nan_spec(), r2.not_nan_spec()), // [C20] the same value up to the order's equivalence (D11)
{
    reveal(lawful_ord);
    if !r1.is_nan_spec() && !r2.is_nan_spec() {
        assert(dle(false, r1.not_nan_spec(), r2.not_nan_spec()) && dle(false, r2.not_nan_spec(), r1.not_nan_spec()));
    }
}
proof fn lemma_layout_max_skipnan<'a, A: MaybeNan, D: Dimension>(a1: &'a ArrayN<A, D>, a2: &'a ArrayN<A, D>, r1: &'a A, r2: &'a A)
    where A::NotNan: Ord + 'a
    requires
        lawful_ord::<A::NotNan>(), a1@ == a2@,
        call_ensures(ArrayN::<A, D>::max_skipnan, (a1,), r1), call_ensures(ArrayN::<A, D>::max_skipnan, (a2,), r2),
    ensures
        r1.is_nan_spec() <==> r2.is_nan_spec(), // [C20]
        !r1.is_nan_spec() ==> eqv(r1.not_nan_spec(), r2.not_nan_spec()), // [C20] the same value up to the order's equivalence (D11)
{
    reveal(lawful_ord);
    if !r1.is_nan_spec() && !r2.is_nan_spec() {
        assert(dle(true, r1.not_nan_spec(), r2.not_nan_spec()) && dle(true, r2.not_nan_spec(), r1.not_nan_spec()));
    }
}
proof fn lemma_layout_argmin_skipnan<A: MaybeNan, D: Dimension>(a1: ArrayN<A, D>, a2: ArrayN<A, D>, r1: Result<D::Pattern, MinMaxError>, r2: Result<D::Pattern, MinMaxError>)
    where A::NotNan: Ord
    requires
        lawful_ord::<A::NotNan>(), a1@ == a2@, forall|k: int| a1.idx(k) == a2.idx(k),
        call_ensures(ArrayN::<A, D>::argmin_skipnan, (&a1,), r1), call_ensures(ArrayN::<A, D>::argmin_skipnan, (&a2,), r2),
    ensures
        r1 is Err <==> r2 is Err, // [C20]
        r1 is Ok ==> exists|k1: int, k2: int| #![trigger a1.idx(k1), a1.idx(k2)] 0 <= k1 < a1@.len() && 0 <= k2 < a1@.len() && !a1@[k1].is_nan_spec() && !a1@[k2].is_nan_spec()
            && r1->Ok_0 == a1.idx(k1) && r2->Ok_0 == a1.idx(k2) && eqv(a1@[k1].not_nan_spec(), a1@[k2].not_nan_spec()), // [C20] positions of the same logical array holding equivalent extremal values
{
    reveal(lawful_ord);
    if r1 is Ok && r2 is Ok {
        let k1 = choose|k: int| 0 <= k < a1@.len() && !(#[trigger] a1@[k]).is_nan_spec() && r1->Ok_0 == a1.idx(k)
            && forall|j: int| 0 <= j < a1@.len() && !(#[trigger] a1@[j]).is_nan_spec() ==> dle(false, a1@[k].not_nan_spec(), a1@[j].not_nan_spec());
        let k2 = choose|k: int| 0 <= k < a2@.len() && !(#[trigger] a2@[k]).is_nan_spec() && r2->Ok_0 == a2.idx(k)
            && forall|j: int| 0 <= j < a2@.len() && !(#[trigger] a2@[j]).is_nan_spec() ==> dle(false, a2@[k].not_nan_spec(), a2@[j].not_nan_spec());
        assert(dle(false, a1@[k1].not_nan_spec(), a1@[k2].not_nan_spec()) && dle(false, a1@[k2].not_nan_spec(), a1@[k1].not_nan_spec()));
        assert(eqv(a1@[k1].not_nan_spec(), a1@[k2].not_nan_spec()));
        assert(r1->Ok_0 == a1.idx(k1) && r2->Ok_0 == a1.idx(k2));
    }
}
proof fn lemma_layout_argmax_skipnan<A: MaybeNan, D: Dimension>(a1: ArrayN<A, D>, a2: ArrayN<A, D>, r1: Result<D::Pattern, MinMaxError>, r2: Result<D::Pattern, MinMaxError>)
    where A::NotNan: Ord
    requires
        lawful_ord::<A::NotNan>(), a1@ == a2@, forall|k: int| a1.idx(k) == a2.idx(k),
        call_ensures(ArrayN::<A, D>::argmax_skipnan, (&a1,), r1), call_ensures(ArrayN::<A, D>::argmax_skipnan, (&a2,), r2),
    ensures
        r1 is Err <==> r2 is Err, // [C20]
        r1 is Ok ==> exists|k1: int, k2: int| #![trigger a1.idx(k1), a1.idx(k2)] 0 <= k1 < a1@.len() && 0 <= k2 < a1@.len() && !a1@[k1].is_nan_spec() && !a1@[k2].is_nan_spec()
            && r1->Ok_0 == a1.idx(k1) && r2->Ok_0 == a1.idx(k2) && eqv(a1@[k1].not_nan_spec(), a1@[k2].not_nan_spec()), // [C20] positions of the same logical array holding equivalent extremal values
{
    reveal(lawful_ord);
    if r1 is Ok && r2 is Ok {
        let k1 = choose|k: int| 0 <= k < a1@.len() && !(#[trigger] a1@[k]).is_nan_spec() && r1->Ok_0 == a1.idx(k)
            && forall|j: int| 0 <= j < a1@.len() && !(#[trigger] a1@[j]).is_nan_spec() ==> dle(true, a1@[k].not_nan_spec(), a1@[j].not_nan_spec());
        let k2 = choose|k: int| 0 <= k < a2@.len() && !(#[trigger] a2@[k]).is_nan_spec() && r2->Ok_0 == a2.idx(k)
            && forall|j: int| 0 <= j < a2@.len() && !(#[trigger] a2@[j]).is_nan_spec() ==> dle(true, a2@[k].not_nan_spec(), a2@[j].not_nan_spec());
        assert(dle(true, a1@[k1].not_nan_spec(), a1@[k2].not_nan_spec()) && dle(true, a1@[k2].not_nan_spec(), a1@[k1].not_nan_spec()));
        assert(eqv(a1@[k1].not_nan_spec(), a1@[k2].not_nan_spec()));
        assert(r1->Ok_0 == a1.idx(k1) && r2->Ok_0 == a1.idx(k2));
    }
}

} // verus!
fn main() {}
