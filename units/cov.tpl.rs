// unit `cov`: src/correlation.rs — cov, pearson_correlation (C08, C17) under the exact-arithmetic reading A-REAL
#![allow(unused_imports, unused_variables, unused_mut, dead_code, unused_braces)]
use vstd::prelude::*;
use core::cmp::Ordering;
use std::cmp;
use vstd::std_specs::cmp::{OrdSpec, PartialOrdSpec, PartialEqSpec};
use vstd::std_specs::ops::*;
use std::ops::{Add, Sub, Mul, Div, Neg, AddAssign};
verus! {
//@include ../shim/order.rs
//@include ../shim/ndarr.rs
//@include ../shim/zip.rs
//@include ../shim/realnum.rs
//@include ../shim/mat.rs

impl<A: Float> Mat<A> {
//@extract file=src/correlation.rs impl=CorrelationExt:ArrayBase fn=cov id=cov tags=C08,C17 body_tags=C08
//@sig
    fn cov(&self, ddof: A) -> (r: Result<Array2<A>, MinMaxError>)
    where
        A: Float + FromPrimitive,
//@spec
        requires real_model::<A>(), real_from_usize::<A>(),
            self.ncols() > 0 ==> ddof.val() < self.ncols() as real, // otherwise the routine panics (by design)
        ensures
            self.ncols() == 0 ==> r matches Err(MinMaxError::EmptyInput), // [C08,C17] no observations
            self.ncols() > 0 ==> r is Ok, // [C08,C17]
            // a (variables x variables) matrix whose (i, j) entry is sum_k (x_ik - xbar_i)(x_jk - xbar_j) / (n - ddof)
            self.ncols() > 0 ==> r->Ok_0.nrows() == self.nrows() && r->Ok_0.ncols() == self.nrows(), // [C08]
            self.ncols() > 0 ==> forall|i: int, j: int| 0 <= i < self.nrows() && 0 <= j < self.nrows() ==> (#[trigger] r->Ok_0.at(i, j)).val() == cov_def(*self, i, j, ddof.val()), // [C08]
//@closure 0
|x: A| -> (y: A) ensures y.val() == x.val() / dof.val()
//@at entry
        broadcast use axiom_transpose;
//@binop - 0 verif_mat_sub lhs=self
//@at after_let denoised 0
                proof { assert(denoised.nrows() == self.nrows() && denoised.ncols() == self.ncols()); }
//@at after_let covariance 0
                proof {
                    broadcast use axiom_transpose;
                    assert forall|i: int, j: int| 0 <= i < self.nrows() && 0 <= j < self.nrows() implies
                        (#[trigger] covariance.at(i, j)).val() == crossdev(row(*self, i), row(*self, j), mean_def(row(*self, i)), mean_def(row(*self, j)), self.ncols() as int) by {
                        let (a, b) = (row(*self, i), row(*self, j));
                        let (u, v) = (row(denoised, i), col(denoised.t_spec(), j));
                        assert forall|l: int| 0 <= l < a.len() implies #[trigger] u[l] == a[l] - mean_def(a) by { assert(denoised.at(i, l).val() == self.at(i, l).val() - mean.at(i).val()); }
                        assert forall|l: int| 0 <= l < a.len() implies #[trigger] v[l] == b[l] - mean_def(b) by { assert(denoised.t_spec().at(l, j) == denoised.at(j, l)); assert(denoised.at(j, l).val() == self.at(j, l).val() - mean.at(j).val()); }
                        lemma_dotp_is_crossdev(u, v, a, b, mean_def(a), mean_def(b), a.len() as int);
                    }
                }
//@end

//@extract file=src/correlation.rs impl=CorrelationExt:ArrayBase fn=pearson_correlation id=pearson_correlation tags=C08,C17 body_tags=C08
//@sig
    fn pearson_correlation(&self) -> (r: Result<Array2<A>, MinMaxError>)
    where
        A: Float + FromPrimitive,
//@spec
        requires real_model::<A>(), real_from_usize::<A>(),
        ensures
            self.nrows() == 0 || self.ncols() == 0 ==> r matches Err(MinMaxError::EmptyInput), // [C08,C17]
            self.nrows() > 0 && self.ncols() > 0 ==> r is Ok, // [C08,C17]
            self.nrows() > 0 && self.ncols() > 0 ==> r->Ok_0.nrows() == self.nrows() && r->Ok_0.ncols() == self.nrows(), // [C08]
            // cov_ij / (sigma_i sigma_j), covariance and standard deviations with the same ddof, for non-constant variables
            self.nrows() > 0 && self.ncols() > 0 ==> forall|i: int, j: int| 0 <= i < self.nrows() && 0 <= j < self.nrows() && sigma_def(*self, i, 0real) * sigma_def(*self, j, 0real) != 0real ==>
                (#[trigger] r->Ok_0.at(i, j)).val() == cov_def(*self, i, j, 0real) / (sigma_def(*self, i, 0real) * sigma_def(*self, j, 0real)), // [C08]
//@at entry
        broadcast use axiom_transpose, axiom_mat_div;
//@at after_let std_matrix 0
                proof {
                    broadcast use axiom_mat_div, axiom_transpose;
                    assert forall|i: int, j: int| 0 <= i < self.nrows() && 0 <= j < self.nrows() implies
                        (#[trigger] std_matrix.at(i, j)).val() == sigma_def(*self, i, 0real) * sigma_def(*self, j, 0real) by {
                        let (u, v) = (row(std, i), col(std.t_spec(), j));
                        assert(std.t_spec().at(0, j) == std.at(j, 0));
                        assert(dotp(u, v, 1) == dotp(u, v, 0) + u[0] * v[0]);
                    }
                }
//@end
}

// ---- C20 as lemmas over the contracts proved above (reading: unit `deviation`): two observation matrices with the same
// shape and the same entries (whatever their strides, memory order, offset or ownership) give matrices with the same real entries
pub open spec fn same_mat<A: Float>(m1: Mat<A>, m2: Mat<A>) -> bool {
    m1.nrows() == m2.nrows() && m1.ncols() == m2.ncols() && forall|i: int, k: int| 0 <= i < m1.nrows() && 0 <= k < m1.ncols() ==> (#[trigger] m1.at(i, k)).val() == m2.at(i, k).val()
}
proof fn lemma_same_rows<A: Float>(m1: Mat<A>, m2: Mat<A>, i: int)
    requires same_mat(m1, m2), 0 <= i < m1.nrows()
    ensures row(m1, i) == row(m2, i)
{
    assert(row(m1, i) =~= row(m2, i));
}
proof fn lemma_layout_cov<A: Float + FromPrimitive>(m1: Mat<A>, m2: Mat<A>, ddof: A, r1: Result<Array2<A>, MinMaxError>, r2: Result<Array2<A>, MinMaxError>)
    requires
        same_mat(m1, m2),
        call_ensures(Mat::<A>::cov, (&m1, ddof), r1), call_ensures(Mat::<A>::cov, (&m2, ddof), r2),
    ensures
        r1 is Err ==> r1 == r2, r2 is Err ==> r1 == r2, // [C20]
        r1 is Ok && r2 is Ok ==> r1->Ok_0.nrows() == r2->Ok_0.nrows() && r1->Ok_0.ncols() == r2->Ok_0.ncols()
            && forall|i: int, j: int| 0 <= i < m1.nrows() && 0 <= j < m1.nrows() ==> (#[trigger] r1->Ok_0.at(i, j)).val() == r2->Ok_0.at(i, j).val(), // [C20]
{
    if r1 is Ok && r2 is Ok {
        assert forall|i: int, j: int| 0 <= i < m1.nrows() && 0 <= j < m1.nrows() implies (#[trigger] r1->Ok_0.at(i, j)).val() == r2->Ok_0.at(i, j).val() by {
            lemma_same_rows(m1, m2, i); lemma_same_rows(m1, m2, j);
            assert(r2->Ok_0.at(i, j).val() == cov_def(m2, i, j, ddof.val()));
        }
    }
}
proof fn lemma_layout_pearson_correlation<A: Float + FromPrimitive>(m1: Mat<A>, m2: Mat<A>, r1: Result<Array2<A>, MinMaxError>, r2: Result<Array2<A>, MinMaxError>)
    requires
        same_mat(m1, m2),
        call_ensures(Mat::<A>::pearson_correlation, (&m1,), r1), call_ensures(Mat::<A>::pearson_correlation, (&m2,), r2),
    ensures
        r1 is Err ==> r1 == r2, r2 is Err ==> r1 == r2, // [C20]
        r1 is Ok && r2 is Ok ==> r1->Ok_0.nrows() == r2->Ok_0.nrows() && r1->Ok_0.ncols() == r2->Ok_0.ncols()
            && forall|i: int, j: int| 0 <= i < m1.nrows() && 0 <= j < m1.nrows() && sigma_def(m1, i, 0real) * sigma_def(m1, j, 0real) != 0real ==> (#[trigger] r1->Ok_0.at(i, j)).val() == r2->Ok_0.at(i, j).val(), // [C20]
{
    if r1 is Ok && r2 is Ok {
        assert forall|i: int, j: int| 0 <= i < m1.nrows() && 0 <= j < m1.nrows() && sigma_def(m1, i, 0real) * sigma_def(m1, j, 0real) != 0real implies (#[trigger] r1->Ok_0.at(i, j)).val() == r2->Ok_0.at(i, j).val() by {
            lemma_same_rows(m1, m2, i); lemma_same_rows(m1, m2, j);
            assert(sigma_def(m2, i, 0real) == sigma_def(m1, i, 0real) && sigma_def(m2, j, 0real) == sigma_def(m1, j, 0real));
            assert(r2->Ok_0.at(i, j).val() == cov_def(m2, i, j, 0real) / (sigma_def(m2, i, 0real) * sigma_def(m2, j, 0real)));
        }
    }
}

} // verus!
fn main() {}
