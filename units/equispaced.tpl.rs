// unit `equispaced`: src/histogram/strategies.rs — EquiSpaced::{new, n_bins, build} (C12, C17)
#![feature(allocator_api)]
#![allow(unused_imports, unused_variables, unused_mut, dead_code)]
use vstd::prelude::*;
use core::cmp::Ordering;
use vstd::std_specs::cmp::{OrdSpec, PartialOrdSpec, PartialEqSpec};
use vstd::std_specs::ops::{AddSpec, MulSpec};
use std::alloc::Allocator;
use std::ops::{Add, Mul, Range};
verus! {
//@include ../shim/order.rs
//@include ../shim/lane.rs
//@include ../shim/slices_min.rs
//@include ../shim/bins_types.rs
//@include ../shim/num.rs
//@include parts/edges_from.part.rs
impl<A: Ord> Bins<A> {
//@include parts/bins_new.part.rs
}

pub open spec fn eq_pre<T: Ord + Clone + NumOps + FromPrimitive>(s: EquiSpaced<T>, m: usize) -> bool {
    &&& lawful_ord::<T>() && lawful_clone::<T>() && num_ok::<T>()
    &&& m < usize::MAX
    &&& forall|i: usize| i <= m ==> (#[trigger] T::from_usize_spec(i)).is_some()
    // the edges eventually pass the maximum (for integer types: whenever max + width is representable)
    &&& lt(s.max, edge_at(s.min, s.bin_width, m))
}

impl<T> EquiSpaced<T>
where
    T: Ord + Clone + FromPrimitive + NumOps + Zero,
{
//@extract file=src/histogram/strategies.rs impl=EquiSpaced fn=new id=EquiSpaced::new tags=C12,C17
//@sig
    fn new(bin_width: T, min: T, max: T) -> (r: Result<Self, BinsBuildError>)
//@spec
        requires lawful_ord::<T>(),
        ensures
            r.is_err() <==> (le(bin_width, T::zero_spec()) || le(max, min)), // [C12,C17] constant data / non-positive width are rejected ...
            r.is_err() ==> r == Err::<Self, BinsBuildError>(BinsBuildError::Strategy), // [C12,C17] ... with the Strategy error
            r matches Ok(s) ==> s.bin_width == bin_width && s.min == min && s.max == max, // [C12]
//@at entry
        proof { reveal(lawful_ord); }
//@end

//@extract file=src/histogram/strategies.rs impl=EquiSpaced fn=n_bins id=EquiSpaced::n_bins tags=C12
//@sig
    fn n_bins(&self) -> (n: usize)
//@spec
        requires exists|m: usize| eq_pre(*self, m),
        ensures
            n < usize::MAX,
            forall|m2: usize| #[trigger] eq_pre(*self, m2) ==> n <= m2, // [C12]
            lt(self.max, edge_at(self.min, self.bin_width, n)), // [C12] the n-th edge of `build` lies strictly above the maximum
            forall|i: usize| i < n ==> le(#[trigger] edge_at(self.min, self.bin_width, i), self.max), // [C12] ... and it is the first one that does (at most one width above)
//@at entry
        let ghost m = choose|m: usize| eq_pre(*self, m);
        proof { reveal(lawful_ord); }
//@loop 0
            invariant
                eq_pre(*self, m), ord_laws::<T>(),
                n_bins <= m, // [C12]
                forall|i: usize| i < n_bins ==> le(#[trigger] edge_at(self.min, self.bin_width, i), self.max), // [C12]
            decreases m - n_bins
//@end

//@extract file=src/histogram/strategies.rs impl=EquiSpaced fn=build id=EquiSpaced::build tags=C12
//@sig
    fn build(&self) -> (r: Bins<T>)
//@spec
        requires exists|m: usize| eq_pre(*self, m), eq_is_ord_equal::<T>(),
        ensures
            edges_wf(r.edges), // [C12,C13]
            r.edges.edges@.contains(edge_at(self.min, self.bin_width, 0)), // [C12] starts at min + 0*width
            // coverage: every value between the first computed edge and the data maximum falls in a bin
            forall|v: T| le(edge_at(self.min, self.bin_width, 0), v) && le(v, self.max) ==> exists|i: int| #[trigger] in_bin(r.edges.edges@, i, v), // [C12]
//@at entry
        let ghost m = choose|m: usize| eq_pre(*self, m);
//@loop 0
            invariant
                eq_pre(*self, m), n_bins < usize::MAX, n_bins <= m || true,
                forall|k: usize| k <= n_bins ==> (#[trigger] T::from_usize_spec(k)).is_some(),
                edges@.len() == i, // [C12]
                forall|k: int| 0 <= k < edges@.len() ==> #[trigger] edges@[k] == edge_at(self.min, self.bin_width, k as usize), // [C12]
//@at after_loop 0
        proof {
            let pre = edges@;
            assert(pre.len() == n_bins + 1);
            assert(pre[0] == edge_at(self.min, self.bin_width, 0));
            assert(pre[n_bins as int] == edge_at(self.min, self.bin_width, n_bins));
            assert(pre.contains(pre[0]));
            assert(pre.contains(pre[n_bins as int]));
        }
        let ghost pre = edges@;
//@at after_call new 0
        proof {
            let e = __r.edges.edges@;
            let lo = edge_at(self.min, self.bin_width, 0);
            let hi = edge_at(self.min, self.bin_width, n_bins);
            assert(e.contains(lo));
            assert(e.contains(hi));
            lemma_ss_bounds(e, lo);
            lemma_ss_bounds(e, hi);
            reveal(lawful_ord);
            assert forall|v: T| le(lo, v) && le(v, self.max) implies exists|i: int| #[trigger] in_bin(e, i, v) by {
                assert(le(e[0], v));
                assert(lt(v, e[e.len() - 1])) by {
                    if !lt(v, e[e.len() - 1]) { assert(le(e[e.len() - 1], v)); assert(le(hi, v)); assert(le(hi, self.max)); }
                }
                lemma_cover(e, v);
            }
        }
//@end
}

} // verus!
fn main() {}
