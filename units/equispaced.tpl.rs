// unit `equispaced`: src/histogram/strategies.rs — EquiSpaced::{new, n_bins, build} (C12, C17)
#![feature(allocator_api)]
#![allow(unused_imports, unused_variables, unused_mut, dead_code)]
use vstd::prelude::*;
use core::cmp::Ordering;
use vstd::std_specs::cmp::{OrdSpec, PartialOrdSpec, PartialEqSpec};
use vstd::std_specs::ops::*;
use std::alloc::Allocator;
use std::ops::{Add, Sub, Mul, Div, Range};
verus! {
//@include ../shim/order.rs
//@include ../shim/lane.rs
//@include ../shim/slices.rs
//@include ../shim/bins_types.rs
//@include ../shim/num.rs
//@include parts/edges_from.part.rs
impl<A: Ord> Bins<A> {
//@include parts/bins_new.part.rs
}

pub open spec fn eq_pre<T: Ord + Clone + NumOps + FromPrimitive>(s: EquiSpaced<T>, m: usize) -> bool {
    &&& lawful_ord::<T>() && lawful_clone::<T>() && num_ok::<T>()
    &&& m < usize::MAX
    &&& forall|i: usize| i <= m ==> #[trigger] edge_defined(s.min, s.bin_width, i)
    // the edges eventually pass the maximum (for integer types: whenever max + width is representable)
    &&& lt(s.max, edge_at(s.min, s.bin_width, m))
}

// A-NUM-MONO (a hypothesis of the conditional clauses only): the concrete arithmetic separates consecutive
// edges (min + (i+1)*w > min + i*w) and min + 0*w == min.  True for integer types as long as nothing overflows,
// and for floats as long as the width is not absorbed by the magnitude of the edges - the caveat of C12.
pub open spec fn arith_mono<T: Ord + Clone + NumOps + FromPrimitive>(s: EquiSpaced<T>, b: usize) -> bool {
    &&& edge_at(s.min, s.bin_width, 0) == s.min
    &&& forall|i: usize| i < b ==> lt(#[trigger] edge_at(s.min, s.bin_width, i), edge_at(s.min, s.bin_width, (i + 1) as usize))
}
pub open spec fn edges_upto<T: NumOps + FromPrimitive>(min: T, w: T, n: usize) -> Seq<T> { Seq::new((n + 1) as nat, |i: int| edge_at(min, w, i as usize)) }

pub proof fn lemma_edges_strict<T: Ord + Clone + NumOps + FromPrimitive>(s: EquiSpaced<T>, n: usize, bb: usize)
    requires lawful_ord::<T>(), arith_mono(s, bb), n <= bb, n < usize::MAX
    ensures strictly_sorted(edges_upto(s.min, s.bin_width, n))
{
    reveal(strictly_sorted);
    let e = edges_upto(s.min, s.bin_width, n);
    assert forall|a: int, b: int| 0 <= a < b < e.len() implies lt(e[a], e[b]) by { lemma_edge_lt(s, a as usize, b as usize, bb); }
}
pub proof fn lemma_edge_lt<T: Ord + Clone + NumOps + FromPrimitive>(s: EquiSpaced<T>, a: usize, b: usize, bb: usize)
    requires lawful_ord::<T>(), arith_mono(s, bb), a < b <= bb
    ensures lt(edge_at(s.min, s.bin_width, a), edge_at(s.min, s.bin_width, b))
    decreases b - a
{
    reveal(lawful_ord);
    if a + 1 < b {
        lemma_edge_lt(s, a, (b - 1) as usize, bb);
        assert(lt(edge_at(s.min, s.bin_width, (b - 1) as usize), edge_at(s.min, s.bin_width, b)));
        let (x, y, z) = (edge_at(s.min, s.bin_width, a), edge_at(s.min, s.bin_width, (b - 1) as usize), edge_at(s.min, s.bin_width, b));
        assert(le(x, y) && le(y, z));
        assert(le(x, z));
        if !lt(x, z) { assert(le(z, x)); assert(le(z, y)); }
    } else {
        assert(b == a + 1);
    }
}

impl<T> EquiSpaced<T>
where
    T: Ord + Clone + FromPrimitive + NumOps + Zero,
{
//@extract file=src/histogram/strategies.rs impl=EquiSpaced fn=new id=EquiSpaced::new tags=C12,C17
//@sig
    fn new(bin_width: T, min: T, max: T) -> (r: Result<Self, BinsBuildError>)
//@spec
        requires lawful_ord::<T>(),
        ensures
            r.is_err() <==> (le(bin_width, T::zero_spec()) || le(max, min)), // [C12,C17] constant data / non-positive width are rejected ...
            r.is_err() ==> r == Err::<Self, BinsBuildError>(BinsBuildError::Strategy), // [C12,C17] ... with the Strategy error
            r matches Ok(s) ==> s.bin_width == bin_width && s.min == min && s.max == max, // [C12]
//@at entry
        proof { reveal(lawful_ord); }
//@end

//@extract file=src/histogram/strategies.rs impl=EquiSpaced fn=n_bins id=EquiSpaced::n_bins tags=C12
//@sig
    fn n_bins(&self) -> (n: usize)
//@spec
        requires exists|m: usize| eq_pre(*self, m),
        ensures
            n < usize::MAX,
            forall|m2: usize| #[trigger] eq_pre(*self, m2) ==> n <= m2, // [C12]
            lt(self.max, edge_at(self.min, self.bin_width, n)), // [C12] the n-th edge of `build` lies strictly above the maximum
            forall|i: usize| i < n ==> le(#[trigger] edge_at(self.min, self.bin_width, i), self.max), // [C12] ... and it is the first one that does (at most one width above)
//@at entry
        let ghost m = choose|m: usize| eq_pre(*self, m);
        proof { reveal(lawful_ord); }
//@loop 0
            invariant
                eq_pre(*self, m), ord_laws::<T>(),
                n_bins <= m, // [C12]
                edge_defined(self.min, self.bin_width, n_bins),
                forall|i: usize| i < n_bins ==> le(#[trigger] edge_at(self.min, self.bin_width, i), self.max), // [C12]
            ensures
                lt(self.max, edge_at(self.min, self.bin_width, n_bins)), // [C12] (stated as a loop postcondition so that `loop { if c {..} else { break } }` forms verify too)
            decreases m - n_bins
//@end

//@extract file=src/histogram/strategies.rs impl=EquiSpaced fn=build id=EquiSpaced::build tags=C12
//@sig
    fn build(&self) -> (r: Bins<T>)
//@spec
        requires exists|m: usize| eq_pre(*self, m), eq_is_ord_equal::<T>(),
        ensures
            edges_wf(r.edges), // [C12,C13]
            r.edges.edges@.contains(edge_at(self.min, self.bin_width, 0)), // [C12] starts at min + 0*width
            // coverage: every value between the first computed edge and the data maximum falls in a bin
            forall|v: T| le(edge_at(self.min, self.bin_width, 0), v) && le(v, self.max) ==> exists|i: int| #[trigger] in_bin(r.edges.edges@, i, v), // [C12]
            // under A-NUM-MONO: the bins start exactly at the minimum, the edges are exactly min + i*width for i = 0..=n with n the
            // advertised number of bins (nothing is merged), and they end strictly above the maximum by at most one bin
            forall|bb: usize| #[trigger] eq_pre(*self, bb) && arith_mono(*self, bb) ==> exists|n: usize| n <= bb && #[trigger] edges_upto(self.min, self.bin_width, n) == r.edges.edges@
                && r.edges.edges@[0] == self.min && lt(self.max, edge_at(self.min, self.bin_width, n))
                && forall|i: usize| i < n ==> le(#[trigger] edge_at(self.min, self.bin_width, i), self.max), // [C12]
//@at entry
        let ghost m = choose|m: usize| eq_pre(*self, m);
//@loop 0
            invariant
                eq_pre(*self, m), n_bins < usize::MAX, n_bins <= m || true,
                forall|k: usize| k <= n_bins ==> #[trigger] edge_defined(self.min, self.bin_width, k),
                i <= n_bins ==> edge_defined(self.min, self.bin_width, i),
                edges@.len() == i, // [C12]
                forall|k: int| 0 <= k < edges@.len() ==> #[trigger] edges@[k] == edge_at(self.min, self.bin_width, k as usize), // [C12]
//@at after_loop 0
        proof {
            let pre = edges@;
            assert(pre.len() == n_bins + 1);
            assert(pre[0] == edge_at(self.min, self.bin_width, 0));
            assert(pre[n_bins as int] == edge_at(self.min, self.bin_width, n_bins));
            assert(pre.contains(pre[0]));
            assert(pre.contains(pre[n_bins as int]));
        }
        let ghost pre = edges@;
        proof {
            assert(pre =~= edges_upto(self.min, self.bin_width, n_bins));
            assert forall|bb: usize| #[trigger] eq_pre(*self, bb) && arith_mono(*self, bb) implies strictly_sorted(pre) by { lemma_edges_strict(*self, n_bins, bb); }
        }
//@at after_call new 0
        proof {
            assert forall|bb: usize| #[trigger] eq_pre(*self, bb) && arith_mono(*self, bb) implies
                (n_bins <= bb && edges_upto(self.min, self.bin_width, n_bins) == __r.edges.edges@ && __r.edges.edges@[0] == self.min) by {
                assert(strictly_sorted(pre));
                assert(__r.edges.edges@ == pre);
                assert(pre[0] == edge_at(self.min, self.bin_width, 0));
            }
            let e = __r.edges.edges@;
            let lo = edge_at(self.min, self.bin_width, 0);
            let hi = edge_at(self.min, self.bin_width, n_bins);
            assert(e.contains(lo));
            assert(e.contains(hi));
            lemma_ss_bounds(e, lo);
            lemma_ss_bounds(e, hi);
            reveal(lawful_ord);
            assert forall|v: T| le(lo, v) && le(v, self.max) implies exists|i: int| #[trigger] in_bin(e, i, v) by {
                assert(le(e[0], v));
                assert(lt(v, e[e.len() - 1])) by {
                    if !lt(v, e[e.len() - 1]) { assert(le(e[e.len() - 1], v)); assert(le(hi, v)); assert(le(hi, self.max)); }
                }
                lemma_cover(e, v);
            }
        }
//@end
}

// ---- non-vacuity of the hypotheses: they hold for a concrete i64 builder (proved) ----------------------
impl NumOps for i64 {}
impl FromPrimitive for i64 {
    open spec fn from_usize_spec(n: usize) -> Option<i64> { if n <= 0x7fff_ffff { Some(n as i64) } else { None } }
    fn from_usize(n: usize) -> (r: Option<i64>) { if n <= 0x7fff_ffff { Some(n as i64) } else { None } }
    uninterp spec fn from_f64_spec(x: f64) -> Option<i64>;
    #[verifier::external_body]
    fn from_f64(x: f64) -> (r: Option<i64>) { unimplemented!() }
}
pub proof fn lemma_hypotheses_satisfiable()
    ensures ({
        let s = EquiSpaced::<i64> { bin_width: 2i64, min: (-3i64), max: 4i64 };
        eq_pre(s, 4) && arith_mono(s, 4) && eq_is_ord_equal::<i64>()
    })
{
    reveal(lawful_ord);
    let s = EquiSpaced::<i64> { bin_width: 2i64, min: (-3i64), max: 4i64 };
    assert(edge_at(s.min, s.bin_width, 0) == -3i64);
    assert(edge_at(s.min, s.bin_width, 1) == -1i64);
    assert(edge_at(s.min, s.bin_width, 2) == 1i64);
    assert(edge_at(s.min, s.bin_width, 3) == 3i64);
    assert(edge_at(s.min, s.bin_width, 4) == 5i64);
    assert(lawful_clone::<i64>());
    assert(num_ok::<i64>());
}

} // verus!
fn main() {}
