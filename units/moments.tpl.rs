// unit `moments`: src/summary_statistics/means.rs — weighted variance / standard deviation (West's recurrence),
// central moments of order 0 and 1, Horner evaluation (C07), under the exact-arithmetic reading A-REAL
#![allow(unused_imports, unused_variables, unused_mut, dead_code, unused_braces)]
use vstd::prelude::*;
use core::cmp::Ordering;
use std::cmp;
use vstd::std_specs::cmp::{OrdSpec, PartialOrdSpec, PartialEqSpec};
use vstd::std_specs::ops::*;
use std::ops::{Add, Sub, Mul, Div, Neg, AddAssign};
verus! {
//@include ../shim/order.rs
//@include ../shim/ndarr.rs
//@include ../shim/zip.rs
//@include ../shim/realnum.rs
//@include ../shim/axes.rs
//@include ../shim/iterchain.rs

// one step of West's recurrence, in exact arithmetic:
// from  m*W == P  and  S == Q - m^2 W  to the same facts for the sums extended by the observation (x, w), W + w != 0
pub proof fn lemma_west_step(wt: real, m: real, s: real, p: real, q: real, x: real, w: real, t: real, m2: real, s2: real)
    requires
        m * wt == p, s == q - m * m * wt,
        t * (wt + w) == w,
        m2 == m + t * (x - m),
        s2 == s + w * (x - m) * (x - m2),
    ensures
        m2 * (wt + w) == p + w * x,
        s2 == (q + w * (x * x)) - m2 * m2 * (wt + w),
{
    let d = x - m;
    let w2 = wt + w;
    let td = t * d;
    // goal 1
    rl_dist(w2, m, td);            // (m + td) * w2 == m*w2 + td*w2
    rl_dist(m, wt, w);             // m*(wt+w) == m*wt + m*w
    rl_assoc(t, d, w2); rl_assoc(d, t, w2); rl_assoc(t, d, 1real);   // (t*d)*w2 == t*(d*w2); t*d == d*t; (d*t)*w2 == d*(t*w2)
    rl_congr(t * d, d * t, w2);
    rl_congr(t * w2, w, d);        // d*(t*w2) == d*w
    assert(td * w2 == d * w);
    rl_dist(w, x, m);              // w*(x-m) == w*x - w*m
    rl_assoc(d, w, 1real); rl_assoc(m, w, 1real);
    assert(m2 * w2 == p + w * x);
    // goal 2:  s2 - s == w*d*e,  e = x - m2 = d - td
    let e = x - m2;
    assert(e == d - td);
    // need: w*d*e == w*(x*x) + m*m*wt - m2*m2*w2
    let p2 = p + w * x;
    rl_assoc(m2, m2, w2);          // m2*m2*w2 == m2*(m2*w2)
    rl_congr(m2 * w2, p2, m2);     // m2*(m2*w2) == m2*p2
    rl_dist(m2, p, w * x);         // m2*p2 == m2*p + m2*(w*x)
    // m*m*wt == m*p
    rl_assoc(m, m, wt); rl_congr(m * wt, p, m);
    assert(m * m * wt == m * p);
    // w*d*e == (w*d)*x - (w*d)*m2 ; w*d == w*x - w*m
    rl_dist(w * d, x, m2);
    assert(w * d * e == (w * d) * x - (w * d) * m2);
    rl_dist(x, w * x, w * m); rl_dist(m2, w * x, w * m);
    assert((w * d) * x == (w * x) * x - (w * m) * x);
    assert((w * d) * m2 == (w * x) * m2 - (w * m) * m2);
    rl_assoc(w, x, x); rl_assoc(w, x, m2); rl_assoc(m2, w * x, 1real);
    // remaining: (w*m)*m2 - (w*m)*x == m*p - m2*p   i.e.  (w*m)*(m2 - x) == p*(m - m2)
    // m2 - m == td ; x - m2 == e == d - td
    rl_dist(w * m, m2, x); rl_dist(p, m, m2);
    assert((w * m) * m2 - (w * m) * x == (w * m) * (m2 - x));
    assert(m * p - m2 * p == p * (m - m2)) by { rl_assoc(m, p, 1real); rl_assoc(m2, p, 1real); }
    // (w*m)*(td - d) == -p*td  <=  m*(w*td - w*d + wt*td) == 0  <= w*td + wt*td == w2*td == d*w
    assert(m2 - x == td - d);
    assert(m - m2 == -td);
    rl_dist(w * m, td, d);
    rl_assoc(w, m, td); rl_assoc(w, m, d); rl_assoc(m, w, td); rl_assoc(m, w, d); rl_assoc(m, w, 1real);
    rl_dist(td, wt, w);            // td*(wt+w) == td*wt + td*w
    rl_assoc(td, w2, 1real);
    assert(td * wt + td * w == d * w);
    // p*(-td) == -(m*wt)*td
    rl_assoc(m, wt, td); rl_congr(m * wt, p, td);
    rl_dist(m, td * wt, td * w);
    rl_assoc(td, wt, 1real); rl_assoc(td, w, 1real); rl_assoc(w, td, 1real); rl_assoc(w, d, 1real);
    assert(p * td == m * (wt * td));
    assert(m * (d * w) == m * (td * wt) + m * (td * w));
    assert((w * m) * td == m * (w * td));
    assert((w * m) * d == m * (w * d));
    rl_neg(p, td);
    assert((w * m) * (td - d) == p * (-td));
}

// the accumulated (W, m, S) of West's recurrence determine the variance of the definition
pub proof fn lemma_west_final(x: Seq<real>, w: Seq<real>, wt: real, m: real, s: real, ddof: real)
    requires
        x.len() == w.len(),
        wt == wpsum(x, w, 0, x.len() as int), wt != 0real,
        m * wt == wpsum(x, w, 1, x.len() as int),
        s == wpsum(x, w, 2, x.len() as int) - m * m * wt,
    ensures
        m == wmean_def(x, w),
        s == wdev2(x, w, wmean_def(x, w), x.len() as int),
        wt - ddof != 0real ==> s / (wt - ddof) == wvar_def(x, w, ddof),
{
    let n = x.len() as int;
    let p = wpsum(x, w, 1, n);
    rl_div_unique(m, wt, p);
    lemma_wdev2_expand(x, w, m, n);
    // m*p == m*m*wt
    rl_congr(p, m * wt, m); rl_assoc(m, m, wt);
    assert(m * p == m * m * wt);
}

//@extract file=src/summary_statistics/means.rs fn=inner_weighted_var id=inner_weighted_var tags=C07 body_tags=C07
//@sig
fn inner_weighted_var<A, D>(arr: &ArrayN<A, D>, weights: &ArrayN<A, D>, ddof: A, zero: A) -> (r: Result<A, MultiInputError>)
where
    A: AddAssign + Float + FromPrimitive,
    D: Dimension,
//@spec
    requires
        real_model::<A>(), real_add_assign::<A>(),
        arr@.len() == weights@.len(), zero.val() == 0real,
        forall|i: int| 0 <= i < weights@.len() ==> (#[trigger] weights@[i]).val() >= 0real, // non-negative weights
    ensures
        r is Ok, // [C07,C17]
        // sum w (x - xbar_w)^2 / (sum w - ddof), xbar_w = sum w x / sum w, whenever the total weight is positive
        ({ let xs = vals(arr@); let ws = vals(weights@); let wt = wpsum(xs, ws, 0, xs.len() as int);
           wt > 0real && wt - ddof.val() != 0real ==> r->Ok_0.val() == wvar_def(xs, ws, ddof.val()) }), // [C07]
        // ... which is non-negative for ddof below the total weight
        ({ let xs = vals(arr@); let ws = vals(weights@); let wt = wpsum(xs, ws, 0, xs.len() as int);
           wt > 0real && wt - ddof.val() > 0real ==> r->Ok_0.val() >= 0real }), // [C07]
//@at entry
    let ghost xs = vals(arr@); let ghost ws = vals(weights@);
    let ghost mut idx_g: int = 0;
//@loop 0 iter=it hoist=1
        invariant
            real_model::<A>(), real_add_assign::<A>(), zero.val() == 0real,
            xs == vals(arr@), ws == vals(weights@), xs.len() == ws.len(),
            forall|i: int| 0 <= i < ws.len() ==> #[trigger] ws[i] >= 0real,
            it.seq() == __its0, __its0.len() == xs.len(), idx_g == it.index@, idx_g <= xs.len(),
            forall|k: int| 0 <= k < __its0.len() ==> *(#[trigger] __its0[k]).0 == arr@[k] && *__its0[k].1 == weights@[k],
            weight_sum.val() == wpsum(xs, ws, 0, idx_g), // [C07]
            mean.val() * weight_sum.val() == wpsum(xs, ws, 1, idx_g), // [C07]
            s.val() == wpsum(xs, ws, 2, idx_g) - mean.val() * mean.val() * weight_sum.val(), // [C07]
//@at loop_start 0
        let ghost (wt0, m0, s0) = (weight_sum.val(), mean.val(), s.val());
        proof {
            assert(x == arr@[idx_g] && w == weights@[idx_g]);
            assert(x.val() == xs[idx_g] && w.val() == ws[idx_g]);
        }
//@at loop_end 0
        proof {
            let xv = xs[idx_g]; let wv = ws[idx_g];
            lemma_rpow_small(xv);
            let p0 = wpsum(xs, ws, 1, idx_g); let q0 = wpsum(xs, ws, 2, idx_g);
            assert(wpsum(xs, ws, 0, idx_g + 1) == wt0 + wv);
            assert(wpsum(xs, ws, 1, idx_g + 1) == p0 + wv * xv);
            assert(wpsum(xs, ws, 2, idx_g + 1) == q0 + wv * (xv * xv));
            assert(weight_sum.val() == wt0 + wv);
            if wv != 0real {
                lemma_wpsum0_nonneg(xs, ws, idx_g + 1);
                assert(wt0 + wv != 0real);
                let t = wv / (wt0 + wv);
                rl_div_mul(wv, wt0 + wv);
                lemma_west_step(wt0, m0, s0, p0, q0, xv, wv, t, mean.val(), s.val());
            } else {
                // an observation of zero weight leaves (W, m, S) as they were
                assert(mean.val() == m0);
                assert(s.val() == s0 + 0real * (xv - m0) * (xv - m0));
            }
            idx_g = idx_g + 1;
        }
//@at after_loop 0
    proof {
        assert(idx_g == xs.len());
        let wt = weight_sum.val();
        if wt > 0real {
            lemma_west_final(xs, ws, wt, mean.val(), s.val(), ddof.val());
            if wt - ddof.val() > 0real {
                lemma_wdev2_nonneg(xs, ws, wmean_def(xs, ws), xs.len() as int);
                rl_div_nonneg(s.val(), wt - ddof.val());
            }
        }
    }
//@end

//@extract file=src/summary_statistics/means.rs fn=horner_method id=horner_method tags=C07 body_tags=C07
//@sig
fn horner_method<A>(coefficients: Vec<A>, indeterminate: A) -> (r: A)
where
    A: Float,
//@spec
    requires real_model::<A>(),
    ensures
        r.val() == horner_from(vals(coefficients@), 0, indeterminate.val()), // [C07]
        // = c_0 + c_1 z + c_2 z^2 + ...
        r.val() == poly_from(vals(coefficients@), 0, indeterminate.val(), coefficients@.len() as int), // [C07]
//@at entry
    let ghost cs = vals(coefficients@); let ghost z = indeterminate.val(); let ghost n = cs.len() as int;
    let ghost c0 = coefficients@;
    let ghost mut idx_g: int = 0;
//@loop 0 iter=it hoist=1
        invariant
            real_model::<A>(), z == indeterminate.val(), cs == vals(c0), n == cs.len(),
            it.seq() == __its0, __its0 == c0.reverse(), idx_g == it.index@, 0 <= idx_g <= n,
            result.val() == horner_from(cs, n - idx_g, z), // [C07]
//@at loop_end 0
        proof {
            assert(coefficient == c0.reverse()[idx_g]);
            assert(c0.reverse()[idx_g] == c0[n - 1 - idx_g]);
            assert(coefficient.val() == cs[n - 1 - idx_g]);
            idx_g = idx_g + 1;
        }
//@at after_loop 0
    proof { lemma_horner_is_poly(cs, 0, z); }
//@end

impl<A, D: Dimension> ArrayN<A, D> {
//@extract file=src/summary_statistics/means.rs impl=SummaryStatisticsExt:ArrayBase fn=weighted_var id=weighted_var tags=C07,C17 body_tags=C07 macro_into=verif_into_same
//@sig
    fn weighted_var(&self, weights: &Self, ddof: A) -> (r: Result<A, MultiInputError>)
    where
        A: AddAssign + Float + FromPrimitive,
//@spec
        requires
            real_model::<A>(), real_add_assign::<A>(), real_from_usize::<A>(),
            0real <= ddof.val() <= 1real, // outside this range the routine panics (by design)
            forall|i: int| 0 <= i < weights@.len() ==> (#[trigger] weights@[i]).val() >= 0real,
        ensures
            self@.len() == 0 ==> r matches Err(MultiInputError::EmptyInput), // [C07,C17]
            self@.len() > 0 && self.shape_spec() != weights.shape_spec() ==> (r matches Err(MultiInputError::ShapeMismatch(sm)) && sm.first_shape@ == self.shape_spec() && sm.second_shape@ == weights.shape_spec()), // [C07,C17]
            self@.len() > 0 && self.shape_spec() == weights.shape_spec() ==> r is Ok, // [C07,C17]
            ({ let xs = vals(self@); let ws = vals(weights@); let wt = wpsum(xs, ws, 0, xs.len() as int);
               self@.len() > 0 && self.shape_spec() == weights.shape_spec() && wt > 0real && wt - ddof.val() != 0real
                   ==> r->Ok_0.val() == wvar_def(xs, ws, ddof.val()) }), // [C07]
            ({ let xs = vals(self@); let ws = vals(weights@); let wt = wpsum(xs, ws, 0, xs.len() as int);
               self@.len() > 0 && self.shape_spec() == weights.shape_spec() && wt > 0real && wt - ddof.val() > 0real
                   ==> r->Ok_0.val() >= 0real }), // [C07]
//@at entry
        proof { assert(lawful_clone::<usize>()); }
//@at before_call inner_weighted_var 0
        proof { assert(self.shape_spec() =~= weights.shape_spec()); axiom_len_of_shape(self, weights); }
//@end

//@extract file=src/summary_statistics/means.rs impl=SummaryStatisticsExt:ArrayBase fn=weighted_std id=weighted_std tags=C07,C17 body_tags=C07
//@sig
    fn weighted_std(&self, weights: &Self, ddof: A) -> (r: Result<A, MultiInputError>)
    where
        A: AddAssign + Float + FromPrimitive,
//@spec
        requires
            real_model::<A>(), real_add_assign::<A>(), real_from_usize::<A>(),
            0real <= ddof.val() <= 1real,
            forall|i: int| 0 <= i < weights@.len() ==> (#[trigger] weights@[i]).val() >= 0real,
        ensures
            self@.len() == 0 ==> r matches Err(MultiInputError::EmptyInput), // [C07,C17]
            self@.len() > 0 && self.shape_spec() != weights.shape_spec() ==> (r matches Err(MultiInputError::ShapeMismatch(sm)) && sm.first_shape@ == self.shape_spec() && sm.second_shape@ == weights.shape_spec()), // [C07,C17]
            self@.len() > 0 && self.shape_spec() == weights.shape_spec() ==> r is Ok, // [C07,C17]
            // the square root of the weighted variance
            ({ let xs = vals(self@); let ws = vals(weights@); let wt = wpsum(xs, ws, 0, xs.len() as int);
               self@.len() > 0 && self.shape_spec() == weights.shape_spec() && wt > 0real && wt - ddof.val() != 0real
                   ==> r->Ok_0.val() == sqrt_r(wvar_def(xs, ws, ddof.val())) }), // [C07]
//@end
}

// num_integer::IterBinomial::new(n): the binomial coefficients C(n, 0), ..., C(n, n) (A-ITER; machine overflow of the
// coefficients is not modelled)
pub struct IterBinomial { pub _p: () }
impl IterBinomial {
    #[verifier::external_body]
    pub fn new(n: usize) -> (r: SeqIter<usize>)
        ensures r.items@.len() == n + 1, forall|k: int| 0 <= k <= n ==> #[trigger] r.items@[k] == binom(n as nat, k as nat)
    { unimplemented!() }
}

//@extract file=src/summary_statistics/means.rs fn=central_moment_coefficients id=central_moment_coefficients tags=C07 body_tags=C07
//@sig
fn central_moment_coefficients<A>(moments: &[A]) -> (r: Vec<A>)
where
    A: Float + FromPrimitive,
//@spec
    requires real_model::<A>(), real_from_usize::<A>(),
    ensures r@.len() == moments@.len(), // [C07]
        // coefficient k of the expansion of order p = len - 1 around the mean is C(p, k) * m_{p-k}
        forall|k: int| 0 <= k < r@.len() ==> (#[trigger] r@[k]).val() == (binom((moments@.len() - 1) as nat, k as nat) as real) * moments@[moments@.len() - 1 - k].val(), // [C07]
//@rename_call iter verif_iter
//@closure 0
|binom: usize, moment_ref: &A| -> (c: A) ensures c.val() == (binom as real) * (*moment_ref).val()
let moment = *moment_ref;
//@end

//@extract file=src/summary_statistics/means.rs fn=moments id=moments tags=C07 body_tags=C07
//@sig
fn moments<A, D>(a: ArrayN<A, D>, order: u16) -> (r: Vec<A>)
where
    A: Float + FromPrimitive,
    D: Dimension,
//@spec
    requires real_model::<A>(), real_from_usize::<A>(), a@.len() > 0, a@.len() <= usize::MAX,
    ensures
        r@.len() == order as int + 1, // [C07]
        r@[0].val() == 1real, // [C07]
        // the p-th entry is (1/n) sum x_i^p
        forall|p: int| 1 <= p <= order as int ==> (#[trigger] r@[p]).val() == ppsum(vals(a@), p as nat, a@.len() as int) / (a@.len() as real), // [C07]
//@closure 0
|x: &A| -> (y: A) ensures k >= 0 ==> y.val() == rpow((*x).val(), k as nat)
//@at entry
    let ghost xs = vals(a@); let ghost n = a@.len() as int; let ghost order0 = order;
//@at after_call sum 0
    proof { lemma_psum_is_ppsum1(xs, n); }
//@loop 0 iter=it halfopen=1
        invariant
            real_model::<A>(), real_from_usize::<A>(), xs == vals(a@), n == a@.len(), n > 0, n_elements.val() == n as real,
            order == order0 as i32, 0 <= order <= 65535, order >= 1 ==> moments@.len() == 2 + it.index@, order < 1 ==> moments@.len() == 1,
            moments@[0].val() == 1real,
            forall|p: int| 1 <= p < moments@.len() ==> (#[trigger] moments@[p]).val() == ppsum(xs, p as nat, n) / (n as real), // [C07]
//@at loop_start 0
        proof {
            assert(k == 2 + it.index@);
            // whatever array holds the k-th powers, its sum is the k-th power sum
            assert forall|y: Seq<real>| y.len() == n && (forall|i: int| 0 <= i < n ==> #[trigger] y[i] == rpow(xs[i], k as nat)) implies #[trigger] rsum(y) == ppsum(xs, k as nat, n) by {
                lemma_psum_pointwise(y, xs, k as nat, n);
            }
        }
//@end

impl<A, D: Dimension> ArrayN<A, D> {
//@extract file=src/summary_statistics/means.rs impl=SummaryStatisticsExt:ArrayBase fn=central_moment id=central_moment tags=C07,C17 body_tags=C07
//@sig
    fn central_moment(&self, order: u16) -> (r: Result<A, MinMaxError>)
    where
        A: Float + FromPrimitive,
//@spec
        requires real_model::<A>(), real_from_usize::<A>(), self@.len() <= usize::MAX,
        ensures
            self@.len() == 0 ==> r matches Err(MinMaxError::EmptyInput), // [C07,C17]
            self@.len() > 0 ==> r is Ok, // [C07,C17]
            self@.len() > 0 && order == 0 ==> r->Ok_0 == A::one_spec(), // [C07] exactly one
            self@.len() > 0 && order == 1 ==> r->Ok_0 == A::zero_spec(), // [C07] exactly zero
            // (1/n) sum (x_i - xbar)^p
            self@.len() > 0 ==> r->Ok_0.val() == cmoment_def(vals(self@), order as nat), // [C07]
//@closure 0
|x: A| -> (y: A) ensures y.val() == x.val() - mean.val()
//@at entry
        proof { if self@.len() > 0 { lemma_cmoment_01(vals(self@)); } }
//@at after_let shifted_array 0
                proof {
                    let xs = vals(self@); let ys = vals(shifted_array@); let mu = mean.val(); let cnt = self@.len() as int;
                    assert forall|i: int| 0 <= i < cnt implies #[trigger] ys[i] == xs[i] - mu by { }
                    lemma_shift_sum(xs, ys, mu, cnt);
                    rl_div_mul(rsum(xs), cnt as real);
                    rl_assoc(mu, cnt as real, 1real);
                    lemma_psum_is_ppsum1(ys, cnt);
                    assert(ppsum(ys, 1, cnt) == 0real);
                    lemma_devp_shift(xs, ys, mu, order as nat, cnt);
                    rl_zero(cnt as real);
                }
//@at after_let correction_term 0
                proof { assert(correction_term.val() == 0real); }
//@at after_call horner_method 0
                proof {
                    let cs = vals(coefficients@);
                    rl_zero(horner_from(cs, 1, 0real));
                    assert(binom((coefficients@.len() - 1) as nat, 0) == 1);
                    assert(cs[0] == 1real * shifted_moments@[order as int].val());
                }
//@end
}

impl<A, D: Dimension> ArrayN<A, D> {
//@extract file=src/summary_statistics/means.rs impl=SummaryStatisticsExt:ArrayBase fn=central_moments id=central_moments tags=C07,C17,C18 body_tags=C07
//@sig
    fn central_moments(&self, order: u16) -> (r: Result<Vec<A>, MinMaxError>)
    where
        A: Float + FromPrimitive,
//@spec
        requires real_model::<A>(), real_from_usize::<A>(), self@.len() <= usize::MAX,
            order < u16::MAX, // artefact of R15 (`2..=n` is read as `2..n+1`)
        ensures
            self@.len() == 0 ==> r matches Err(MinMaxError::EmptyInput), // [C07,C17]
            self@.len() > 0 ==> r is Ok, // [C07,C17]
            self@.len() > 0 ==> r->Ok_0@.len() == order as int + 1, // [C07]
            self@.len() > 0 ==> r->Ok_0@[0] == A::one_spec() && (order >= 1 ==> r->Ok_0@[1] == A::zero_spec()), // [C07] exactly one / zero
            self@.len() > 0 ==> forall|p: int| 0 <= p <= order as int ==> (#[trigger] r->Ok_0@[p]).val() == cmoment_def(vals(self@), p as nat), // [C07,C18] the same value central_moment(p) is proved to return
//@closure 0
|x: A| -> (y: A) ensures y.val() == x.val() - mean.val()
//@at entry
        proof { if self@.len() > 0 { lemma_cmoment_01(vals(self@)); } }
        let ghost xs = vals(self@); let ghost cnt = self@.len() as int;
//@at after_let shifted_array 0
                let ghost ys = vals(shifted_array@); let ghost mu = mean.val();
                proof {
                    assert forall|i: int| 0 <= i < cnt implies #[trigger] ys[i] == xs[i] - mu by { }
                    lemma_shift_sum(xs, ys, mu, cnt);
                    rl_div_mul(rsum(xs), cnt as real);
                    rl_assoc(mu, cnt as real, 1real);
                    lemma_psum_is_ppsum1(ys, cnt);
                    assert(ppsum(ys, 1, cnt) == 0real);
                    rl_zero(cnt as real);
                    assert forall|p: nat| #[trigger] devp(xs, mu, p, cnt) == ppsum(ys, p, cnt) by { lemma_devp_shift(xs, ys, mu, p, cnt); }
                }
//@at after_let correction_term 0
                proof { assert(correction_term.val() == 0real); }
//@loop 0 iter=it halfopen=1
                    invariant
                        real_model::<A>(), real_from_usize::<A>(), xs == vals(self@), cnt == self@.len(), cnt > 0, mu == mean_def(xs),
                        n == order, n < u16::MAX, correction_term.val() == 0real,
                        shifted_moments@.len() == n as int + 1,
                        forall|p: int| 1 <= p <= n as int ==> (#[trigger] shifted_moments@[p]).val() == ppsum(ys, p as nat, cnt) / (cnt as real),
                        forall|p: nat| #[trigger] devp(xs, mu, p, cnt) == ppsum(ys, p, cnt),
                        central_moments@.len() == 2 + it.index@,
                        central_moments@[0] == A::one_spec(), central_moments@[1] == A::zero_spec(),
                        forall|p: int| 0 <= p < central_moments@.len() ==> (#[trigger] central_moments@[p]).val() == cmoment_def(xs, p as nat), // [C07]
//@at loop_start 0
                    proof { assert(k == 2 + it.index@); }
//@at after_let central_moment 0
                    proof {
                        let cs = vals(coefficients@);
                        rl_zero(horner_from(cs, 1, 0real));
                        assert(binom((coefficients@.len() - 1) as nat, 0) == 1);
                        assert(cs[0] == 1real * shifted_moments@[k as int].val());
                        assert(central_moment.val() == cmoment_def(xs, k as nat));
                    }
//@end
}

impl<A, D: Dimension> ArrayN<A, D> {
//@extract file=src/summary_statistics/means.rs impl=SummaryStatisticsExt:ArrayBase fn=kurtosis id=kurtosis tags=C07,C17 body_tags=C07
//@sig
    fn kurtosis(&self) -> (r: Result<A, MinMaxError>)
    where
        A: Float + FromPrimitive,
//@spec
        requires real_model::<A>(), real_from_usize::<A>(), self@.len() <= usize::MAX,
        ensures
            self@.len() == 0 ==> r matches Err(MinMaxError::EmptyInput), // [C07,C17]
            self@.len() > 0 ==> r is Ok, // [C07,C17]
            // mu_4 / mu_2^2
            ({ let xs = vals(self@); let mu2 = cmoment_def(xs, 2);
               self@.len() > 0 && mu2 != 0real ==> r->Ok_0.val() == cmoment_def(xs, 4) / (mu2 * mu2) }), // [C07]
//@at after_let central_moments 0
        proof { let m2 = central_moments@[2].val(); lemma_rpow_small(m2); if m2 != 0real { rl_sq_nonzero(m2); } }
//@end

//@extract file=src/summary_statistics/means.rs impl=SummaryStatisticsExt:ArrayBase fn=skewness id=skewness tags=C07,C17 body_tags=C07
//@sig
    fn skewness(&self) -> (r: Result<A, MinMaxError>)
    where
        A: Float + FromPrimitive,
//@spec
        requires real_model::<A>(), real_from_usize::<A>(), self@.len() <= usize::MAX,
        ensures
            self@.len() == 0 ==> r matches Err(MinMaxError::EmptyInput), // [C07,C17]
            self@.len() > 0 ==> r is Ok, // [C07,C17]
            // mu_3 / sqrt(mu_2)^3  ( = mu_3 / mu_2^1.5 )
            ({ let xs = vals(self@); let sd = sqrt_r(cmoment_def(xs, 2));
               self@.len() > 0 && rpow(sd, 3) != 0real ==> r->Ok_0.val() == cmoment_def(xs, 3) / rpow(sd, 3) }), // [C07]
//@end
}

impl<A, D: Dimension> ArrayN<A, D> {
//@extract file=src/summary_statistics/means.rs impl=SummaryStatisticsExt:ArrayBase fn=weighted_var_axis id=weighted_var_axis tags=C07,C17,C18 body_tags=C07
//@sig
    fn weighted_var_axis(&self, axis: Axis, weights: &ArrayN<A, Ix1>, ddof: A) -> (r: Result<ArrayN<A, D::Smaller>, MultiInputError>)
    where
        A: AddAssign + Float + FromPrimitive,
        D: RemoveAxis,
//@spec
        requires
            real_model::<A>(), real_add_assign::<A>(), real_from_usize::<A>(),
            axis.0 < self.shape_spec().len(), // otherwise the routine panics (indexing the shape)
            0real <= ddof.val() <= 1real,
            forall|i: int| 0 <= i < weights@.len() ==> (#[trigger] weights@[i]).val() >= 0real,
        ensures
            self@.len() == 0 ==> r matches Err(MultiInputError::EmptyInput), // [C07,C17]
            self@.len() > 0 && self.shape_spec()[axis.0 as int] != weights@.len() ==> (r matches Err(MultiInputError::ShapeMismatch(sm)) && sm.first_shape@ == self.shape_spec() && sm.second_shape@ == weights.shape_spec()), // [C07,C17]
            self@.len() > 0 && self.shape_spec()[axis.0 as int] == weights@.len() ==> r is Ok, // [C07,C17]
            // one entry per lane along `axis`, each equal to the weighted variance of that lane with the same weights
            self@.len() > 0 && self.shape_spec()[axis.0 as int] == weights@.len() ==> r->Ok_0@.len() == self.lanes(axis.0 as int).len(), // [C07]
            ({ let ws = vals(weights@); let wt = wpsum(ws, ws, 0, ws.len() as int);
               self@.len() > 0 && self.shape_spec()[axis.0 as int] == weights@.len() && wt > 0real && wt - ddof.val() != 0real ==>
                   forall|j: int| 0 <= j < self.lanes(axis.0 as int).len() ==> (#[trigger] r->Ok_0@[j]).val() == wvar_def(vals(self.lanes(axis.0 as int)[j]), ws, ddof.val()) }), // [C07,C18] the value weighted_var is proved to return on that lane
//@rename_call view verif_view
//@closure 0
|lane: ArrayN<A, Ix1>| -> (v: A) requires lane@.len() == weights@.len() ensures ({ let xs = vals(lane@); let ws = vals(weights@); let wt = wpsum(xs, ws, 0, xs.len() as int); wt > 0real && wt - ddof.val() != 0real ==> v.val() == wvar_def(xs, ws, ddof.val()) })
//@at entry
        proof { assert(lawful_clone::<usize>()); axiom_lane_len(self, axis.0 as int); }
        let ghost w0 = weights@;
//@at after_call map_axis 0
        proof {
            let ws = vals(w0); let n = ws.len() as int;
            let out = __r->Ok_0;
            assert forall|j: int| 0 <= j < self.lanes(axis.0 as int).len() && wpsum(ws, ws, 0, n) > 0real && wpsum(ws, ws, 0, n) - ddof.val() != 0real implies
                (#[trigger] out@[j]).val() == wvar_def(vals(self.lanes(axis.0 as int)[j]), ws, ddof.val()) by {
                let lane = self.lanes(axis.0 as int)[j];
                lemma_wpsum0_indep(vals(lane), ws, ws, n);
            }
        }
//@end

//@extract file=src/summary_statistics/means.rs impl=SummaryStatisticsExt:ArrayBase fn=weighted_std_axis id=weighted_std_axis tags=C07,C17 body_tags=C07
//@sig
    fn weighted_std_axis(&self, axis: Axis, weights: &ArrayN<A, Ix1>, ddof: A) -> (r: Result<ArrayN<A, D::Smaller>, MultiInputError>)
    where
        A: AddAssign + Float + FromPrimitive,
        D: RemoveAxis,
//@spec
        requires
            real_model::<A>(), real_add_assign::<A>(), real_from_usize::<A>(),
            axis.0 < self.shape_spec().len(),
            0real <= ddof.val() <= 1real,
            forall|i: int| 0 <= i < weights@.len() ==> (#[trigger] weights@[i]).val() >= 0real,
        ensures
            self@.len() == 0 ==> r matches Err(MultiInputError::EmptyInput), // [C07,C17]
            self@.len() > 0 && self.shape_spec()[axis.0 as int] != weights@.len() ==> (r matches Err(MultiInputError::ShapeMismatch(sm)) && sm.first_shape@ == self.shape_spec() && sm.second_shape@ == weights.shape_spec()), // [C07,C17]
            self@.len() > 0 && self.shape_spec()[axis.0 as int] == weights@.len() ==> r is Ok, // [C07,C17]
            self@.len() > 0 && self.shape_spec()[axis.0 as int] == weights@.len() ==> r->Ok_0@.len() == self.lanes(axis.0 as int).len(), // [C07]
            // the square root of the per-lane weighted variance
            ({ let ws = vals(weights@); let wt = wpsum(ws, ws, 0, ws.len() as int);
               self@.len() > 0 && self.shape_spec()[axis.0 as int] == weights@.len() && wt > 0real && wt - ddof.val() != 0real ==>
                   forall|j: int| 0 <= j < self.lanes(axis.0 as int).len() ==> (#[trigger] r->Ok_0@[j]).val() == sqrt_r(wvar_def(vals(self.lanes(axis.0 as int)[j]), ws, ddof.val())) }), // [C07]
//@closure 0
|x: A| -> (y: A) ensures y.val() == sqrt_r(x.val())
//@end
}

impl<A, D: Dimension> ArrayN<A, D> {
//@extract file=src/summary_statistics/means.rs impl=SummaryStatisticsExt:ArrayBase fn=harmonic_mean id=harmonic_mean tags=C06,C17 body_tags=C06
//@sig
    fn harmonic_mean(&self) -> (r: Result<A, MinMaxError>)
    where
        A: Float + FromPrimitive,
//@spec
        requires real_model::<A>(), real_from_usize::<A>(),
            forall|i: int| 0 <= i < self@.len() ==> (#[trigger] self@[i]).val() != 0real,
        ensures
            self@.len() == 0 ==> r matches Err(MinMaxError::EmptyInput), // [C06,C17]
            self@.len() > 0 ==> r is Ok, // [C06,C17]
            // the reciprocal of the mean of the reciprocals
            ({ let rec = Seq::new(self@.len(), |i: int| 1real / self@[i].val());
               self@.len() > 0 && mean_def(rec) != 0real ==> r->Ok_0.val() == 1real / mean_def(rec) }), // [C06]
//@closure 0
|x: &A| -> (y: A) ensures (*x).val() != 0real ==> y.val() == 1real / (*x).val()
//@closure 1
|x: A| -> (y: A) ensures x.val() != 0real ==> y.val() == 1real / x.val()
//@at entry
        proof {
            let rec = Seq::new(self@.len(), |i: int| 1real / self@[i].val());
            assert forall|m: ArrayN<A, D>| m@.len() == self@.len() && (forall|k: int| 0 <= k < self@.len() ==> (#[trigger] m@[k]).val() == 1real / self@[k].val()) implies #[trigger] vals(m@) == rec by {
                assert(vals(m@) =~= rec);
            }
        }
//@end

//@extract file=src/summary_statistics/means.rs impl=SummaryStatisticsExt:ArrayBase fn=geometric_mean id=geometric_mean tags=C06,C17 body_tags=C06
//@sig
    fn geometric_mean(&self) -> (r: Result<A, MinMaxError>)
    where
        A: Float + FromPrimitive,
//@spec
        requires real_model::<A>(), real_from_usize::<A>(),
            forall|i: int| 0 <= i < self@.len() ==> (#[trigger] self@[i]).fin() && self@[i].val() > 0real,
        ensures
            self@.len() == 0 ==> r matches Err(MinMaxError::EmptyInput), // [C06,C17]
            self@.len() > 0 ==> r is Ok, // [C06,C17]
            // exp of the mean of the logarithms
            ({ let lns = Seq::new(self@.len(), |i: int| ln_r(self@[i].val()));
               self@.len() > 0 ==> r->Ok_0.val() == exp_r(mean_def(lns)) }), // [C06]
//@closure 0
|x: &A| -> (y: A) ensures (*x).fin() && (*x).val() > 0real ==> y.val() == ln_r((*x).val())
//@closure 1
|x: A| -> (y: A) ensures y.val() == exp_r(x.val())
//@at entry
        proof {
            let lns = Seq::new(self@.len(), |i: int| ln_r(self@[i].val()));
            assert forall|m: ArrayN<A, D>| m@.len() == self@.len() && (forall|k: int| 0 <= k < self@.len() ==> (#[trigger] m@[k]).val() == ln_r(self@[k].val())) implies #[trigger] vals(m@) == lns by {
                assert(vals(m@) =~= lns);
            }
        }
//@end
}

impl<A, D: Dimension> ArrayN<A, D> {
//@extract file=src/summary_statistics/means.rs impl=SummaryStatisticsExt:ArrayBase fn=weighted_sum_axis id=weighted_sum_axis tags=C06,C17,C18 body_tags=C06
//@sig
    fn weighted_sum_axis(&self, axis: Axis, weights: &ArrayN<A, Ix1>) -> (r: Result<ArrayN<A, D::Smaller>, MultiInputError>)
    where
        A: Float,
        D: RemoveAxis,
//@spec
        requires real_model::<A>(), axis.0 < self.shape_spec().len(),
        ensures
            self.shape_spec()[axis.0 as int] != weights@.len() ==> (r matches Err(MultiInputError::ShapeMismatch(sm)) && sm.first_shape@ == self.shape_spec() && sm.second_shape@ == weights.shape_spec()), // [C06,C17] (also for empty data: the sum-type routine only compares lengths)
            self.shape_spec()[axis.0 as int] == weights@.len() ==> r is Ok && r->Ok_0@.len() == self.lanes(axis.0 as int).len(), // [C06,C17]
            // entry j is the weighted sum of lane j with the same weights, data and weights paired by logical index
            self.shape_spec()[axis.0 as int] == weights@.len() ==> forall|j: int| 0 <= j < self.lanes(axis.0 as int).len() ==>
                (#[trigger] r->Ok_0@[j]).val() == wpsum(vals(self.lanes(axis.0 as int)[j]), vals(weights@), 1, weights@.len() as int), // [C06,C18]
//@rename_call iter verif_iter
//@closure 0
|lane: ArrayN<A, Ix1>| -> (v: A) requires lane@.len() == weights@.len() ensures v.val() == wpsum(vals(lane@), vals(weights@), 1, weights@.len() as int)
//@closure 1
|acc: A, d_ref: &A, w_ref: &A| -> (o: A) ensures o.val() == acc.val() + (*d_ref).val() * (*w_ref).val()
let d = *d_ref; let w = *w_ref;
//@at entry
        proof { assert(lawful_clone::<usize>()); axiom_lane_len(self, axis.0 as int); }
//@at after_call fold 0
            proof {
                let xs = vals(lane@); let ws = vals(weights@); let n = ws.len() as int;
                let accs = choose|accs: Seq<A>| #[trigger] accs.len() == n + 1 && accs[0] == A::zero_spec() && accs[n] == __r
                    && forall|k: int| 0 <= k < n ==> (#[trigger] accs[k + 1]).val() == accs[k].val() + xs[k] * ws[k];
                lemma_trace_wsum(accs, xs, ws, n);
            }
//@end

//@extract file=src/summary_statistics/means.rs impl=SummaryStatisticsExt:ArrayBase fn=weighted_mean_axis id=weighted_mean_axis tags=C06,C17,C18 body_tags=C06
//@sig
    fn weighted_mean_axis(&self, axis: Axis, weights: &ArrayN<A, Ix1>) -> (r: Result<ArrayN<A, D::Smaller>, MultiInputError>)
    where
        A: Float,
        D: RemoveAxis,
//@spec
        requires real_model::<A>(), axis.0 < self.shape_spec().len(),
        ensures
            self@.len() == 0 ==> r matches Err(MultiInputError::EmptyInput), // [C06,C17]
            self@.len() > 0 && self.shape_spec()[axis.0 as int] != weights@.len() ==> (r matches Err(MultiInputError::ShapeMismatch(sm)) && sm.first_shape@ == self.shape_spec() && sm.second_shape@ == weights.shape_spec()), // [C06,C17]
            self@.len() > 0 && self.shape_spec()[axis.0 as int] == weights@.len() ==> r is Ok && r->Ok_0@.len() == self.lanes(axis.0 as int).len(), // [C06,C17]
            // entry j is the weighted sum of lane j divided by the sum of the weights
            self@.len() > 0 && self.shape_spec()[axis.0 as int] == weights@.len() && rsum(vals(weights@)) != 0real ==> forall|j: int| 0 <= j < self.lanes(axis.0 as int).len() ==>
                (#[trigger] r->Ok_0@[j]).val() == wpsum(vals(self.lanes(axis.0 as int)[j]), vals(weights@), 1, weights@.len() as int) / rsum(vals(weights@)), // [C06,C18]
//@closure 0
|v: A| -> (o: A) ensures weights_sum.val() != 0real ==> o.val() == v.val() / weights_sum.val()
//@end
}

// ---- C20 as lemmas over the contracts proved above (reading: unit `deviation`); in exact arithmetic (A-REAL) the order of
// summation is immaterial, so logically equal arrays give the same real value: on the machine the answers then agree up to the
// summation roundoff, which is what the property asks of floating-point sums ----------------------------------------------
pub open spec fn same_logical<A, D: Dimension>(a: &ArrayN<A, D>, b: &ArrayN<A, D>) -> bool { a@ == b@ && a.shape_spec() == b.shape_spec() }
pub open spec fn same_err(e1: MultiInputError, e2: MultiInputError) -> bool {
    match (e1, e2) {
        (MultiInputError::EmptyInput, MultiInputError::EmptyInput) => true,
        (MultiInputError::ShapeMismatch(s1), MultiInputError::ShapeMismatch(s2)) => s1.first_shape@ == s2.first_shape@ && s1.second_shape@ == s2.second_shape@,
        _ => false,
    }
}
proof fn lemma_layout_weighted_var<A: AddAssign + Float + FromPrimitive, D: Dimension>(a1: ArrayN<A, D>, a2: ArrayN<A, D>, w1: ArrayN<A, D>, w2: ArrayN<A, D>, ddof: A, r1: Result<A, MultiInputError>, r2: Result<A, MultiInputError>)
    requires
        same_logical(&a1, &a2), same_logical(&w1, &w2),
        call_ensures(ArrayN::<A, D>::weighted_var, (&a1, &w1, ddof), r1), call_ensures(ArrayN::<A, D>::weighted_var, (&a2, &w2, ddof), r2),
    ensures
        r1 is Err <==> r2 is Err, r1 is Err ==> same_err(r1->Err_0, r2->Err_0), // [C20]
        ({ let xs = vals(a1@); let ws = vals(w1@); let wt = wpsum(xs, ws, 0, xs.len() as int);
           r1 is Ok && wt > 0real && wt - ddof.val() != 0real ==> r1->Ok_0.val() == r2->Ok_0.val() }), // [C20]
{
}
proof fn lemma_layout_central_moment<A: Float + FromPrimitive, D: Dimension>(a1: ArrayN<A, D>, a2: ArrayN<A, D>, order: u16, r1: Result<A, MinMaxError>, r2: Result<A, MinMaxError>)
    requires
        same_logical(&a1, &a2),
        call_ensures(ArrayN::<A, D>::central_moment, (&a1, order), r1), call_ensures(ArrayN::<A, D>::central_moment, (&a2, order), r2),
    ensures
        r1 is Err ==> r1 == r2, r2 is Err ==> r1 == r2, // [C20]
        r1 is Ok && r2 is Ok ==> r1->Ok_0.val() == r2->Ok_0.val(), // [C20]
{
}
proof fn lemma_layout_kurtosis<A: Float + FromPrimitive, D: Dimension>(a1: ArrayN<A, D>, a2: ArrayN<A, D>, r1: Result<A, MinMaxError>, r2: Result<A, MinMaxError>)
    requires
        same_logical(&a1, &a2),
        call_ensures(ArrayN::<A, D>::kurtosis, (&a1,), r1), call_ensures(ArrayN::<A, D>::kurtosis, (&a2,), r2),
    ensures
        r1 is Err ==> r1 == r2, r2 is Err ==> r1 == r2, // [C20]
        r1 is Ok && r2 is Ok && cmoment_def(vals(a1@), 2) != 0real ==> r1->Ok_0.val() == r2->Ok_0.val(), // [C20]
{
}
proof fn lemma_layout_skewness<A: Float + FromPrimitive, D: Dimension>(a1: ArrayN<A, D>, a2: ArrayN<A, D>, r1: Result<A, MinMaxError>, r2: Result<A, MinMaxError>)
    requires
        same_logical(&a1, &a2),
        call_ensures(ArrayN::<A, D>::skewness, (&a1,), r1), call_ensures(ArrayN::<A, D>::skewness, (&a2,), r2),
    ensures
        r1 is Err ==> r1 == r2, r2 is Err ==> r1 == r2, // [C20]
        r1 is Ok && r2 is Ok && rpow(sqrt_r(cmoment_def(vals(a1@), 2)), 3) != 0real ==> r1->Ok_0.val() == r2->Ok_0.val(), // [C20]
{
}
proof fn lemma_layout_harmonic_mean<A: Float + FromPrimitive, D: Dimension>(a1: ArrayN<A, D>, a2: ArrayN<A, D>, r1: Result<A, MinMaxError>, r2: Result<A, MinMaxError>)
    requires
        same_logical(&a1, &a2),
        call_ensures(ArrayN::<A, D>::harmonic_mean, (&a1,), r1), call_ensures(ArrayN::<A, D>::harmonic_mean, (&a2,), r2),
    ensures
        r1 is Err ==> r1 == r2, r2 is Err ==> r1 == r2, // [C20]
        ({ let rec = Seq::new(a1@.len(), |i: int| 1real / a1@[i].val());
           r1 is Ok && r2 is Ok && mean_def(rec) != 0real ==> r1->Ok_0.val() == r2->Ok_0.val() }), // [C20]
{
}
proof fn lemma_layout_weighted_std<A: AddAssign + Float + FromPrimitive, D: Dimension>(a1: ArrayN<A, D>, a2: ArrayN<A, D>, w1: ArrayN<A, D>, w2: ArrayN<A, D>, ddof: A, r1: Result<A, MultiInputError>, r2: Result<A, MultiInputError>)
    requires
        same_logical(&a1, &a2), same_logical(&w1, &w2),
        call_ensures(ArrayN::<A, D>::weighted_std, (&a1, &w1, ddof), r1), call_ensures(ArrayN::<A, D>::weighted_std, (&a2, &w2, ddof), r2),
    ensures
        r1 is Err <==> r2 is Err, r1 is Err ==> same_err(r1->Err_0, r2->Err_0), // [C20]
        ({ let xs = vals(a1@); let ws = vals(w1@); let wt = wpsum(xs, ws, 0, xs.len() as int);
           r1 is Ok && wt > 0real && wt - ddof.val() != 0real ==> r1->Ok_0.val() == r2->Ok_0.val() }), // [C20]
{
}
proof fn lemma_layout_geometric_mean<A: Float + FromPrimitive, D: Dimension>(a1: ArrayN<A, D>, a2: ArrayN<A, D>, r1: Result<A, MinMaxError>, r2: Result<A, MinMaxError>)
    requires
        same_logical(&a1, &a2),
        call_ensures(ArrayN::<A, D>::geometric_mean, (&a1,), r1), call_ensures(ArrayN::<A, D>::geometric_mean, (&a2,), r2),
    ensures
        r1 is Err ==> r1 == r2, r2 is Err ==> r1 == r2, // [C20]
        r1 is Ok && r2 is Ok ==> r1->Ok_0.val() == r2->Ok_0.val(), // [C20]
{
}
// per-axis forms: logically equal arrays have the same lanes along every axis; entry j then has the same real value
pub open spec fn same_lanes<A, D: Dimension>(a: &ArrayN<A, D>, b: &ArrayN<A, D>, ax: int) -> bool {
    a@ == b@ && a.shape_spec() == b.shape_spec() && a.lanes(ax) == b.lanes(ax)
}
proof fn lemma_layout_weighted_sum_axis<A: Float, D: RemoveAxis>(a1: ArrayN<A, D>, a2: ArrayN<A, D>, axis: Axis, w1: ArrayN<A, Ix1>, w2: ArrayN<A, Ix1>, r1: Result<ArrayN<A, D::Smaller>, MultiInputError>, r2: Result<ArrayN<A, D::Smaller>, MultiInputError>)
    requires
        same_lanes(&a1, &a2, axis.0 as int), w1@ == w2@ && w1.shape_spec() == w2.shape_spec(),
        call_ensures(ArrayN::<A, D>::weighted_sum_axis, (&a1, axis, &w1), r1), call_ensures(ArrayN::<A, D>::weighted_sum_axis, (&a2, axis, &w2), r2),
    ensures
        r1 is Err <==> r2 is Err, r1 is Err ==> same_err(r1->Err_0, r2->Err_0), // [C20]
        r1 is Ok ==> r1->Ok_0@.len() == r2->Ok_0@.len() && forall|j: int| 0 <= j < r1->Ok_0@.len() ==> (#[trigger] r1->Ok_0@[j]).val() == r2->Ok_0@[j].val(), // [C20]
{
}
proof fn lemma_layout_weighted_mean_axis<A: Float, D: RemoveAxis>(a1: ArrayN<A, D>, a2: ArrayN<A, D>, axis: Axis, w1: ArrayN<A, Ix1>, w2: ArrayN<A, Ix1>, r1: Result<ArrayN<A, D::Smaller>, MultiInputError>, r2: Result<ArrayN<A, D::Smaller>, MultiInputError>)
    requires
        same_lanes(&a1, &a2, axis.0 as int), w1@ == w2@ && w1.shape_spec() == w2.shape_spec(),
        call_ensures(ArrayN::<A, D>::weighted_mean_axis, (&a1, axis, &w1), r1), call_ensures(ArrayN::<A, D>::weighted_mean_axis, (&a2, axis, &w2), r2),
    ensures
        r1 is Err <==> r2 is Err, r1 is Err ==> same_err(r1->Err_0, r2->Err_0), // [C20]
        r1 is Ok ==> r1->Ok_0@.len() == r2->Ok_0@.len(), // [C20]
        r1 is Ok && rsum(vals(w1@)) != 0real ==> forall|j: int| 0 <= j < r1->Ok_0@.len() ==> (#[trigger] r1->Ok_0@[j]).val() == r2->Ok_0@[j].val(), // [C20]
{
}
proof fn lemma_layout_weighted_var_axis<A: AddAssign + Float + FromPrimitive, D: RemoveAxis>(a1: ArrayN<A, D>, a2: ArrayN<A, D>, axis: Axis, w1: ArrayN<A, Ix1>, w2: ArrayN<A, Ix1>, ddof: A, r1: Result<ArrayN<A, D::Smaller>, MultiInputError>, r2: Result<ArrayN<A, D::Smaller>, MultiInputError>)
    requires
        same_lanes(&a1, &a2, axis.0 as int), w1@ == w2@ && w1.shape_spec() == w2.shape_spec(),
        call_ensures(ArrayN::<A, D>::weighted_var_axis, (&a1, axis, &w1, ddof), r1), call_ensures(ArrayN::<A, D>::weighted_var_axis, (&a2, axis, &w2, ddof), r2),
    ensures
        r1 is Err <==> r2 is Err, r1 is Err ==> same_err(r1->Err_0, r2->Err_0), // [C20]
        r1 is Ok ==> r1->Ok_0@.len() == r2->Ok_0@.len(), // [C20]
        ({ let ws = vals(w1@); let wt = wpsum(ws, ws, 0, ws.len() as int);
           r1 is Ok && wt > 0real && wt - ddof.val() != 0real ==> forall|j: int| 0 <= j < r1->Ok_0@.len() ==> (#[trigger] r1->Ok_0@[j]).val() == r2->Ok_0@[j].val() }), // [C20]
{
}
proof fn lemma_layout_weighted_std_axis<A: AddAssign + Float + FromPrimitive, D: RemoveAxis>(a1: ArrayN<A, D>, a2: ArrayN<A, D>, axis: Axis, w1: ArrayN<A, Ix1>, w2: ArrayN<A, Ix1>, ddof: A, r1: Result<ArrayN<A, D::Smaller>, MultiInputError>, r2: Result<ArrayN<A, D::Smaller>, MultiInputError>)
    requires
        same_lanes(&a1, &a2, axis.0 as int), w1@ == w2@ && w1.shape_spec() == w2.shape_spec(),
        call_ensures(ArrayN::<A, D>::weighted_std_axis, (&a1, axis, &w1, ddof), r1), call_ensures(ArrayN::<A, D>::weighted_std_axis, (&a2, axis, &w2, ddof), r2),
    ensures
        r1 is Err <==> r2 is Err, r1 is Err ==> same_err(r1->Err_0, r2->Err_0), // [C20]
        r1 is Ok ==> r1->Ok_0@.len() == r2->Ok_0@.len(), // [C20]
        ({ let ws = vals(w1@); let wt = wpsum(ws, ws, 0, ws.len() as int);
           r1 is Ok && wt > 0real && wt - ddof.val() != 0real ==> forall|j: int| 0 <= j < r1->Ok_0@.len() ==> (#[trigger] r1->Ok_0@[j]).val() == r2->Ok_0@[j].val() }), // [C20]
{
}
proof fn lemma_layout_central_moments<A: Float + FromPrimitive, D: Dimension>(a1: ArrayN<A, D>, a2: ArrayN<A, D>, order: u16, r1: Result<Vec<A>, MinMaxError>, r2: Result<Vec<A>, MinMaxError>)
    requires
        same_logical(&a1, &a2),
        call_ensures(ArrayN::<A, D>::central_moments, (&a1, order), r1), call_ensures(ArrayN::<A, D>::central_moments, (&a2, order), r2),
    ensures
        r1 is Err ==> r1 == r2, r2 is Err ==> r1 == r2, // [C20]
        r1 is Ok && r2 is Ok ==> r1->Ok_0@.len() == r2->Ok_0@.len() && forall|p: int| 0 <= p < r1->Ok_0@.len() ==> (#[trigger] r1->Ok_0@[p]).val() == r2->Ok_0@[p].val(), // [C20]
{
}

} // verus!
fn main() {}
