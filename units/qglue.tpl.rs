// unit `qglue`: src/quantile/mod.rs — the inner function `quantiles_axis_mut` that every quantile routine ends in
// (C01, C03, C17, C18, C19): validation order, index collection, per-lane bulk selection and interpolation
#![feature(allocator_api)]
#![allow(unused_imports, unused_variables, unused_mut, dead_code)]
use vstd::prelude::*;
use core::cmp::Ordering;
use vstd::std_specs::cmp::{OrdSpec, PartialOrdSpec, PartialEqSpec};
use std::alloc::Allocator;
use std::ops::Range;
verus! {
//@include ../shim/order.rs
//@include ../shim/orderstat.rs
//@include ../shim/lane.rs
//@include ../shim/slices.rs
//@include ../shim/indexmap.rs
//@include ../shim/qglue.rs

pub open spec fn all_valid(qs: Seq<N64>, k: int) -> bool { forall|t: int| 0 <= t < k ==> (#[trigger] qs[t]).valid_q() }
// what one entry of the result must be: the interpolation of the order statistics of (the final state of) the lane
pub open spec fn lane_entry<A: Ord, I: Interpolate<A>>(lane: Seq<A>, q: N64, n: usize, out: A) -> bool {
    exists|lo: Option<A>, hi: Option<A>| #![auto]
        (if I::needs_lower_spec(q, n) { lo is Some && selected_at(lane, lower_index_spec(q, n) as int, lo->Some_0) } else { lo is None })
        && (if I::needs_higher_spec(q, n) { hi is Some && selected_at(lane, higher_index_spec(q, n) as int, hi->Some_0) } else { hi is None })
        && out == I::interpolate_spec(lo, hi, q, n)
}
pub open spec fn covers<I2: Interpolate<A2>, A2>(s: Seq<usize>, qs: Seq<N64>, n: usize, k: int) -> bool {
    forall|t: int| 0 <= t < k ==> (I2::needs_lower_spec(#[trigger] qs[t], n) ==> s.contains(lower_index_spec(qs[t], n))) && (I2::needs_higher_spec(qs[t], n) ==> s.contains(higher_index_spec(qs[t], n)))
}

//@extract file=src/quantile/mod.rs impl=QuantileExt:ArrayBase fn=quantiles_axis_mut inner=quantiles_axis_mut id=quantiles_axis_mut_inner tags=C01,C03,C17,C18,C19 body_tags=C01
//@sig
fn quantiles_axis_mut<A, I>(data: &mut ArrL<A>, axis: Axis, qs: QView<'_>, _interpolate: &I) -> (r: Result<ArrL<A>, QuantileError>)
where
    A: Ord + Clone,
    I: Interpolate<A>,
//@spec
    requires
        lawful_ord::<A>(), lawful_clone::<A>(),
        old(data).wf(axis.0 as int), 2 * qs@.len() <= usize::MAX,
    ensures
        // the array keeps its shape and every lane along the axis keeps its elements (only their order may change)
        final(data).dims() == old(data).dims() && final(data).wf(axis.0 as int), // [C03]
        forall|j: int| 0 <= j < old(data).lanes(axis.0 as int).len() ==> perm(#[trigger] final(data).lanes(axis.0 as int)[j], old(data).lanes(axis.0 as int)[j]), // [C03]
        r is Err ==> final(data).lanes(axis.0 as int) == old(data).lanes(axis.0 as int), // [C03,C17]
        // InvalidQuantile carrying the first offending q, checked before emptiness
        !all_valid(qs@, qs@.len() as int) ==> exists|t: int| 0 <= t < qs@.len() && all_valid(qs@, t) && !(#[trigger] qs@[t]).valid_q() && r == Err::<ArrL<A>, QuantileError>(QuantileError::InvalidQuantile(qs@[t])), // [C17]
        // EmptyInput exactly when every q is valid and the chosen axis has length zero
        all_valid(qs@, qs@.len() as int) && old(data).dims()[axis.0 as int] == 0 ==> r matches Err(QuantileError::EmptyInput), // [C17]
        // otherwise: the shape of the data with the axis replaced by the number of quantiles, and entry t of lane j is the
        // interpolation, by the strategy, of the order statistics floor/ceil(q_t (n-1)) of lane j (read off the final state
        // of that lane, which is a permutation of the original one)
        all_valid(qs@, qs@.len() as int) && old(data).dims()[axis.0 as int] > 0 ==> (r matches Ok(res)
            && res.dims() == old(data).dims().update(axis.0 as int, qs@.len() as usize) && res.wf(axis.0 as int)
            && forall|j: int, t: int| 0 <= j < res.lanes(axis.0 as int).len() && 0 <= t < qs@.len() ==>
                lane_entry::<A, I>(final(data).lanes(axis.0 as int)[j], qs@[t], old(data).dims()[axis.0 as int], #[trigger] res.lanes(axis.0 as int)[j][t])), // [C01,C18,C19]
//@replace_text
(q >= 0.) && (q <= 1.)
q.verif_in_unit()
//@at entry
    broadcast use axiom_dims;
    let ghost ax = axis.0 as int; let ghost m = qs@.len() as int; let ghost d0 = old(data).dims(); let ghost l0 = old(data).lanes(ax);
    let ghost mut idx_g: int = 0;
//@loop 0 iter=it hoist=1
        invariant
            it.seq() == __its0, __its0.len() == m, idx_g == it.index@, idx_g <= m,
            forall|k: int| 0 <= k < m ==> *(#[trigger] __its0[k]) == qs@[k],
            all_valid(qs@, idx_g), // [C17]
            *data == *old(data), old(data).wf(ax), ax == axis.0, m == qs@.len(),
//@at loop_start 0
        proof { assert(q == qs@[idx_g]); }
//@at loop_end 0
        proof { idx_g = idx_g + 1; }
//@at after_let axis_len 0
    proof { idx_g = 0; }
//@at after_let searched_indexes 0
    let ghost si0: Seq<usize> = searched_indexes@; // (pins the element type, which rustc otherwise infers from the pushes)
//@loop 1 iter=it hoist=1
        invariant
            it.seq() == __its1, __its1.len() == m, idx_g == it.index@, idx_g <= m,
            forall|k: int| 0 <= k < m ==> *(#[trigger] __its1[k]) == qs@[k],
            all_valid(qs@, m), axis_len > 0, axis_len == d0[ax], d0 == old(data).dims(),
            *data == *old(data), old(data).wf(ax), ax == axis.0, m == qs@.len(),
            forall|k: int| 0 <= k < searched_indexes@.len() ==> (#[trigger] searched_indexes@[k]) < axis_len,
            covers::<I, A>(searched_indexes@, qs@, axis_len, idx_g), // [C01]
            searched_indexes@.len() <= 2 * idx_g,
//@at loop_start 1
        proof { assert(q == qs@[idx_g]); }
        let ghost s_before = searched_indexes@;
//@at loop_end 1
        proof {
            assert forall|x: usize| s_before.contains(x) implies searched_indexes@.contains(x) by {
                let k0 = choose|k0: int| 0 <= k0 < s_before.len() && s_before[k0] == x;
                assert(searched_indexes@[k0] == x);
            }
            if I::needs_lower_spec(q, axis_len) { assert(searched_indexes@[s_before.len() as int] == lower_index_spec(q, axis_len)); }
            if I::needs_higher_spec(q, axis_len) { assert(searched_indexes@[searched_indexes@.len() - 1] == higher_index_spec(q, axis_len)); }
            idx_g = idx_g + 1;
        }
//@at then_start 2
        proof {
            assert(results_shape@ == d0.update(ax, m as usize));
            axiom_dims(results_shape@, ax, m as usize);
        }
//@at after_call from_shape_vec 0
        proof {
            let res = __r->Ok_0;
            assert(res.dims() == results_shape@);
            assert(res.wf(ax));
            assert(res.lanes(ax).len() == nlanes_of(results_shape@, ax));
            assert(m == 0 || nlanes_of(results_shape@, ax) == 0);
        }
//@at before_call sort 0
    let ghost s_all = searched_indexes@;
//@at after_call sort 0
    let ghost v1 = searched_indexes@;
    proof {
        lemma_lawful_ord_usize();
        assert(sorted_usize(v1));
        lemma_structural_eq_usize();
        lemma_dedup_sorted(v1);
    }
//@at after_call dedup 0
    let ghost si = searched_indexes@;
    proof {
        assert(strictly_increasing(si));
        assert forall|x: usize| s_all.contains(x) <==> si.contains(x) by { lemma_perm_contains_iff(s_all, v1, x); }
        assert forall|k: int| 0 <= k < si.len() implies (#[trigger] si[k]) < axis_len by {
            assert(si.contains(si[k]));
            let k0 = choose|k0: int| 0 <= k0 < s_all.len() && s_all[k0] == si[k];
        }
        assert(covers::<I, A>(si, qs@, axis_len, m));
        axiom_dims(d0, ax, m as usize);
        axiom_dims(results_shape@, ax, m as usize);
        assert(results_shape@ == d0.update(ax, m as usize));
    }
//@at after_let results 0
    let ghost nl = l0.len() as int;
    proof {
        assert(m <= usize::MAX);
        assert(results.wf(ax));
        assert(results.lanes(ax).len() == nl);
    }
//@loop 2
        invariant
            lawful_ord::<A>(), lawful_clone::<A>(), ax == axis.0, m == qs@.len(), m <= usize::MAX, all_valid(qs@, m), axis_len > 0, axis_len == d0[ax], 0 <= ax < d0.len(),
            d0 == old(data).dims(), l0 == old(data).lanes(ax), nl == l0.len(),
            it.seq() == __lzs, __lzs.len() == nl,
            forall|k: int| 0 <= k < nl ==> #[trigger] __lzs[k] < nl,
            forall|k1: int, k2: int| 0 <= k1 < k2 < nl ==> __lzs[k1] != __lzs[k2],
            forall|j: int| 0 <= j < nl ==> #[trigger] visits(__lzs, j),
            si == searched_indexes@, strictly_increasing(si), forall|k: int| 0 <= k < si.len() ==> (#[trigger] si[k]) < axis_len, covers::<I, A>(si, qs@, axis_len, m),
            data.dims() == d0, data.wf(ax), data.lanes(ax).len() == nl,
            results.dims() == d0.update(ax, m as usize), results.wf(ax), results.lanes(ax).len() == nl,
            // lanes already visited: permuted, and their result lane is filled; lanes not yet visited: untouched
            forall|k: int| 0 <= k < it.index@ ==> perm(data.lanes(ax)[(#[trigger] __lzs[k]) as int], l0[__lzs[k] as int]), // [C03]
            forall|k: int, t: int| 0 <= k < it.index@ && 0 <= t < m ==> lane_entry::<A, I>(data.lanes(ax)[__lzs[k] as int], qs@[t], axis_len, #[trigger] results.lanes(ax)[__lzs[k] as int][t]), // [C01]
            forall|k: int| it.index@ <= k < nl ==> data.lanes(ax)[(#[trigger] __lzs[k]) as int] == l0[__lzs[k] as int],
//@at after_let index_map 0
                    let ghost lane1 = data@;
                    proof { assert(results@.len() == m); }
//@loop 3
        invariant
            lawful_ord::<A>(), lawful_clone::<A>(), m == qs@.len(), all_valid(qs@, m), axis_len > 0,
            it.seq() == __zms, __zms.len() == m, results@.len() == m, data@ == lane1,
            forall|k: int| 0 <= k < __zms.len() ==> (#[trigger] __zms[k]).0 == k && *__zms[k].1 == qs@[k],
            si == searched_indexes@, covers::<I, A>(si, qs@, axis_len, m),
            index_map@.len() == si.len(),
            forall|k: int| 0 <= k < si.len() ==> (#[trigger] index_map@[k]).0 == si[k] && selected_at(lane1, si[k] as int, index_map@[k].1),
            forall|t: int| 0 <= t < it.index@ ==> lane_entry::<A, I>(lane1, qs@[t], axis_len, #[trigger] results@[t]), // [C01]
//@at loop_start 3
                        proof {
                            assert(__zms[it.index@] == (__i, __ref_q));
                            assert(q == qs@[it.index@] && __i == it.index@);
                            if I::needs_lower_spec(q, axis_len) {
                                let li = lower_index_spec(q, axis_len);
                                assert(si.contains(li));
                                let k0 = choose|k0: int| 0 <= k0 < si.len() && si[k0] == li;
                                assert(index_map@[k0].0 == li);
                                assert(has_key(index_map@, li));
                            }
                            if I::needs_higher_spec(q, axis_len) {
                                let hi = higher_index_spec(q, axis_len);
                                assert(si.contains(hi));
                                let k0 = choose|k0: int| 0 <= k0 < si.len() && si[k0] == hi;
                                assert(index_map@[k0].0 == hi);
                                assert(has_key(index_map@, hi));
                            }
                        }
                        let ghost res_before = results@;
//@at loop_end 3
                        proof {
                            assert(results@ == res_before.update(__i as int, results@[__i as int]));
                            assert(lane_entry::<A, I>(lane1, q, axis_len, results@[__i as int]));
                        }
//@at after_loop 2
    proof {
        assert forall|j: int| 0 <= j < nl implies perm(#[trigger] data.lanes(ax)[j], l0[j]) by {
            assert(visits(__lzs, j));
            let k = choose|k: int| 0 <= k < __lzs.len() && __lzs[k] == j;
            assert(perm(data.lanes(ax)[__lzs[k] as int], l0[__lzs[k] as int]));
        }
        assert forall|j: int, t: int| 0 <= j < nl && 0 <= t < m implies lane_entry::<A, I>(data.lanes(ax)[j], qs@[t], axis_len, #[trigger] results.lanes(ax)[j][t]) by {
            assert(visits(__lzs, j));
            let k = choose|k: int| 0 <= k < __lzs.len() && __lzs[k] == j;
            assert(lane_entry::<A, I>(data.lanes(ax)[__lzs[k] as int], qs@[t], axis_len, results.lanes(ax)[__lzs[k] as int][t]));
        }
    }
//@at loop_tail 2
            proof {
                assert(data.lanes(ax)[__j as int] == __lb@);
            }
//@end

// the same contract, for the public entry points
pub open spec fn glue_post<A: Ord, I: Interpolate<A>>(d_old: ArrL<A>, d_new: ArrL<A>, ax: int, qs: Seq<N64>, r: Result<ArrL<A>, QuantileError>) -> bool {
    &&& d_new.dims() == d_old.dims() && d_new.wf(ax)
    &&& forall|j: int| 0 <= j < d_old.lanes(ax).len() ==> perm(#[trigger] d_new.lanes(ax)[j], d_old.lanes(ax)[j])
    &&& (r is Err ==> d_new.lanes(ax) == d_old.lanes(ax))
    &&& (!all_valid(qs, qs.len() as int) ==> exists|t: int| 0 <= t < qs.len() && all_valid(qs, t) && !(#[trigger] qs[t]).valid_q() && r == Err::<ArrL<A>, QuantileError>(QuantileError::InvalidQuantile(qs[t])))
    &&& (all_valid(qs, qs.len() as int) && d_old.dims()[ax] == 0 ==> r matches Err(QuantileError::EmptyInput))
    &&& (all_valid(qs, qs.len() as int) && d_old.dims()[ax] > 0 ==> (r matches Ok(res)
            && res.dims() == d_old.dims().update(ax, qs.len() as usize) && res.wf(ax)
            && forall|j: int, t: int| 0 <= j < res.lanes(ax).len() && 0 <= t < qs.len() ==>
                lane_entry::<A, I>(d_new.lanes(ax)[j], qs[t], d_old.dims()[ax], #[trigger] res.lanes(ax)[j][t])))
}

impl<A: Ord + Clone> ArrL<A> {
//@extract file=src/quantile/mod.rs impl=QuantileExt:ArrayBase fn=quantiles_axis_mut id=ArrL::quantiles_axis_mut tags=C01,C03,C17,C18,C19 body_tags=C01
//@sig
    fn quantiles_axis_mut<I>(&mut self, axis: Axis, qs: &QArr, interpolate: &I) -> (r: Result<ArrL<A>, QuantileError>)
    where
        I: Interpolate<A>,
//@spec
        requires lawful_ord::<A>(), lawful_clone::<A>(), old(self).wf(axis.0 as int), 2 * qs@.len() <= usize::MAX,
        ensures glue_post::<A, I>(*old(self), *final(self), axis.0 as int, qs@, r), // [C01,C03,C17,C18,C19]
//@rename_call view verif_view
//@end

//@extract file=src/quantile/mod.rs impl=QuantileExt:ArrayBase fn=quantile_axis_mut id=ArrL::quantile_axis_mut tags=C01,C03,C17,C19 body_tags=C01
//@sig
    fn quantile_axis_mut<I>(&mut self, axis: Axis, q: N64, interpolate: &I) -> (r: Result<ArrS<A>, QuantileError>)
    where
        I: Interpolate<A>,
//@spec
        requires lawful_ord::<A>(), lawful_clone::<A>(), old(self).wf(axis.0 as int),
        ensures
            final(self).dims() == old(self).dims() && final(self).wf(axis.0 as int), // [C03]
            forall|j: int| 0 <= j < old(self).lanes(axis.0 as int).len() ==> perm(#[trigger] final(self).lanes(axis.0 as int)[j], old(self).lanes(axis.0 as int)[j]), // [C03]
            !q.valid_q() ==> r == Err::<ArrS<A>, QuantileError>(QuantileError::InvalidQuantile(q)), // [C17]
            q.valid_q() && old(self).dims()[axis.0 as int] == 0 ==> r matches Err(QuantileError::EmptyInput), // [C17]
            q.valid_q() && old(self).dims()[axis.0 as int] > 0 ==> r is Ok, // [C17] Ok otherwise
            // one value per lane: the strategy's interpolation of the order statistics floor / ceil(q (n-1)) of that lane
            q.valid_q() && old(self).dims()[axis.0 as int] > 0 ==> (r matches Ok(res) && res.elems().len() == old(self).lanes(axis.0 as int).len()
                && forall|j: int| 0 <= j < res.elems().len() ==> lane_entry::<A, I>(final(self).lanes(axis.0 as int)[j], q, old(self).dims()[axis.0 as int], #[trigger] res.elems()[j])), // [C01,C19]
//@at entry
        broadcast use axiom_dims;
        proof { axiom_dims(old(self).dims(), axis.0 as int, 1usize); }
//@closure 0
|a: ArrL<A>| -> (o: ArrS<A>) requires a.wf(axis.0 as int), a.dims()[axis.0 as int] == 1 ensures o.elems().len() == a.lanes(axis.0 as int).len(), forall|j: int| 0 <= j < o.elems().len() ==> #[trigger] o.elems()[j] == a.lanes(axis.0 as int)[j][0]
//@end

//@extract file=src/quantile/mod.rs impl=Quantile1dExt:ArrayBase fn=quantile_mut id=ArrL::quantile_mut tags=C01,C03,C17,C19 body_tags=C01
//@sig
    fn quantile_mut<I>(&mut self, q: N64, interpolate: &I) -> (r: Result<A, QuantileError>)
    where
        I: Interpolate<A>,
//@spec
        requires lawful_ord::<A>(), lawful_clone::<A>(), old(self).dims().len() == 1, old(self).wf(0),
        ensures
            final(self).dims() == old(self).dims() && final(self).wf(0), // [C03]
            perm(final(self).lanes(0)[0], old(self).lanes(0)[0]), // [C03] the array is a permutation of itself
            !q.valid_q() ==> r == Err::<A, QuantileError>(QuantileError::InvalidQuantile(q)), // [C17]
            q.valid_q() && old(self).dims()[0] == 0 ==> r matches Err(QuantileError::EmptyInput), // [C17]
            q.valid_q() && old(self).dims()[0] > 0 ==> r is Ok, // [C17] Ok otherwise
            // the strategy's interpolation of the order statistics floor / ceil(q (n-1)) of the whole 1-D array
            q.valid_q() && old(self).dims()[0] > 0 ==> (r matches Ok(v) && lane_entry::<A, I>(final(self).lanes(0)[0], q, old(self).dims()[0], v)), // [C01,C19]
//@at entry
        proof { axiom_dims_1d(old(self).dims()); }
//@end

//@extract file=src/quantile/mod.rs impl=Quantile1dExt:ArrayBase fn=quantiles_mut id=ArrL::quantiles_mut tags=C01,C03,C17,C18,C19 body_tags=C01
//@sig
    fn quantiles_mut<I>(&mut self, qs: &QArr, interpolate: &I) -> (r: Result<ArrL<A>, QuantileError>)
    where
        I: Interpolate<A>,
//@spec
        requires lawful_ord::<A>(), lawful_clone::<A>(), old(self).dims().len() == 1, old(self).wf(0), 2 * qs@.len() <= usize::MAX,
        ensures glue_post::<A, I>(*old(self), *final(self), 0, qs@, r), // [C01,C03,C17,C18,C19]
//@end
}

impl<A: MaybeNan> ArrL<A> {
//@extract file=src/quantile/mod.rs impl=QuantileExt:ArrayBase fn=quantile_axis_skipnan_mut id=ArrL::quantile_axis_skipnan_mut tags=C14,C17,C01 body_tags=C14
//@sig
    fn quantile_axis_skipnan_mut<I>(&mut self, axis: Axis, q: N64, interpolate: &I) -> (r: Result<ArrS<A>, QuantileError>)
    where
        A::NotNan: Clone + Ord,
        I: Interpolate<A::NotNan>,
//@spec
        requires lawful_ord::<A::NotNan>(), lawful_clone::<A::NotNan>(), old(self).wf(axis.0 as int),
        ensures
            !q.valid_q() ==> r == Err::<ArrS<A>, QuantileError>(QuantileError::InvalidQuantile(q)), // [C17,C14]
            q.valid_q() && old(self).dims()[axis.0 as int] == 0 ==> r matches Err(QuantileError::EmptyInput), // [C17,C14]
            q.valid_q() && old(self).dims()[axis.0 as int] > 0 ==> r is Ok, // [C17] Ok otherwise
            // one value per lane: the missing value when the lane has no not-missing element, otherwise the plain quantile
            // (strategy interpolation of the order statistics) of the not-missing elements of that lane
            q.valid_q() && old(self).dims()[axis.0 as int] > 0 ==> (r matches Ok(res) && res.elems().len() == old(self).lanes(axis.0 as int).len()
                && forall|j: int| 0 <= j < res.elems().len() ==> skipq_entry::<A, I>(old(self).lanes(axis.0 as int)[j], q, #[trigger] res.elems()[j])), // [C14,C01]
//@replace_text
(q >= 0.) && (q <= 1.)
q.verif_in_unit()
//@replace_text
A::remove_nan_mut(lane)
verif_remove_nan_mut::<A>(lane)
//@closure 0
|lane: Lane<A>| -> (v: A) requires q.valid_q() ensures skipq_entry::<A, I>(lane@, q, v)
//@at after_let not_nan 0
            proof { axiom_dims_1d(not_nan.dims()); }
            let ghost nn0 = not_nan; let ghost fl = filter_not_nan(lane@);
//@at after_call from_not_nan_opt 0
            proof {
                if fl.len() > 0 {
                    // the compacted view holds exactly the not-missing values; the plain quantile permutes it and reads off its order statistics
                    let arr = not_nan.lanes(0)[0];
                    assert(perm(arr, nn0.lanes(0)[0]) && perm(nn0.lanes(0)[0], fl));
                    assert(perm(arr, fl));
                    assert(lane_entry::<A::NotNan, I>(arr, q, fl.len() as usize, __r.not_nan_spec()));
                }
            }
//@end
}

impl<A: MaybeNan> ArrL<A> {
//@extract file=src/maybe_nan/mod.rs impl=MaybeNanExt:ArrayBase fn=map_axis_skipnan_mut id=ArrL::map_axis_skipnan_mut tags=C14 body_tags=C14 lower=map_axis_mut
//@sig
    fn map_axis_skipnan_mut<B, F>(&mut self, axis: Axis, mut mapping: F) -> (r: ArrS<B>)
    where
        F: FnMut(ArrL<A::NotNan>) -> B,
//@spec
        requires old(self).wf(axis.0 as int), forall|l: ArrL<A::NotNan>| #[trigger] call_requires(mapping, (l,)),
        ensures
            // one result per lane: the mapping applied to the lane with the missing values removed (each lane once)
            r.elems().len() == old(self).lanes(axis.0 as int).len(), // [C14]
            forall|j: int| 0 <= j < r.elems().len() ==> mapped_lane::<A, B, F>(mapping, old(self).lanes(axis.0 as int)[j], #[trigger] r.elems()[j]), // [C14]
//@replace_text
A::remove_nan_mut(lane)
verif_remove_nan_mut::<A>(lane)
//@at entry
        let ghost f0 = mapping; let ghost l0 = old(self).lanes(axis.0 as int); let ghost nl = l0.len() as int;
//@loop 0
            invariant
                forall|l: ArrL<A::NotNan>| #[trigger] call_requires(mapping, (l,)),
                forall|l: ArrL<A::NotNan>, out: B| #[trigger] call_ensures(mapping, (l,), out) <==> call_ensures(f0, (l,), out),
                it.seq() == __lzs, __lzs.len() == nl, self.lanes(axis.0 as int) == l0, self.wf(axis.0 as int), nl == l0.len(),
                forall|k: int| 0 <= k < nl ==> #[trigger] __lzs[k] < nl,
                forall|k1: int, k2: int| 0 <= k1 < k2 < nl ==> __lzs[k1] != __lzs[k2],
                forall|j: int| 0 <= j < nl ==> #[trigger] visits(__lzs, j),
                __res.slots().len() == nl,
                forall|k: int| 0 <= k < it.index@ ==> (#[trigger] __res.slots()[__lzs[k] as int]) is Some && mapped_lane::<A, B, F>(f0, l0[__lzs[k] as int], __res.slots()[__lzs[k] as int]->Some_0), // [C14]
//@at loop_start 0
            proof { assert(__j == __lzs[it.index@]); assert(lane@ == l0[__j as int]); }
            let ghost slots_before = __res.slots();
//@at loop_end 0
            proof {
                assert(__res.slots() == slots_before.update(__j as int, __res.slots()[__j as int]));
                assert(mapped_lane::<A, B, F>(f0, l0[__j as int], __res.slots()[__j as int]->Some_0));
            }
//@at after_loop 0
        proof {
            assert forall|j: int| 0 <= j < nl implies (#[trigger] __res.slots()[j]) is Some && mapped_lane::<A, B, F>(f0, l0[j], __res.slots()[j]->Some_0) by {
                assert(visits(__lzs, j));
                let k = choose|k: int| 0 <= k < __lzs.len() && __lzs[k] == j;
                assert(__res.slots()[__lzs[k] as int] is Some);
            }
        }
//@end
}

// ---- C20 / C01: the value of a quantile is determined by the multiset of the lane ---------------------------------------
// Every entry point above returns, per lane, a value `out` with `lane_entry(final lane, q, n, out)` where the final lane is a
// permutation of the original one.  Which permutation the randomized selection leaves behind depends on the pivots (and, in the
// real crate, on nothing else: the shim has no layout); this lemma shows that it does not matter: two arrangements of the same
// lane that both satisfy `lane_entry` give the same value, provided equivalent elements are identical (integers; for N64 the
// two zeros are equivalent but distinct, and the values agree up to that).
pub open spec fn antisym<A: Ord>() -> bool { forall|a: A, b: A| #[trigger] eqv(a, b) ==> a == b }
proof fn lemma_quantile_determined<A: Ord, I: Interpolate<A>>(lane: Seq<A>, f1: Seq<A>, f2: Seq<A>, q: N64, n: usize, v1: A, v2: A)
    requires
        lawful_ord::<A>(), antisym::<A>(), perm(f1, lane), perm(f2, lane),
        lane_entry::<A, I>(f1, q, n, v1), lane_entry::<A, I>(f2, q, n, v2),
    ensures v1 == v2, // [C20,C01,C18,C19] (C18: the bulk call and a single call both establish lane_entry for their own final arrangement)
{
    let (lo1, hi1) = choose|lo: Option<A>, hi: Option<A>| #![auto]
        (if I::needs_lower_spec(q, n) { lo is Some && selected_at(f1, lower_index_spec(q, n) as int, lo->Some_0) } else { lo is None })
        && (if I::needs_higher_spec(q, n) { hi is Some && selected_at(f1, higher_index_spec(q, n) as int, hi->Some_0) } else { hi is None })
        && v1 == I::interpolate_spec(lo, hi, q, n);
    let (lo2, hi2) = choose|lo: Option<A>, hi: Option<A>| #![auto]
        (if I::needs_lower_spec(q, n) { lo is Some && selected_at(f2, lower_index_spec(q, n) as int, lo->Some_0) } else { lo is None })
        && (if I::needs_higher_spec(q, n) { hi is Some && selected_at(f2, higher_index_spec(q, n) as int, hi->Some_0) } else { hi is None })
        && v2 == I::interpolate_spec(lo, hi, q, n);
    if I::needs_lower_spec(q, n) {
        lemma_order_statistic_unique(f1, f2, lower_index_spec(q, n) as int, lo1->Some_0, lo2->Some_0);
    }
    if I::needs_higher_spec(q, n) {
        lemma_order_statistic_unique(f1, f2, higher_index_spec(q, n) as int, hi1->Some_0, hi2->Some_0);
    }
    assert(lo1 == lo2 && hi1 == hi2);
}

} // verus!
fn main() {}
