# Which machinery decides which property.  `verus`: (unit, mode) pairs whose obligations carry the
# property's tag; `kani`: harnesses (complete = loop-free full-domain => counted as proof; otherwise
# bounded); `enum`: bounded concrete enumerations on the real crate (never counted as proof).

A_ND = "A-ND: ndarray honours the logical 1-D interface used by the verified bodies (len, Index, swap, slice_axis_mut/slice_move/view_mut sub-view semantics) for every stride, offset and storage"
A_RNG = "A-RNG: rand::thread_rng().gen_range(lo..hi) returns some value in lo..hi and panics on an empty range; the proofs hold for every such value (all pivot sequences)"
A_ORD = "A-ORD: the element type's Ord/PartialOrd is a lawful total order and Clone returns an equal value (lawful_ord / lawful_clone are preconditions; proved non-vacuous for u64, i64, usize)"
A_STD = "A-STD: contracts of std functions used by the bodies (binary_search, sort_unstable, dedup, split_at_mut, Option/Vec basics) as stated in shim/"
A_VERUS = "Verus 0.2026.09.13 + Z3 are sound; arithmetic overflow is checked by Verus on the executable text"
A_EXTRACT = "the extractor copies bodies byte-for-byte apart from the rewrites R1-R22 (incl. R19c, R19d) listed in DESIGN.md 8a; the generated text is re-derived from /repo on every run"
A_ENUM = "bounded enumerations run the real crate (cfg hook on) and are complete only up to the stated bound"

# witness search used when a Verus obligation of that function fails (replay enumeration name)
WITNESS = {
    "partition_mut": "partition",
    "get_from_sorted_mut": "select",
    "get_many_from_sorted_mut": "select_many",
    "remove_nan_mut": "nanview",
    "argmin": "minmax", "argmax": "minmax", "min": "minmax", "max": "minmax",
    "count_eq": "deviation", "count_neq": "deviation", "sq_l2_dist": "deviation", "l1_dist": "deviation", "linf_dist": "deviation",
    "Histogram::add_observation": "histogram", "Histogram::new": "histogram", "histogram": "histogram",
    "weighted_sum": "means", "weighted_mean": "means", "mean": "means",
    "EquiSpaced::n_bins": "strategies",
    "EquiSpaced::build": "strategies",
    "EquiSpaced::new": "strategies",
    "_get_many_from_sorted_mut_unchecked": "select_many",
    "quantiles_axis_mut_inner": "quantiles", "ArrL::quantiles_axis_mut": "quantiles", "ArrL::quantile_axis_mut": "quantiles", "ArrL::quantile_mut": "quantiles", "ArrL::quantiles_mut": "quantiles", "ArrL::quantile_axis_skipnan_mut": "skipnan",
    "fold_skipnan": "skipnan", "indexed_fold_skipnan": "skipnan", "visit_skipnan": "skipnan", "min_skipnan": "skipnan", "max_skipnan": "skipnan", "fold_axis_skipnan": "skipnan", "ArrL::map_axis_skipnan_mut": "skipnan", "argmin_skipnan": "skipnan", "argmax_skipnan": "skipnan",
    "inner_weighted_var": "moments", "weighted_var": "moments", "weighted_std": "moments", "horner_method": "moments", "moments": "moments",
    "entropy": "entropy", "kl_divergence": "entropy", "cross_entropy": "entropy",
    "cov": "cov", "pearson_correlation": "cov",
    "weighted_var_axis": "moments", "weighted_std_axis": "moments", "weighted_sum_axis": "means", "weighted_mean_axis": "means", "harmonic_mean": "means", "geometric_mean": "means",
    "central_moment_coefficients": "moments",
    "central_moment": "moments", "central_moments": "moments", "kurtosis": "moments", "skewness": "moments",
}

HOOK_COMMITS = ["31526a8", "897c241", "cafdc7d"]
ENGINES = [
    {"name": "verus", "path": "/usr/local/bin/verus", "kind_free_text": "deductive verifier (Verus 0.2026.09.13 + Z3) on function bodies extracted mechanically from /repo by tools/extract (syn)",
     "serves_properties": []},
    {"name": "kani", "path": "cargo kani", "kind_free_text": "CBMC-based model checker: loop-free full-domain harnesses (complete) and bounded stand-ins on the real crate", "serves_properties": []},
    {"name": "replay", "path": "/verif/replay", "kind_free_text": "runs the real crate (hooks on): counterexample replay, witness search, bounded concrete enumerations (never counted as proof)", "serves_properties": []},
]
NOTES = ("Contract-based deductive verification: ./check <id> extracts the real function bodies from /repo's working tree, splices the contracts of units/*.tpl.rs, "
         "runs Verus, maps failed obligations to properties through clause tags, replays/witness-searches on the real crate. exit 2 = INCONCLUSIVE (never an alarm).")
NOT_APPLICABLE = {
}

A_REAL = "A-REAL (machine arithmetic treated as mathematical): in the Verus units `moments`/`entropy`/`cov` every value of the float type denotes a real number and + - * / neg, comparisons, from_usize are the exact real operations (ln, sqrt, exp: uninterpreted real functions); what is proved is that the routine computes the formula of the property. Rounding is outside this model: the size of the error is measured only by the bounded enumerations against an exact rational oracle"
BOUNDED_NOTE = "bounded stand-in (never counted as proved): the routine's body is a closure / iterator-adaptor chain over ndarray (Zip, fold, map_axis, lanes) that Verus rejects, and Kani does not finish on ndarray's iterators within the tier budget"

PROPS = {
    "C02": {
        "level": "proof",
        "level_text": "Verus discharges, for every array, every in-range index (set) and every value the random generator may return at every recursion level, that single and bulk selection return the element a full sort would place there (partition form: position i holds r, everything before is <= r, everything from i on is >= r, the array is a permutation of its input), that the bulk form returns exactly one entry per distinct requested index in strictly increasing index order; the whole call chain of src/sort.rs is verified from extracted bodies",
        "level_note": "trusted: A-ND (1-D logical interface incl. sub-view frame), A-RNG (gen_range returns any in-range value: this is what quantifies over all pivot sequences), A-ORD, A-STD (binary_search, sort_unstable, dedup semantics, to_owned, vstd's split_at_mut), the IndexMap zip/collect expression (rewrite R8, assumed contract); bounded: enumeration of all weak-order patterns up to length 4 (quick) / 6 (thorough) under every pivot script on the real crate",
        "technique": "Verus contracts with decreases on the extracted recursive quickselect (single and bulk) + proved order/permutation lemmas",
        "design_ref": "DESIGN.md 4 (C02)",
        "verus": [("sort", "N")],
        "enum": [{"name": "select"}, {"name": "select_many"}],
        "assumptions": [A_ND, A_RNG, A_ORD, A_STD, A_VERUS, A_EXTRACT, A_ENUM],
        "assumed_repo_fns": ["src/sort.rs get_many_from_sorted_mut_unchecked: last expression `indexes.iter().cloned().zip(values.into_iter()).collect()` replaced by verif_zip_collect (R8) with an assumed contract; checked bounded by enum:select_many"],
        "not_decided": [],
    },
    "C04": {
        "level": "proof",
        "level_text": "Verus discharges, for every element type implementing MaybeNan, every length and every missing-value pattern, that the real generic compaction returns a view without missing values whose elements plus an all-missing tail are exactly the input multiset (hence length = number of non-missing elements), leaves that tail in the parent view, never indexes out of range, and returns an all-present input unchanged (idempotence; determinism is syntactic: no random choice in the body). The stride-aware unsafe view rebuilding (cast_view_mut and the two typed wrappers generated by macros) is outside Verus and is checked bounded at the memory level on the real crate",
        "level_note": "trusted: A-ND incl. slice_move's frame; bounded (never counted as proof): enum:nanview - lengths <= 4 (quick) / 6 (thorough), steps +-1..3, offsets 0/3 in a guarded 26-element parent, all patterns, 6 (quick) / 14 (thorough) element types: address containment, no missing value reachable through the not-NaN type, frame, determinism, idempotence",
        "technique": "Verus loop invariants on the extracted remove_nan_mut body; bounded memory-level enumeration of the unsafe view builders",
        "design_ref": "DESIGN.md 4 (C04)",
        "verus": [("nan", "N")],
        "kani": {"complete": ["complete_notnan_option_i32", "complete_notnan_option_u8", "complete_notnan_f64", "complete_notnan_f32"],
                 "bounded_quick": ["bounded_cast_view_f64", "bounded_cast_view_opt_i32"], "bounded_thorough": ["bounded_remove_nan_opt_i8"], "bounded_timeout": 2400,
                 "bound": "cast_view_mut on every slice (start,end,|step|<=3) of a 12-element buffer: pointer/len/stride preserved (symbolic); thorough: Option<i8>::remove_nan_mut end-to-end on symbolic contents, views of <= 3 elements with |step|<=2 in a 6-element buffer: length, address containment, no None reachable (about 16 min)"},
        "enum": [{"name": "nanview"}],
        "assumptions": [A_ND, A_VERUS, A_EXTRACT, A_ENUM, "unsafe code is outside Verus: the not-NaN wrappers (try_as_not_nan / from_not_nan* pointer casts, NotNone::deref's unreachable_unchecked) are covered by complete loop-free Kani harnesses for Option<i32>, Option<u8>, f64, f32; cast_view_mut and the typed remove_nan_mut wrappers only by bounded Kani harnesses and the memory-level enumeration"],
        "not_decided": ["soundness of the unsafe view builders beyond the enumerated bound"],
    },
    "C12": {
        "level": "proof",
        "level_text": "Verus discharges on the extracted EquiSpaced::{new,n_bins,build} bodies, generically in the element type with arithmetic left uninterpreted but deterministic (so the argument holds for N64 as well as for integers): new rejects exactly non-positive widths and min >= max with the Strategy error; n_bins returns the first n whose edge min + n*width - computed by the very expression build uses - lies strictly above the maximum (all earlier edges are <= max: at most one width above), terminates and cannot overflow whenever some edge passes the maximum; build produces strictly sorted edges containing min + 0*width and a bin for every value between that first edge and the maximum (coverage lemma proved by induction). The five strategy front-ends (sqrt/powf/log2/quantiles, f64 casts) are outside Verus: bounded enumeration on the real crate",
        "level_note": "trusted: A-NUM (num_traits NumOps/FromPrimitive/Zero are deterministic functions of their arguments; from_usize defined on 0..=m), A-ORD + PartialEq agrees with Ord, A-STD (sort_unstable, dedup, Vec push/len); the precondition 'some edge min + m*width exceeds max for m < usize::MAX' (true for integer data kept away from the type's limits and for floats whose width is not absorbed); exact integer spacing / first edge == min need the ring laws of the concrete type and are checked bounded only; bounded: enum:strategies - integer multisets of length <= 5 (quick) / 6 (thorough), N64 grids of 2..120 (quick) / 400 (thorough) points in 4 families, five strategies, 1-D GridBuilder + histogram total",
        "technique": "Verus contracts with uninterpreted generic arithmetic on extracted EquiSpaced bodies + inductive coverage lemma",
        "design_ref": "DESIGN.md 4 (C12)",
        "verus": [("equispaced", "N")],
        "enum": [{"name": "strategies"}],
        "assumptions": [A_ORD, A_STD, A_VERUS, A_EXTRACT, A_ENUM, "A-NUM: generic arithmetic (Add/Mul on T, FromPrimitive::from_usize, Zero::zero) is deterministic; machine arithmetic of the concrete element type is not interpreted"],
        "assumed_repo_fns": ["src/histogram/strategies.rs Sqrt/Rice/Sturges/FreedmanDiaconis/Auto::from_array, compute_bin_width, GridBuilder::{from_array,build}: float math and iterator chains outside Verus - bounded enumeration only"],
        "not_decided": ["termination / equal spacing / exact first edge for concrete element types beyond the enumerated data sets", "floating-point data whose bin width is absorbed by the magnitude of the minimum (precondition of the contracts)"],
    },
    "C13": {
        "level": "proof",
        "level_text": "Verus discharges on the extracted bodies of src/histogram/bins.rs, for every element type with a lawful order and every edge collection: Edges::from(Vec) yields strictly increasing edges holding exactly the distinct input values (sort_unstable + dedup under their real semantics, with a proved lemma about dedup on sorted input); indices_of / Bins::index_of return bin i exactly when edge_i <= v < edge_{i+1} and None exactly when no such bin exists; Bins::len == max(#edges-1,0); Bins::index returns the i-th edge pair. Grid accessors, Bins::range_of and Edges::from(Array1) use iterator chains / tuple-pattern closures that Verus rejects: bounded enumeration",
        "level_note": "trusted: A-STD (binary_search, sort_unstable, dedup as 'remove consecutive repeats', Vec basics), A-ORD plus 'PartialEq agrees with Ord and structural equality' for Edges::from, closure header annotation R9 in Bins::index_of; bounded: enum:bins - all edge collections of length <= 4 (quick) / 5 (thorough), all probes, 2-axis grids with <= 3 edges per axis",
        "technique": "Verus contracts + representation invariant (strictly sorted edges) on extracted Edges/Bins methods; lemmas relating binary-search outcomes to bin membership",
        "design_ref": "DESIGN.md 4 (C13)",
        "verus": [("bins", "N"), ("grid", "N")],
        "enum": [{"name": "bins"}],
        "assumptions": [A_ORD, A_STD, A_VERUS, A_EXTRACT, A_ENUM],
        "assumed_repo_fns": ["src/histogram/bins.rs Edges::as_array_view/iter; src/histogram/grid.rs Grid::{index,projections}: bounded enumeration only (Grid::{ndim,shape,index_of} are verified in unit grid)"],
        "not_decided": [],
    },
    "C17": {
        "level": "proof",
        "exhaustive": True,
        "level_text": "Verus discharges, on the bodies extracted from /repo (guard macros expanded from src/lib.rs on every run, R12), the error clauses of every fallible routine the property names, for arrays of every rank, shape and layout and generically in the element type: EmptyInput exactly for an empty receiver (argmin/argmax/min/max, argmin_skipnan/argmax_skipnan when nothing is left, mean, harmonic/geometric mean, central_moment(s), kurtosis, skewness, entropy, cov/pearson_correlation on no observations, every DeviationExt routine incl. the derived f64 measures, weighted_mean/var/std and their per-axis forms, kl_divergence, cross_entropy); ShapeMismatch carrying first_shape == shape of the receiver and second_shape == shape of the argument exactly when a non-empty receiver meets another shape (per-axis weights: another length than the axis), also through `?` in the wrappers; the sum-type routines weighted_sum / weighted_sum_axis only compare shapes and are Ok for empty inputs; InvalidQuantile carrying the first offending q, before EmptyInput for a zero-length axis, for quantiles_axis_mut (inner function), quantile_axis_mut, quantile_mut, quantiles_mut and quantile_axis_skipnan_mut; and Ok in every other case (clauses `r is Ok` tagged C17). EquiSpaced::new rejects exactly non-positive widths and max <= min with the Strategy error. A panic on these paths would be a failed precondition of a shim function (verif_assert, indexing, expect) and fails verification. The exhaustive decision table on the real crate remains as witness search and covers what the shim abstracts (concrete element types, the Display/From impls of the error enums)",
        "level_note": "trusted: A-ND n-D (len, shape, is_empty, equal shapes have equally many elements), std reflexive From (R12b), <[usize]>::to_vec copies the shape, EmptyInput -> MinMaxError::EmptyInput modelled by a constant, A-REAL for the units in which the value clauses live (the error clauses do not depend on it). NOT under contract: the histogram strategies from_array / GridBuilder::from_array (BinsBuildError::{EmptyInput, Strategy}: float formulas for the number of bins; exercised by enum:strategies under C12) - bounded only. bounded (witness search, not counted): enum:errors - ranks 1..3, axis lengths 0..2, every fallible public routine, error payloads compared",
        "technique": "Verus postconditions on the extracted bodies of every fallible routine named by the property (error value and payload, precedence, Ok otherwise); exhaustive bounded decision table on the real crate as witness search",
        "design_ref": "DESIGN.md 4 (C17)",
        "verus": [("equispaced", "N"), ("minmax", "N"), ("deviation", "N"), ("means", "N"), ("moments", "N"), ("entropy", "N"), ("cov", "N"), ("qglue", "N"), ("skipnan", "N")],
        "contract_sync": [("shim/qglue.rs", "pub fn get_many_from_sorted_mut_unchecked<A>(", "units/sort.tpl.rs", "id=get_many_from_sorted_mut_unchecked>>pub fn get_many_from_sorted_mut_unchecked<A>(")],
        "enum": [{"name": "errors"}],
        "assumptions": [A_ND, A_REAL, A_ENUM, A_VERUS, A_EXTRACT, BOUNDED_NOTE, "std: x.into() with the target type equal to the source type returns x (reflexive From; shim method verif_into_same)"],
        "not_decided": ["BinsBuildError of the histogram strategies (from_array of Sqrt, Rice, Sturges, FreedmanDiaconis, Auto; GridBuilder::from_array): bounded only (enum:strategies, C12)"],
        "rule": "one case per (routine, shape, other shape / weights length / q list); non-trivial = the cell is an error cell or a shape-mismatch candidate rather than the plain Ok cell",
    },
    "C15": {
        "level": "proof",
        "level_text": "Verus discharges, for every array length, content, pivot position and element type with a lawful order, the full postcondition of the real partition_mut body (rank = number of strictly smaller elements, pivot at k, strict/non-strict sides, permutation) and absence of panics/overflow; a bounded enumeration on the real crate doubles as witness search",
        "level_note": "trusted: ndarray 1-D logical interface (len/Index/swap) for every stride (A-ND), lawful Ord/Clone (A-ORD), Verus+Z3, the extractor's rewrites R1-R7; bounded part: arrays of length <= 5 (quick) / 7 (thorough) in 3 layouts",
        "technique": "Verus contracts (requires/ensures/loop invariants/decreases) on the mechanically extracted body of partition_mut",
        "design_ref": "DESIGN.md 4 (C15)",
        "verus": [("sort", "N")],
        "enum": [{"name": "partition"}],
        "assumptions": [A_ND, A_ORD, A_VERUS, A_EXTRACT, A_ENUM],
        "not_decided": [],
    },
    "C16": {
        "level": "proof",
        "level_text": "two-mode contracts on the same extracted bodies: mode N proves no panic and the postconditions for in-range arguments, mode P proves `ensures false` (with `decreases`) for out-of-range arguments against total primitive contracts, so an out-of-range call neither returns nor diverges under any pivot sequence and in any build profile; Bins/Grid and the bulk wrapper glue are additionally enumerated on the real crate",
        "level_note": "trusted: A-ND, A-RNG (gen_range panics on an empty range), A-ORD, Verus+Z3, extractor; debug_assert! is treated as a no-op in mode P (release semantics); bounded: Grid::index arity/zip and IndexMap glue by enumeration (<= 2 axes, lengths <= 4)",
        "technique": "Verus must-panic (`ensures false`) and no-panic contracts on extracted selection/partition/bin-index bodies",
        "design_ref": "DESIGN.md 2.3, 4 (C16)",
        "verus": [("sort", "N"), ("sort", "P"), ("bins", "N"), ("bins", "P")],
        "enum": [{"name": "oob"}, {"name": "oob", "profile": "relfast"}],
        "assumptions": [A_ND, A_RNG, A_ORD, A_VERUS, A_EXTRACT, A_ENUM,
                        "must-panic mode: ndarray's Index/swap/slice_axis_mut and rand's gen_range return only for in-range arguments; debug_assert! is a no-op (release semantics)"],
        "not_decided": [],
    },
}

KERN_COMPLETE = ['complete_select_i8', 'complete_select_i64', 'complete_select_u32', 'complete_midpoint_i8', 'complete_midpoint_i16', 'complete_midpoint_i32', 'complete_midpoint_i64', 'complete_midpoint_u8', 'complete_midpoint_u16', 'complete_midpoint_u32', 'complete_midpoint_u64']
INDEX_HARNESSES = ['bounded_index_len1', 'bounded_index_len2', 'bounded_index_len3', 'bounded_index_len4', 'bounded_index_len5', 'bounded_index_len7', 'bounded_index_len10']
LINEAR_HARNESSES = ["bounded_linear_i8_len3", "bounded_linear_u8_len4"]
KANI_BOUND = "index/Nearest laws: q fully symbolic in [0,1], len enumerated in {1,2,3,4,5,7,10}; Linear kernel: all i8 (len 3) / u8 (len 4) neighbour pairs with representable spread, q fully symbolic (thorough tier only)"

PROPS.update({
    "C01": {
        "level": "proof",
        "level_text": "decomposed along the call chain of quantiles_axis_mut: (1) selection - Verus proves on the extracted src/sort.rs bodies that the value fetched for index k is the k-th order statistic of the lane under every pivot sequence (C02 cone); (2) strategy kernels - loop-free full-domain Kani harnesses on the real Interpolate impls prove for i8..i64/u8..u64 that Lower/Higher return exactly the requested neighbour and that Midpoint lies in [lower, higher] within one unit of the exact midpoint whenever the spread is representable (complete proofs); (3) index pair and Nearest - Kani with q fully symbolic, len enumerated (bounded); (4) the glue of quantiles_axis_mut (q validation, Zip over lanes, IndexMap read-back, shapes, request order) is outside both verifiers and is enumerated on the real API against a sort-based oracle (bounded)",
        "level_note": "ALSO PROVED (unit qglue): the public entry points quantiles_axis_mut, quantile_axis_mut (one value per lane through index_axis_move), quantile_mut and quantiles_mut (1-D) are verified as callers of the inner function quantiles_axis_mut of src/quantile/mod.rs, which itself is verified from its extracted body for arrays of every dimensionality, every axis, every list of quantiles and every strategy (strategy kernels and the float index functions enter as abstract contracts; the per-lane bulk selection with the contract proved in unit sort; the Zip over pairs of lanes and the iter_mut().zip() loop are lowered mechanically, R11c/R11d): InvalidQuantile with the first offending q before EmptyInput for a zero-length axis; result shape = data shape with the axis replaced by the number of quantiles; entry t of lane j = strategy interpolation of the order statistics floor/ceil(q_t (n-1)) of that lane; every lane is left a permutation of itself. counted as proof: Verus queries of the sort unit + 11 complete Kani kernels. NOT counted (bounded): index/Nearest harnesses (len in {1..5,7,10}), Linear kernel (i8/u8 only, thorough), enum:quantiles (lanes <= 4/5, 4 element types, shapes up to 4-D, 5 strategies, layouts, pivot scripts). Not decided: Midpoint/Linear on N64 beyond a 1e-9 relative tolerance; 2 recorded findings (signed spread overflow in Midpoint and Linear)",
        "technique": "Verus contracts on extracted selection code + loop-free Kani kernels on the real interpolation strategies; bounded enumeration of the n-D glue",
        "design_ref": "DESIGN.md 4 (C01)",
        "verus": [("sort", "N"), ("qglue", "N")],
        "contract_sync": [("shim/qglue.rs", "pub fn get_many_from_sorted_mut_unchecked<A>(", "units/sort.tpl.rs", "id=get_many_from_sorted_mut_unchecked>>pub fn get_many_from_sorted_mut_unchecked<A>(")],
        "also_tags": ["C02"],
        "kani": {"complete": KERN_COMPLETE, "bounded_quick": INDEX_HARNESSES, "bounded_thorough": LINEAR_HARNESSES, "bound": KANI_BOUND},
        "enum": [{"name": "quantiles"}],
        "assumptions": [A_ND, A_RNG, A_ORD, A_STD, A_VERUS, A_EXTRACT, A_ENUM, "A-KANI: CBMC's bit-precise semantics of the MIR Kani generates (incl. IEEE-754 for the index arithmetic)", BOUNDED_NOTE],
        "assumed_repo_fns": ["src/quantile/mod.rs quantiles_axis_mut (inner fn), quantile_axis_mut, quantile_mut, quantiles_mut: glue outside Verus/Kani - bounded enumeration only"],
        "not_decided": ["Midpoint / Linear on N64 lanes (float arithmetic) beyond the enumerated tolerance check", "Linear on 16..64-bit integers beyond the enumerated lanes (a symbolic f64 multiplication does not finish in CBMC)"],
    },
    "C19": {
        "level": "proof",
        "level_text": "the order laws follow from facts established per component: selection returns order statistics whatever the pivots and whatever permutation of the lane is stored (Verus, C02 cone: the contract speaks about the multiset only; that the multiset determines the order statistic, hence the quantile, is proved: lemma_order_statistic_unique / lemma_quantile_determined); the index pair is monotone in q, adjacent, equal exactly when the fraction is 0, 0 at q=0 and N-1 at q=1 (Kani, q symbolic, len enumerated: bounded); kernels: Lower/Higher exact, Midpoint within [lower, higher] and equal to both when they coincide (Kani complete). The API-level laws (monotone in q, min/max at 0/1, Lower <= others <= Higher, coincidence at integral positions, permutation invariance, commuting with increasing relabellings) are additionally enumerated without an oracle",
        "level_note": "ALSO PROVED (unit qglue): the public entry points quantiles_axis_mut, quantile_axis_mut (one value per lane through index_axis_move), quantile_mut and quantiles_mut (1-D) are verified as callers of the inner function quantiles_axis_mut of src/quantile/mod.rs, which itself is verified from its extracted body for arrays of every dimensionality, every axis, every list of quantiles and every strategy (strategy kernels and the float index functions enter as abstract contracts; the per-lane bulk selection with the contract proved in unit sort; the Zip over pairs of lanes and the iter_mut().zip() loop are lowered mechanically, R11c/R11d): InvalidQuantile with the first offending q before EmptyInput for a zero-length axis; result shape = data shape with the axis replaced by the number of quantiles; entry t of lane j = strategy interpolation of the order statistics floor/ceil(q_t (n-1)) of that lane; every lane is left a permutation of itself. counted as proof: sort-unit Verus queries + complete kernels; bounded: index harnesses, enum:qlaws (lanes <= 4/5 over i32, i8, N64; all permutations for N <= 4), enum:quantiles. Float Linear 'up to one ulp': not decided",
        "technique": "Verus selection contracts + Kani kernel/index harnesses; oracle-free bounded law enumeration",
        "design_ref": "DESIGN.md 4 (C19)",
        "verus": [("sort", "N"), ("qglue", "N")],
        "contract_sync": [("shim/qglue.rs", "pub fn get_many_from_sorted_mut_unchecked<A>(", "units/sort.tpl.rs", "id=get_many_from_sorted_mut_unchecked>>pub fn get_many_from_sorted_mut_unchecked<A>(")],
        "also_tags": ["C02"],
        "kani": {"complete": KERN_COMPLETE, "bounded_quick": INDEX_HARNESSES, "bounded_thorough": LINEAR_HARNESSES, "bound": KANI_BOUND},
        "enum": [{"name": "qlaws"}],
        "assumptions": [A_ND, A_RNG, A_ORD, A_STD, A_VERUS, A_EXTRACT, A_ENUM, BOUNDED_NOTE],
        "not_decided": ["floating-point Linear interpolation up to one ulp"],
    },
    "C18": {
        "level": "proof",
        "level_text": "bulk selection equals single selection: Verus proves that every entry of get_many_from_sorted_mut and the result of get_from_sorted_mut satisfy the same specification selected_at(array, i, .) on a permutation of the same input, which determines the value up to order-equivalence (and exactly for total orders that coincide with equality), for every request list and pivot sequence - this last step is itself proved: lemma_order_statistic_unique (two arrangements of one multiset, both partitioned around position i, hold equivalent elements there; counting argument in shim/orderstat.rs) and lemma_quantile_determined (two arrangements satisfying lane_entry give the same quantile), so a bulk call and a single call cannot disagree. quantile_axis_mut is literally quantiles_axis_mut with one q followed by index_axis_move; the bulk/single agreement of the quantile API and of the per-axis weighted sums/means is enumerated on the real crate",
        "level_note": "ALSO PROVED (unit qglue): in quantiles_axis_mut every entry of the bulk result is specified per (lane, q) independently of the other requested quantiles - the same specification the single-q call (a one-element list) gets. counted as proof: sort unit. bounded: enum:quantiles (bulk slice j vs single call, request lists with repeats/empty), enum:select_many, enum:means (per-axis forms vs per-lane whole-array routine). Not decided: central_moments(p)[k] vs central_moment(k) bit for bit and the float per-axis variance (float closure chains, powi)",
        "technique": "Verus contracts shared by the bulk and single selection routines; bounded enumeration for the quantile / per-axis glue",
        "design_ref": "DESIGN.md 4 (C18)",
        "verus": [("sort", "N"), ("moments", "N"), ("qglue", "N")],
        "contract_sync": [("shim/qglue.rs", "pub fn get_many_from_sorted_mut_unchecked<A>(", "units/sort.tpl.rs", "id=get_many_from_sorted_mut_unchecked>>pub fn get_many_from_sorted_mut_unchecked<A>(")],
        "enum": [{"name": "select_many", "abort_props": ["C02"]}, {"name": "quantiles", "abort_props": ["C01"]}, {"name": "means", "abort_props": ["C06"]}],
        "assumptions": [A_ND, A_RNG, A_ORD, A_STD, A_VERUS, A_EXTRACT, A_ENUM, BOUNDED_NOTE],
        "not_decided": ["central_moments(p)[k] == central_moment(k) and per-axis weighted variance vs the whole-array routine: proved in exact arithmetic only (unit moments, assumption A-REAL: both sides equal the same formula); bit-for-bit equality of the floating-point results is bounded (sampled f64 arrays, orders 0..10, ddof in {0, .5, 1})"],
    },
    "C03": {
        "level": "proof",
        "level_text": "Verus proves permutation postconditions (multiset of the view after = multiset before) for partition_mut, get_from_sorted_mut, the bulk selection core/middle/wrapper and remove_nan_mut (result + missing tail = input multiset, tail stays in the parent) on the extracted bodies; the only mutation primitive those bodies use is swap on the view (A-ND: it touches exactly those two logical elements), so nothing outside the view can change. The n-D forms (quantile*_axis_mut, quantile_axis_skipnan_mut, map_axis_skipnan_mut) delegate lane by lane through ndarray's lanes_mut/map_axis_mut: lane independence and the frame are enumerated with guard elements around stepped views",
        "level_note": "ALSO PROVED (unit qglue): quantiles_axis_mut leaves the shape unchanged and every lane along the axis a permutation of itself (lanes are taken out and put back one position at a time: A-ND lanes). counted as proof: sort and nan units. bounded: enum:quantiles (lanes keep their multisets, guards of a stepped parent intact, every axis), enum:nanview (frame at the memory level), enum:skipnan (map_axis_skipnan_mut / quantile_axis_skipnan_mut keep lane multisets), enum:select",
        "technique": "Verus multiset postconditions + frame through the trusted swap/sub-view contracts; bounded guard-element enumeration for the n-D forms",
        "design_ref": "DESIGN.md 4 (C03)",
        "verus": [("sort", "N"), ("nan", "N"), ("qglue", "N")],
        "contract_sync": [("shim/qglue.rs", "pub fn get_many_from_sorted_mut_unchecked<A>(", "units/sort.tpl.rs", "id=get_many_from_sorted_mut_unchecked>>pub fn get_many_from_sorted_mut_unchecked<A>(")],
        "enum": [{"name": "partition", "abort_props": ["C15"]}, {"name": "select", "abort_props": ["C02"]}, {"name": "quantiles", "abort_props": ["C01"]}, {"name": "nanview", "abort_props": ["C04"]}, {"name": "skipnan", "abort_props": ["C14", "C04"]}],
        "assumptions": [A_ND, A_RNG, A_ORD, A_STD, A_VERUS, A_EXTRACT, A_ENUM, BOUNDED_NOTE],
        "not_decided": [],
    },
    "C14": {
        "level": "proof",
        "level_text": "Verus discharges a contract for every routine the property names, each on the body extracted from /repo, for arrays of every dimensionality, shape and layout (logical interface A-ND) and every MaybeNan element type. remove_nan_mut hands over exactly the non-missing elements of a lane (C04 clauses tagged C14), which is what quantile_axis_skipnan_mut / map_axis_skipnan_mut apply the plain operation to. fold_skipnan, indexed_fold_skipnan and visit_skipnan are verified from their extracted bodies (unit skipnan: the closure handed to ndarray's fold / for_each captures the user's FnMut, which Verus rejects, so the call is lowered mechanically to a loop over the visited items, R19): every element is visited exactly once, a missing one leaves the accumulator unchanged and every other one is handed to f with its not-NaN value (and, for the indexed form, its own index pattern, in logical order). fold_axis_skipnan is verified the same way (R19d lowers ndarray's fold_axis to one accumulator per lane, started from init and threaded through the lane in axis order): one result per lane, the accumulator cloned over a missing element and handed to fold with the not-NaN value otherwise. min_skipnan and max_skipnan are verified as callers of fold_skipnan (the missing value when nothing is left, otherwise a not-missing element that bounds every not-missing element; induction over the fold trace; the inline closure and the intermediate result are named by the in-place rewrite R21). quantile_axis_skipnan_mut is verified in unit qglue (InvalidQuantile before EmptyInput; one value per lane: the missing value when the lane has no not-missing element, otherwise the plain quantile of its not-missing elements - the map_axis_mut closure is annotated with exactly that contract and checked against its body, which calls the verified quantile_axis_mut on the compacted lane; remove_nan_mut enters with the contract proved in unit nan). map_axis_skipnan_mut is verified in unit qglue (R19c lowers ndarray's map_axis_mut to a loop over the lanes, each exactly once): result j is the user's mapping applied to a 1-D view of exactly the not-missing elements of lane j. argmin_skipnan and argmax_skipnan hand indexed_fold_skipnan a closure that assigns to a captured local, which Verus rejects in any form; there the body of indexed_fold_skipnan is inlined from /repo at the call (R22: the closure's body replaces the calls of the closure parameter, with a capture check), its fold is lowered by R19 and the comparison `m <= elem` on references is spelled as a shim function by R16; proved: EmptyInput exactly when nothing is left, otherwise the index pattern of a not-missing element that bounds every not-missing element (for a lawful order). Everything above is also compared on the real crate with filter-then-plain computed independently (witness search and the layouts / element types the shim abstracts)",
        "level_note": "trusted: A-ND n-D (fold / for_each visit every element exactly once in an unspecified order; indexed_iter yields (index, element) in logical order; map_axis_mut hands every lane along the axis to the closure exactly once and puts result j at the logical position of lane j; fold_axis starts every lane from a copy of init and goes along the axis in order), the MaybeNan impls of f32/f64/Option<T> satisfy the trait contract of shim/skipnan.rs (try_as_not_nan is None exactly for a missing value; checked over the full domain for f32/f64 by the Kani harnesses of C04), the order on A::NotNan is lawful (A-ORD), comparison operators on references agree with cmp, the lowerings R19/R19c/R19d and the inlining R22 preserve meaning (DESIGN.md 8a/8e), EmptyInput is modelled as the MinMaxError constant. bounded (witness search and a cross-check of those assumptions on the real crate, not counted as proof): f64 and Option<i32> over 4-letter alphabets, every content for <= 4 elements, shapes 1-D..3-D incl. empty, every axis, 3 layouts; quantiles for q in {0,.3,.5,1} x {Lower,Higher,Nearest}",
        "technique": "Verus contracts (loop invariants over mechanically lowered folds, closure contracts, induction over fold traces) on the extracted bodies of remove_nan_mut, every skip-NaN fold / visit / per-axis fold / per-lane map, min/max/argmin/argmax_skipnan and quantile_axis_skipnan_mut; bounded enumeration of the whole skip-NaN API against filter-then-plain as witness search",
        "design_ref": "DESIGN.md 4 (C14), 8a, 8e",
        "verus": [("nan", "N"), ("skipnan", "N"), ("qglue", "N")],
        "enum": [{"name": "skipnan"}],
        "assumptions": [A_ND, A_ORD, A_VERUS, A_EXTRACT, A_ENUM, BOUNDED_NOTE, "the MaybeNan impls of f32/f64/Option<T> honour the trait contract stated in shim/skipnan.rs and shim/qglue.rs (assumed; f32/f64 is_nan checked over the full domain by Kani under C04)"],
        "not_decided": ["which of several equal extrema argmin_skipnan / argmax_skipnan designate (the property asks for a position holding the value)", "the order in which map_axis_skipnan_mut presents the remaining elements of a lane to the mapping (unspecified by the crate)"],
        "rule": "one case per (element type, shape, content, layout); non-trivial = at least 2 elements and at least one missing value",
    },
    "C05": {
        "level": "proof",
        "level_text": "Verus discharges on the extracted bodies of argmin, argmax, min and max (src/quantile/mod.rs), for arrays of every dimensionality, shape and layout (n-D logical interface A-ND) and every element type whose partial order is float-like (incomparable exactly when a NaN is involved, lawful otherwise - proved non-vacuous for i32/u64): an empty array gives EmptyInput; a NaN anywhere (first, middle, last: the first element is compared with itself) gives UndefinedOrder; otherwise the arg form returns the logical index of an element that is <= (>=) every element and the value form returns a reference to such an element. argmin/argmax: loop invariants over the indexed_iter loop; min/max: the fold closure is annotated with its step relation (checked against the closure body) and an induction lemma over the fold trace, valid for any visiting order. The enumeration on the real crate doubles as witness search",
        "level_note": "trusted: A-ND n-D (first(), ndim(), D::zeros(n).into_pattern() is the index of the first logical element, indexed_iter yields each (index, element) once in logical order - modelled as a Vec of pairs so that Verus' Vec iteration applies -, fold applies the closure to each element exactly once in an unspecified order), core::cmp::Ordering's derived == is structural, the conversion EmptyInput -> MinMaxError::EmptyInput of errors.rs is modelled by a constant (Verus does not connect `?` with user From impls; the mapping is exercised by enum:minmax/errors); f32/f64 satisfy float_like_laws (IEEE-754 comparison) is assumed, not proved. bounded: enum:minmax - f64 over {NaN,-0.0,0.0,-inf,inf,1.5} and i32, every content for <= 4 elements, shapes 0-D..4-D incl. zero-length axes, 5 layouts",
        "technique": "Verus loop invariants (argmin/argmax) and closure contract + induction over the fold trace (min/max) on the extracted bodies",
        "design_ref": "DESIGN.md 4 (C05), 8a",
        "verus": [("minmax", "N")],
        "enum": [{"name": "minmax"}],
        "assumptions": [A_VERUS, A_EXTRACT, A_ENUM, "A-ND (n-D): ndarray's first/ndim/indexed_iter/fold/Dimension::zeros honour the logical contract stated in shim/ndarr.rs for every layout and ownership", "IEEE-754 comparison on f32/f64 satisfies float_like_laws (assumed)"],
        "not_decided": [],
        "rule": "one case per (element type, shape, content, layout); non-trivial = at least 2 elements",
    },
    "C06": {
        "level": "proof",
        "level_text": "Verus discharges on the extracted bodies of weighted_sum, weighted_mean and mean (src/summary_statistics/means.rs), generically in the element type with its own operators (uninterpreted, deterministic): weighted_sum returns an error exactly when the shapes differ (also for empty input) and otherwise zero + d_0*w_0 + d_1*w_1 + ... with data and weights paired by logical index in logical order, whatever the two memory layouts (the zip/fold closure is annotated with its step relation and checked against its body; a proved lemma turns the fold trace into a left fold); weighted_mean is EmptyInput for empty data, an error for different shapes, else weighted_sum divided by the sum of the weights with the type's own division; mean is EmptyInput for empty data, else (sum of all elements) / n with the type's own division. Integer exactness of the underlying machine arithmetic, ALSO PROVED in exact arithmetic (unit moments, assumption A-REAL): weighted_sum_axis / weighted_mean_axis (entry j = weighted sum of lane j with the same weights [/ sum of the weights], pairing by logical index; nested closures: map_axis closure + fold closure re-headed with three parameters), harmonic_mean = 1 / mean(1/x) and geometric_mean = exp(mean(ln x)) with EmptyInput for empty data; all of them are also compared with exact i64 arithmetic / their definitions on the real crate",
        "level_note": "trusted: A-ND n-D (iter() yields the elements in logical order, Iterator::zip pairs position by position, Iterator::fold goes left to right, sum() adds every element once in an unspecified order, equal shapes have equally many elements), A-NUM (generic Add/Mul/Div/Zero/FromPrimitive deterministic and defined for the operands), rewrite R9 with a binding prefix for the destructuring closure parameters `|acc, (&d, &w)|`. NOT decided: floating-point accuracy (forward error bound) of every routine; per-axis forms and harmonic/geometric mean are bounded only (enum:means: i64/i32 over {-9,0,4,100}, weights {0,1,3}, <= 3 elements exhaustively and sampled above, shapes up to 3-D, 9 layout pairings)",
        "technique": "Verus contracts on the extracted mean / weighted_sum / weighted_mean bodies (closure step relation + fold-trace lemma); bounded enumeration against exact integer arithmetic for the rest",
        "design_ref": "DESIGN.md 4 (C06), 8a",
        "verus": [("means", "N"), ("moments", "N")],
        "enum": [{"name": "means"}, {"name": "floatsums"}],
        "assumptions": [A_VERUS, A_EXTRACT, A_ENUM, "A-ND (n-D) iter/zip/fold/sum as stated in shim/means.rs", "A-NUM: generic arithmetic is deterministic; machine arithmetic of the concrete element type is not interpreted"],
        "not_decided": ["floating-point accuracy beyond the inputs of enum:floatsums (f64 mean / weighted_sum / weighted_mean vs the exact rational value within (n+2) u sum|terms|: bounded only); accuracy of harmonic_mean / geometric_mean (ln, exp)", "per-axis forms and harmonic/geometric mean beyond the enumerated inputs"],
        "rule": "one case per (shape, data, weights, layout pair) or (axis, axis weights); non-trivial = at least 2 elements",
    },
    "C07": {
        "level": "exploration",
        "level_text": "two parts. (1) Formula, proved: under the exact-arithmetic reading A-REAL, Verus discharges on the extracted bodies of inner_weighted_var (West's one-pass recurrence: loop invariant mean*W == sum w x, S == sum w x^2 - mean^2 W, every algebraic step by proved ring lemmas), weighted_var, weighted_std, moments, central_moment_coefficients, central_moment, central_moments, horner_method, kurtosis, skewness, weighted_var_axis and weighted_std_axis that for non-negative weights of positive total weight weighted_var == sum w (x - xbar_w)^2 / (sum w - ddof) >= 0 and weighted_std its square root, that central_moment(p) == (1/n) sum (x - xbar)^p for every order, exactly one for order 0 and exactly zero for order 1, central_moments(p)[k] == central_moment(k), kurtosis == mu4/mu2^2, skewness == mu3/sqrt(mu2)^3, Horner's loop evaluates c0 + c1 z + ..., the per-axis forms return one entry per lane along the axis, each equal to the whole-array formula applied to that lane with the same weights (map_axis: assumed contract), and the EmptyInput / shape checks. (2) Forward error, bounded: the real crate is compared on f64 inputs with the definition evaluated in exact rational arithmetic, within the forward-error bounds stated in the enumeration (West: 8(n+2)u(S + sqrt(S W)|xbar|)/|W - ddof|; central moments: 8(n+p)p u (1/n)sum(|x - xbar| + delta)^p), including zero weights, ddof in {0, .5, 1}, data with a large mean relative to its spread, orders 0..8, shapes up to 3-D in 5 layouts, and the per-axis forms lane by lane bit for bit",
        "level_note": "NOT counted as proof of the property: rounding is not modelled (A-REAL). trusted: A-ND n-D (iter/zip in logical order, mean, sum, map, mapv), vstd's specs of the generic operators, A-ITER (iterator adaptor chains as vectors of their items: IterBinomial::new, zip, rev, map, collect - shim/iterchain.rs), R15 costs the precondition order < 65535 for central_moments. f32: not run. bounded: enum:moments as described in its bound string",
        "technique": "Verus contracts in exact (real) arithmetic on the extracted variance / moment routines (West loop invariant, ring lemmas) + bounded comparison of the real crate with an exact rational oracle under stated forward-error bounds",
        "design_ref": "DESIGN.md 8d (C07)",
        "verus": [("moments", "N")],
        "kani": {"complete": [], "bounded_quick": ["bounded_cm_coefficients_len1", "bounded_cm_coefficients_len2", "bounded_cm_coefficients_len3", "bounded_cm_coefficients_len4", "bounded_cm_coefficients_len5", "bounded_horner_len0_1"], "bounded_thorough": [],
                 "bound": "central_moment_coefficients (verified by Verus in exact arithmetic over the iterator shim) as compiled, on every content of an f64 slice of length 1..5 (orders 0..4), NaN and infinities included: coefficient k is bit for bit C(len-1, k) * moments[len-1-k]; horner_method on 0 and 1 coefficients (more symbolic double multiplications do not finish in CBMC)"},
        "enum": [{"name": "moments"}],
        "assumptions": [A_REAL, A_VERUS, A_EXTRACT, A_ENUM, "A-ND (n-D) iter/zip/mean/sum/map/mapv as stated in shim/realnum.rs", "A-ITER: std / num_integer iterator adaptors (IterBinomial::new, iter, rev, zip, map, collect) behave as the vectors of their items stated in shim/iterchain.rs"],
        "assumed_repo_fns": [],
        "not_decided": ["the forward-error bound for inputs outside the enumerated ones; f32; weights of mixed sign (the property's sign guarantee is for non-negative weights)"],
        "rule": "one case per (shape, data, weights, ddof) or (shape, data) x layouts; non-trivial = at least 2 elements (and positive total weight for the variance)",
    },
    "C08": {
        "level": "exploration",
        "level_text": "two parts. (1) Formula, proved under the exact-arithmetic reading A-REAL and *assumed* contracts of the ndarray operations the bodies are made of (len_of, mean_axis, insert_axis, broadcasting subtraction, t, dot, mapv_into, std_axis, element-wise division, each stated for both axes / both operand orders so that a wrong axis or a transposed product fails): Verus discharges on the extracted bodies of cov and pearson_correlation that for rows = variables and columns = observations cov(ddof) is the (variables x variables) matrix with entry (i, j) = sum_k (x_ik - xbar_i)(x_jk - xbar_j) / (n - ddof), EmptyInput for zero observations, and pearson_correlation has entry (i, j) = cov_ij / (sigma_i sigma_j) with covariance and standard deviations taken with the same ddof, EmptyInput when either dimension is zero. (2) Accuracy and laws, bounded: the real crate is compared with the definition evaluated in exact rational arithmetic within a stated forward-error bound, and checked for symmetry, non-negative diagonal, correlation range [-1, 1], unit diagonal, invariance under x -> 4x + 3 and sign flip under negation, for 4 memory layouts and ddof in {0, 1, 0.5}",
        "level_note": "NOT counted as proof of the property: rounding is not modelled, and the matrix product is ndarray's (matrixmultiply, unsafe) entering only through its assumed contract. trusted: shim/mat.rs (2-D logical interface of ndarray incl. broadcasting and dot), R16 (`self - &m` written as a function call because the operator on references trips an internal error of the installed Verus), R2 for panic!. The known finding C17/cov_zero_variables (0 variables x n observations returns Ok) is consistent with the contract here (EmptyInput is only claimed for zero observations). bounded: enum:cov as described in its bound string",
        "technique": "Verus contracts in exact arithmetic on the extracted cov / pearson_correlation bodies over assumed ndarray contracts + bounded comparison of the real crate with an exact rational oracle and algebraic laws",
        "design_ref": "DESIGN.md 8d (C08)",
        "verus": [("cov", "N")],
        "enum": [{"name": "cov"}],
        "assumptions": [A_REAL, A_VERUS, A_EXTRACT, A_ENUM, "A-ND (2-D): ndarray's len_of/mean_axis/insert_axis/broadcast subtraction/t/dot/mapv_into/std_axis/element-wise division as stated in shim/mat.rs (assumed contracts on a dependency)"],
        "not_decided": ["accuracy beyond the enumerated inputs; f32; symmetry / range / invariances as exact mathematical facts (they are consequences of the proved formula in exact arithmetic but are only checked numerically)"],
        "rule": "one case per (matrix, layout, ddof); non-trivial = at least 2 variables and 2 observations",
    },
    "C09": {
        "level": "proof",
        "level_text": "Verus discharges on the extracted bodies of count_eq, count_neq, sq_l2_dist, l1_dist and linf_dist (after the mechanical rewrites R11: `Zip::from(a).and(b).for_each(closure)` becomes a loop over the index-aligned pairs with the closure body as loop body, and R12: the crate's guard macros are expanded from src/lib.rs), for arrays of every dimensionality and layout: an empty receiver gives EmptyInput, different shapes give ShapeMismatch carrying both shapes (the `.into()` of the guard macro is a conversion to the same type, spelled as a shim method by R12b), otherwise count_eq is exactly the number of index positions holding equal elements (independent of the order in which Zip visits them: vstd's fold-permutation lemma), count_eq + count_neq is the number of elements, and each distance is the fold of its documented term ((a-b)^2, |a-b|, running maximum of |a-b| from zero) with the element type's own arithmetic over all index-aligned pairs, each exactly once - and equals the fold in logical order whenever that fold is order-insensitive (commutative_foldl: true for integer addition and for max of a total order). The derived f64 measures l2_dist, mean_abs_err, mean_sq_err, root_mean_sq_err and peak_signal_to_noise_ratio are verified as callers of those contracts: the same errors, and otherwise exactly their documented formula over the f64 operations taken as uninterpreted functions (sqrt(to_f64(sq)), to_f64(l1)/n, to_f64(sq)/n, sqrt of that, 10*log10(maxv*maxv/mse), with the evaluation order of the source). They and the integer exactness are additionally compared on the real crate with exact i64 arithmetic / bit for bit with their documented formulas, for every pairing of 5 layouts and 4 ownership kinds",
        "level_note": "trusted: A-ND n-D incl. Zip (each index exactly once, elements paired at the same index, unspecified order), slice ==, <[T]>::to_vec, the element type's operators follow their vstd specs and are defined for all operands (for machine integers this is a no-overflow hypothesis); std's reflexive From (x.into() of the same type returns x), ToPrimitive::to_f64 is Some for every value of the element type (precondition to_f64_total), f64 /, *, sqrt, log10 and `usize as f64` are uninterpreted deterministic functions. Not proved: symmetry/zero-on-identical as algebraic facts; float inputs 'within roundoff': not decided. bounded: enum:deviation - i64/i32 over {-7,0,3,1000}, all pairs of contents for <= 2 elements, sampled above, shapes up to 4-D",
        "technique": "Verus contracts on the extracted deviation kernels (loop over zipped pairs, fold-permutation lemma) and on the derived f64 measures as their callers; bounded enumeration as witness search",
        "design_ref": "DESIGN.md 4 (C09), 8a",
        "verus": [("deviation", "N")],
        "enum": [{"name": "deviation"}, {"name": "floatsums"}],
        "assumptions": [A_VERUS, A_EXTRACT, A_ENUM, "A-ND (n-D) incl. Zip::for_each as stated in shim/zip.rs", "A-NUM: generic Sub/Mul/AddAssign/abs/zero are deterministic and defined for all operands (arith_total)"],
        "not_decided": ["float inputs beyond enum:floatsums (f64 sq_l2_dist / l1_dist vs the exact rational value within (n+4) u sum of terms, linf_dist and the derived measures bit for bit: bounded only), big-integer element types beyond the generic statement", "l2_dist / mean_* / psnr as functions of the exact distances: bounded only"],
        "rule": "one case per (shape, contents of both operands, layout pair); non-trivial = at least 2 elements and operands differ",
    },
    "C10": {
        "level": "exploration",
        "level_text": "two parts. (1) Formula and structure, proved: under the exact-arithmetic reading with finiteness (A-REAL: a value is an ordinary number or not; operations on ordinary numbers are the exact real operations; ln is an uninterpreted real function defined for positive arguments only, so that 0 * ln 0 is *not* an ordinary number), Verus discharges on the extracted bodies of entropy, kl_divergence and cross_entropy (after the mechanical rewrite R11b of `Zip::from(&mut temp).and(self).and(q).for_each(closure)` into a loop over the index-aligned triples, visited in an unspecified order) and of `impl From<ShapeMismatch> for MultiInputError`: for arrays of ordinary non-negative numbers of every dimensionality and layout (q may be zero only where p is zero), the result is an ordinary number equal to -sum x ln x, -sum p ln(q/p), -sum p ln q with p and q paired by logical index and every term whose x (p) is zero contributing exactly zero - removing a zero branch fails the proof -; EmptyInput for an empty receiver; ShapeMismatch carrying both shapes for different shapes. (2) Roundoff, identities and NaN rules, bounded: on the real crate (f64 and f32) the result is compared with minus the exactly summed element-type terms within 2(n+1)u sum|terms|, KL(p,p) == 0, H(p,q) = H(p) + KL(p,q) within roundoff, KL >= 0 and H <= ln n for exactly normalised vectors, a NaN in a contributing term gives NaN (and a NaN q under a zero p does not), mixed layouts of p and q",
        "level_note": "NOT counted as proof of the property: rounding and the algebraic identities of ln are not modelled. trusted: A-ND n-D (mapv, sum, raw_dim, Array::zeros, Zip over three operands: each index once, elements at the same index, unspecified order), vstd's operator specs. bounded: enum:entropy as described in its bound string",
        "technique": "Verus contracts in exact arithmetic with finiteness on the extracted entropy / KL / cross-entropy bodies (Zip closure lowered to a loop) + bounded comparison of the real crate with exactly summed terms, identities and NaN rules",
        "design_ref": "DESIGN.md 8d (C10)",
        "verus": [("entropy", "N")],
        "enum": [{"name": "entropy"}],
        "assumptions": [A_REAL, A_VERUS, A_EXTRACT, A_ENUM, "A-ND (n-D) mapv/sum/zeros/raw_dim/Zip as stated in shim/realnum.rs and shim/entropy.rs"],
        "not_decided": ["roundoff beyond the enumerated inputs; the inequalities KL >= 0 and H <= ln n as mathematical facts about ln (ln is uninterpreted in the proofs)"],
        "rule": "one case per (element type, shape, contents of p and q) x layout pairings; non-trivial = at least 2 elements",
    },
    "C11": {
        "level": "proof",
        "level_text": "Verus discharges on the extracted bodies of Histogram::new, Histogram::add_observation and Histogram::ndim a representation invariant over histories: for every grid and every history of (accepted or rejected) observations, the count stored at each index tuple inside the shape equals the number of observations of the history lying in that cell (left-closed, right-open on every axis); new() establishes it for the empty history with the grid's shape; add_observation re-establishes it for the extended history, returns BinNotFound exactly when no cell contains the point and then changes nothing. Uniqueness of the cell (needed to show that no other count moves) is a proved lemma over the strictly sorted edges. The per-axis lookup Bins::index_of is proved in the bins unit. The matrix form HistogramExt::histogram (one observation per row: loop over axis_iter(Axis(0))) is verified on its extracted body too: every count of the result is the number of rows of the matrix falling into that cell. Grid::{ndim, shape, index_of} are verified in unit `grid` (iterator chains modelled as vectors of their items, A-ITER; the closure's tuple pattern is written as two parameters) and used by the histogram proofs through identical callee contracts (checked textually on every run): counts after every insert, rejected inserts, order independence, row-/column-major matrices",
        "level_note": "trusted: ArrayD<usize> as a map from index tuples to counts (zeros, Index/IndexMut by &[usize]) - A-ND; contracts of Grid::{ndim,shape,index_of} proved in unit grid (also exercised by enum:bins and enum:histogram); counts below usize::MAX (precondition). bounded: enum:histogram - grids of 1..3 axes over 5 edge sets, sequences of <= 3 (quick) / 4 (thorough) observations over 7 coordinate values per axis",
        "technique": "Verus data-structure invariant (counts == fold over the observation history) on extracted Histogram methods; bounded enumeration of grid/histogram histories",
        "design_ref": "DESIGN.md 4 (C11), 8a",
        "verus": [("bins", "N"), ("grid", "N"), ("hist", "N")],
        "contract_sync": [("shim/hist.rs", "pub fn index_of(&self, point: &Lane<A>)", "units/grid.tpl.rs", "pub fn index_of(&self, point: &Lane<A>)"), ("shim/hist.rs", "pub fn shape(&self)", "units/grid.tpl.rs", "pub fn shape(&self)"), ("shim/hist.rs", "pub fn ndim(&self) -> (n: usize)", "units/grid.tpl.rs", "pub fn ndim(&self) -> (n: usize)"),
                          ("shim/grid_iter.rs", "pub fn index_of(&self, value: &A)", "units/bins.tpl.rs", "id=Bins::index_of>>pub fn index_of(&self, value: &A)"), ("shim/grid_iter.rs", "pub fn len(&self) -> (n: usize)", "units/bins.tpl.rs", "id=Bins::len>>pub fn len(&self) -> (n: usize)")],
        "enum": [{"name": "histogram"}],
        "assumptions": [A_ORD, A_STD, A_VERUS, A_EXTRACT, A_ENUM, BOUNDED_NOTE],
        "assumed_repo_fns": ["ndarray axis_iter(Axis(0)) of a 2-D array: every row once, in index order (assumed, shim/hist.rs)"],
        "not_decided": [],
        "rule": "one case per (grid, observation sequence); non-trivial = at least one observation and every axis has at least one bin",
    },
    "C20": {
        "level": "exploration",
        "level_text": "two parts. (1) The property itself as lemmas over the verified contracts: for 38 routines a Verus lemma takes the postcondition the routine was verified against (call_ensures of the routine) for two logically equal arrays - same shape, same elements in logical order, same index patterns; strides, memory order, offset and ownership are whatever the uninterpreted layout-revealing functions of the shim say, independently for the two - and derives that the answers agree: identical results and identical errors (both shapes in the payload) for count_eq, count_neq, weighted_sum; identical whenever the order of summation is immaterial for the element type (integers) for sq_l2_dist, l1_dist, linf_dist, l2_dist, mean_abs_err, mean_sq_err, root_mean_sq_err, mean, weighted_mean; the same real value under A-REAL (on the machine: up to summation roundoff, as the property asks) for weighted_var, weighted_std, central_moment, kurtosis, skewness, harmonic_mean, geometric_mean, entropy, kl_divergence, cross_entropy; the same real value per lane for weighted_sum_axis, weighted_mean_axis, weighted_var_axis, weighted_std_axis (equal lanes along the axis), per order for central_moments, per entry for cov and pearson_correlation (equal entries of the observation matrix); extremal elements of the same logical array, equivalent under the element order, for argmin, argmax, min, max, min_skipnan, max_skipnan, argmin_skipnan, argmax_skipnan (which of several equivalent extremal elements is returned is not determined by the contract, nor by the code: known finding D11); equal counts in every cell for histogram(). For the quantile family the relational fact is proved over the vocabulary of the contracts instead of call_ensures (the entry points take &mut self): two arrangements of the same lane that both satisfy lane_entry - the postcondition every quantile entry point establishes per lane - give the same value when equivalent elements are identical (lemma_quantile_determined, from a proved counting argument that order statistics are determined by the multiset, shim/orderstat.rs), so neither the pivots nor the layout can influence a quantile. A contract that stops determining the answer, or a body that starts to depend on layout (as_slice_memory_order and is_standard_layout have deliberately weak contracts), fails its lemma or its postcondition. (2) For every function under a Verus contract the shim exposes only ndarray's logical interface, so the proofs hold for every layout/ownership for which ndarray honours that interface (assumption A-ND). The stride-aware unsafe code is enumerated at the memory level (enum:nanview). Every other public routine is run on pairs (canonical array, logically equal re-layout) and must return bit-identical results for order-based and integer statistics and exact results for float sums of small integers",
        "level_note": "bounded: enum:layouts - random integer-valued data, shapes 1-D..4-D (<= 16 elements), F-order / stepped-in-parent / reversed axes / embedded at an offset, owned/view/shared/copy-on-write, static vs dynamic dimension; enum:nanview. Float sums under different summation orders: only exactly-representable data",
        "technique": "relational (2-safety) lemmas over the verified contracts of 38 routines + the quantile determinism lemma (call_ensures of the routine on two logically equal arrays) + logical-interface shim for every function under contract + bounded re-layout enumeration on the real crate (incl. the stride-aware unsafe code at the memory level)",
        "design_ref": "DESIGN.md 4 (C20)",
        "verus": [("nan", "N"), ("minmax", "N"), ("bins", "N"), ("deviation", "N"), ("means", "N"), ("entropy", "N"), ("moments", "N"), ("hist", "N"), ("qglue", "N"), ("skipnan", "N"), ("cov", "N")],
        "enum": [{"name": "layouts"}, {"name": "nanview", "abort_props": ["C04"]}, {"name": "moments"}, {"name": "entropy"}, {"name": "cov"}],
        "assumptions": [A_ND, A_VERUS, A_EXTRACT, A_ENUM, BOUNDED_NOTE],
        "not_decided": ["floating-point sums whose value depends on summation order (roundoff bound)", "no relational lemma for: the skip-NaN folds / visit / per-lane map (they take the caller's closure), Bins / strategies, remove_nan_mut: their contracts speak about the logical view only, and the re-layout enumeration covers them (bounded)"],
        "rule": "one case per (shape, data, layout) pair against the canonical C-order array; non-trivial = a non-canonical layout with at least 2 elements",
    },
})

# functions whose contracts a property's proof relies on without the property being *about* them: a failure there is
# reported by the property that owns the contract (C15 for partition_mut, C02 for selection) and leaves this one undecided
SORT_FNS = ["partition_mut", "get_from_sorted_mut", "get_many_from_sorted_mut", "get_many_from_sorted_mut_unchecked", "_get_many_from_sorted_mut_unchecked"]
PROPS["C02"]["dependency_fns"] = ["partition_mut"]
PROPS["C18"]["dependency_fns"] = ["partition_mut"]
PROPS["C01"]["dependency_fns"] = SORT_FNS
PROPS["C19"]["dependency_fns"] = SORT_FNS
