import concurrent.futures as cf
import hashlib
import json
import os
import re
import subprocess
import sys
import time

VERIF = os.path.dirname(os.path.dirname(os.path.abspath(__file__)))
REPO = os.environ.get("VERIF_REPO", "/repo")
BUILD = os.environ.get("VERIF_BUILD", os.path.join(VERIF, "build"))
EVIDENCE_DIR = os.environ.get("VERIF_EVIDENCE_DIR", os.path.join(VERIF, "evidence"))
VX = os.path.join(VERIF, "tools/extract/target/release/vx")
RLIMIT = "60"
GUARD = "rust_ndarray_ndarray_stats_verif"

sys.path.insert(0, os.path.dirname(os.path.abspath(__file__)))
import config  # noqa: E402

VERIF_FAIL_PATTERNS = [
    "postcondition not satisfied",
    "precondition not satisfied",
    "invariant not satisfied",
    "assertion failed",
    "possible arithmetic underflow/overflow",
    "possible division by zero",
    "decreases not satisfied",
    "could not prove termination",
    "unreachable",
    "possible bit shift",
    "loop invariant",
    "failed this",
    "cannot show invariant",
    "recommendation not met",
]


class Inconclusive(Exception):
    def __init__(self, reason, detail=""):
        super().__init__(reason + ": " + detail)
        self.reason = reason
        self.detail = detail


def sh(cmd, cwd=None, env=None, timeout=None):
    e = dict(os.environ)
    e["CARGO_NET_OFFLINE"] = "true"
    if env:
        e.update(env)
    t0 = time.time()
    try:
        p = subprocess.run(cmd, cwd=cwd, env=e, stdout=subprocess.PIPE, stderr=subprocess.PIPE, timeout=timeout)
        return p.returncode, p.stdout.decode("utf-8", "replace"), p.stderr.decode("utf-8", "replace"), time.time() - t0
    except subprocess.TimeoutExpired as ex:
        return 124, (ex.stdout or b"").decode("utf-8", "replace"), (ex.stderr or b"").decode("utf-8", "replace") + "\nTIMEOUT", time.time() - t0


def ensure_vx():
    if not os.path.exists(VX):
        rc, o, e, _ = sh(["cargo", "build", "--release", "--offline"], cwd=os.path.join(VERIF, "tools/extract"))
        if rc != 0:
            raise Inconclusive("tool-error", "cannot build extractor: " + e[-2000:])


# ------------------------------------------------------------------------------------------------
# Verus units


def classify(msg):
    if "rlimit" in msg or "Resource limit" in msg:
        return "rlimit"
    for p in VERIF_FAIL_PATTERNS:
        if p in msg:
            return "obligation"
    return "tool"


def norm_clause(text):
    t = re.sub(r"//.*$", "", text).strip()
    t = re.sub(r"\s+", " ", t)
    return t[:90]


def run_unit(unit, mode, vacuity=False, seed=None, stub=None):
    """extract + verify one unit in one mode; returns a result dict.
    When a function of the unit can no longer be placed (lost anchor) or no longer compiles against the shim, that
    function is replaced by a trusted stub of its contract and the rest of the unit is verified again: the stubbed
    function is then undecided (never an alarm), the others keep their verdicts."""
    ensure_vx()
    os.makedirs(BUILD, exist_ok=True)
    stub = list(stub or [])
    stem = "%s_%s%s%s" % (unit, mode, "_vac" if vacuity else "", ("_s%d" % seed) if seed is not None else "")
    gen = os.path.join(BUILD, stem + ".rs")
    mapf = os.path.join(BUILD, stem + ".map.json")
    for _attempt in range(8):
        cmd = [VX, "--template", os.path.join(VERIF, "units", unit + ".tpl.rs"), "--repo", REPO, "--out", gen, "--map", mapf, "--mode", mode]
        if vacuity:
            cmd.append("--vacuity")
        if stub:
            cmd += ["--stub", ",".join(stub)]
        rc, o, e, _ = sh(cmd)
        if rc == 3:
            mm = re.search(r"\[fn=([^\]]+)\]", e)
            if mm and mm.group(1) not in stub and "candidates for fn" not in e:
                stub.append(mm.group(1))
                continue
            raise Inconclusive("lost-anchor", e.strip())
        if rc != 0:
            raise Inconclusive("tool-error", "vx: " + e.strip())
        # a body with a loop or a closure the template has no contract section for cannot carry its proof ("needs
        # contract"): whatever Verus would say about it is undecided, never a violation -> treated like a lost anchor
        un = [f["id"] for f in json.load(open(mapf))["functions"]
              if (f.get("unannotated_loops", 0) > 0 or f.get("unannotated_closures", 0) > 0) and f["id"] not in stub]
        if un:
            stub += un
            continue
        break
    else:
        raise Inconclusive("lost-anchor", "too many functions lost their anchors")
    res = verify_generated(unit, mode, vacuity, seed, gen, mapf)
    # compile errors located inside extracted functions: stub those functions and verify the rest
    for _attempt in range(4):
        bad = sorted({t["fn"] for t in res["tool_errors"] if t.get("fn")} - set(stub))
        if not bad or len([t for t in res["tool_errors"] if not t.get("fn")]) > 0:
            break
        stub += bad
        cmd = [VX, "--template", os.path.join(VERIF, "units", unit + ".tpl.rs"), "--repo", REPO, "--out", gen, "--map", mapf, "--mode", mode, "--stub", ",".join(stub)]
        if vacuity:
            cmd.append("--vacuity")
        rc, o, e, _ = sh(cmd)
        if rc != 0:
            break
        res = verify_generated(unit, mode, vacuity, seed, gen, mapf)
    res["stubbed"] = stub
    return res


def verify_generated(unit, mode, vacuity, seed, gen, mapf):
    stem = os.path.basename(gen)[:-3]
    m = json.load(open(mapf))
    vcmd = ["verus", gen, "--multiple-errors", "50", "--rlimit", RLIMIT, "--output-json", "--time", "--time-expanded", "--error-format=json"]
    if seed is not None:
        vcmd += ["--smt-option", "smt.random_seed=%d" % seed, "--smt-option", "sat.random_seed=%d" % seed]
    rc, out, err, wall = sh(vcmd, cwd=BUILD, timeout=900)
    if rc == 124:
        raise Inconclusive("timeout", "verus on " + stem)
    try:
        j = json.loads(out)
    except Exception:
        raise Inconclusive("tool-error", "verus produced no JSON for %s: %s" % (stem, (err or out)[-1500:]))
    diags = []
    for line in err.splitlines():
        line = line.strip()
        if not line.startswith("{"):
            continue
        try:
            d = json.loads(line)
        except Exception:
            continue
        if d.get("level") != "error":
            continue
        if d.get("message", "").startswith("aborting due to"):
            continue
        diags.append(d)
    lines = open(gen).read().split("\n")
    pieces = m["pieces"]

    def piece_at(line):
        best = None
        for p in pieces:
            if p["out_start"] <= line <= p["out_end"]:
                # prefer the most specific (latest) piece that is not plain separator
                if p["kind"] != "sep":
                    best = p
        return best

    fails, tool_errors, rlimits = [], [], []
    for d in diags:
        msg = d.get("message", "")
        cls = classify(msg)
        spans = d.get("spans", [])
        prim = [s for s in spans if s.get("is_primary")] or spans
        if cls == "tool" or d.get("code"):
            pf = None
            if prim:
                pc = piece_at(prim[0]["line_start"]) or {}
                if pc.get("kind") in ("body", "rewrite", "loop", "ghost", "closure", "sig", "spec"):
                    pf = pc.get("fn")
            tool_errors.append({"message": msg, "rendered": d.get("rendered", "")[:1500], "fn": pf})
            continue
        if not prim:
            tool_errors.append({"message": msg, "rendered": d.get("rendered", "")[:1500]})
            continue
        ps = prim[0]
        piece = piece_at(ps["line_start"]) or {}
        if cls == "rlimit":
            rlimits.append({"fn": piece.get("fn"), "message": msg, "tags": piece.get("tags", "")})
            continue
        # tags: explicit `// [..]` comment on the clause lines, else the piece's tags
        tags = None
        for ln in range(ps["line_start"], ps["line_end"] + 1):
            mm = re.search(r"//\s*\[([A-Z0-9, ]+)\]", lines[ln - 1]) if ln - 1 < len(lines) else None
            if mm:
                tags = [t.strip() for t in mm.group(1).split(",")]
        if tags is None:
            tg = piece.get("tags", "")
            tags = [t for t in tg.split(",") if t] if isinstance(tg, str) else tg
        clause = norm_clause(lines[ps["line_start"] - 1]) if ps["line_start"] - 1 < len(lines) else ""
        kind = piece.get("kind", "?")
        label = piece.get("label", "")
        src = None
        if kind in ("body", "rewrite") and piece.get("src_file"):
            src_line = piece.get("src_line", 0) + (ps["line_start"] - piece["out_start"]) if kind == "body" else piece.get("src_line", 0)
            src = "%s:%d" % (piece["src_file"], src_line)
        msgclass = re.sub(r"[^a-z]+", "-", msg.lower()).strip("-")[:40]
        oid = "verus:%s_%s::%s::%s%s::%s::%s" % (unit, mode, piece.get("fn", "<shim>"), kind, (":" + label) if label else "", msgclass, clause)
        fails.append({"id": oid, "fn": piece.get("fn"), "tags": tags, "message": msg, "kind": kind, "label": label,
                      "clause": clause, "src": src, "rendered": d.get("rendered", "")[:3000],
                      "gen_line": ps["line_start"]})
    # per-function results
    funcs = {}
    try:
        for mt in j["times-ms"]["smt"]["smt-run-module-times"]:
            for fb in mt.get("function-breakdown", []):
                funcs[fb["function"]] = {"success": fb["success"], "smt_ms": fb.get("time", 0), "rlimit": fb.get("rlimit", 0), "mode": fb.get("mode:", "")}
    except Exception:
        pass
    vr = j.get("verification-results", {})
    if "verified" not in vr:
        tool_errors.append({"message": "no verification results (compile error?)", "rendered": err[-1500:]})
    res = {
        "unit": unit, "mode": mode, "vacuity": vacuity, "gen": gen, "map": m,
        "verified": vr.get("verified", 0), "errors": vr.get("errors", 0),
        "fails": fails, "tool_errors": tool_errors, "rlimits": rlimits, "funcs": funcs,
        "smt_ms": j.get("times-ms", {}).get("smt", {}).get("smt-run", 0), "wall_s": wall,
        "verus_version": j.get("verus", {}).get("version", "?"),
        "cmd": " ".join(vcmd),
    }
    return res


def map_funcs(funcs, extracted):
    """verus function name -> extracted function record (or None for shim / lemma functions)"""
    out = {}
    for f in extracted:
        vn = f.get("verus_name", f["fn"])
        qual = (f["id"].rsplit("::", 1)[0] + "::" + vn) if "::" in f["id"] else vn
        cands = [n for n in funcs if n.endswith("::" + qual)]
        if not cands:
            # trait impls are printed as `impl&%k::name`: fall back to the last segment when it is unambiguous
            same = [g for g in extracted if g.get("verus_name", g["fn"]) == vn]
            if len(same) == 1:
                cands = [n for n in funcs if n.split("::")[-1] == vn]
        for n in cands:
            out[n] = f
    return out


def scan_trusted(gen_path):
    """mechanical scan of a generated file for unproved assumptions: every definition marked external_body (functions,
    axioms, opaque types), every assume_specification, every admit()/assume()"""
    txt = open(gen_path).read().split("\n")
    out = []
    for i, l in enumerate(txt):
        if "//" in l:
            l = l[:l.index("//")] if not l.strip().startswith("#") else l
        if re.search(r"#\[verifier::external_body\]|#\[verifier::external\]|external_fn_specification", l):
            name, kind = "", "external_body"
            for k in range(i, min(i + 6, len(txt))):
                mm = re.search(r"\b(proof\s+fn|fn|struct|enum)\s+([A-Za-z0-9_]+)", txt[k])
                if mm:
                    name = mm.group(2)
                    if mm.group(1).startswith("proof"):
                        kind = "axiom (external_body proof fn)"
                    elif mm.group(1) in ("struct", "enum"):
                        kind = "opaque type"
                    break
            if name:
                out.append("%s (%s)" % (name, kind))
        mm = re.search(r"assume_specification\s*(?:<[^\[]*>)?\s*\[\s*(.+?)\s*\]\s*\(", l)
        if mm:
            out.append("%s (assume_specification)" % mm.group(1))
        mm = re.search(r"^\s*pub trait\s+([A-Za-z0-9_]+)", l)
        if mm:
            out.append("%s (trait: the contracts of its methods are assumed of every implementor)" % mm.group(1))
        if re.search(r"\badmit\s*\(|\bassume\s*\(", l):
            out.append("line %d: %s (admit/assume)" % (i + 1, l.strip()[:80]))
    return sorted(set(out))


def replay_bin(profile="release"):
    tdir = os.path.join(BUILD, "replay-target")
    rdir = os.path.join(VERIF, "replay")
    lock = os.path.join(rdir, "Cargo.lock")
    try:
        src = open(os.path.join(REPO, "Cargo.lock")).read()
        if not os.path.exists(lock):
            open(lock, "w").write(src)
    except Exception:
        pass
    env = {"RUSTFLAGS": "--cfg %s" % GUARD, "CARGO_TARGET_DIR": tdir}
    rc, o, e, w = sh(["cargo", "build", "--profile", profile, "--offline"], cwd=rdir, env=env, timeout=1500)
    if rc != 0:
        raise Inconclusive("tool-error", "replay crate does not build against /repo: " + e[-3000:])
    return os.path.join(tdir, profile, "replay")


def run_replay(args, timeout=1200, profile="release"):
    b = replay_bin(profile)
    rc, o, e, w = sh([b] + args, timeout=timeout)
    try:
        j = json.loads(o)
    except Exception:
        if (rc < 0 or rc == 101) and "--trace" not in args:
            # the real crate killed the process (abort: non-unwinding panic / unsafe-precondition check / UB trap), or panicked
            # (exit status 101) at a call the enumeration does not expect to panic (the calls a property allows to panic are
            # wrapped in fw::guarded), e.g. an arithmetic overflow check in a debug-assertions build.
            # Re-run with a trace file to identify the case; this is a crash of the real code on a concrete input.
            tf = os.path.join(BUILD, "replay-trace-%d.txt" % os.getpid())
            rc2, o2, e2, w2 = sh([b] + args + ["--trace", tf], timeout=timeout)
            case = open(tf).read() if os.path.exists(tf) else "?"
            msg = (e2 or e).strip().splitlines()[-1:] or ["process aborted"]
            return {"name": args[0], "bound": "aborted before completion", "evaluations": 0, "distinct_nontrivial": 0, "samples": [],
                    "failures": [{"case": case, "props": "", "what": ("the real crate aborted the process on this input (signal %d): %s" % (-rc, msg[0][:200])) if rc < 0 else ("the real crate panicked on this input, where the property admits no panic: %s" % " | ".join(l.strip() for l in (e2 or e).strip().splitlines()[:2])[:300]),
                                  "detail": {"stderr": (e2 or e)[-600:]}}],
                    "wall_s": w + w2, "cmd": "replay " + " ".join(args), "aborted": True}
        raise Inconclusive("tool-error", "replay %s: rc=%d %s" % (" ".join(args), rc, (e or o)[-1500:]))
    j["wall_s"] = w
    j["cmd"] = "replay " + " ".join(args)
    return j


# ------------------------------------------------------------------------------------------------
# Kani


def kani_group(harnesses, timeout=1200, jobs=8):
    """run a group of harnesses of the kani/ crate in one cargo-kani invocation; returns (per-harness status, info)"""
    kdir = os.path.join(VERIF, "kani")
    lock = os.path.join(kdir, "Cargo.lock")
    if not os.path.exists(lock):
        open(lock, "w").write(open(os.path.join(REPO, "Cargo.lock")).read())
    env = {"RUSTFLAGS": "--cfg %s" % GUARD, "CARGO_TARGET_DIR": os.path.join(BUILD, "kani-target")}
    cmd = ["cargo", "kani", "-j", str(jobs), "--output-format", "terse"]
    for h in harnesses:
        cmd += ["--harness", h]
    rc, o, e, w = sh(cmd, cwd=kdir, env=env, timeout=timeout)
    txt = o + "\n" + e
    failed = set(x.split("::")[-1] for x in re.findall(r"Verification failed for - (\S+)", txt))
    summ = re.search(r"Complete - (\d+) successfully verified harnesses, (\d+) failures, (\d+) total", txt)
    checked = set(x.split("::")[-1] for x in re.findall(r"Checking harness (\S+?)\.\.\.", txt))
    status = {}
    for h in harnesses:
        if h in failed:
            status[h] = "failed"
        elif summ and int(summ.group(3)) == len(harnesses) and h in checked:
            status[h] = "success"
        elif rc == 124:
            status[h] = "timeout"
        else:
            status[h] = "error"
    times = [float(x) for x in re.findall(r"Verification Time: ([0-9.]+)s", txt)]
    info = {"cmd": " ".join(cmd), "wall_s": w, "verification_s": sum(times), "tail": txt[-3000:], "rc": rc,
            "failed_checks": re.findall(r"Failed Checks: (.*)", txt)[:10]}
    return status, info


# ------------------------------------------------------------------------------------------------


def contract_clauses(path, marker):
    """the requires/ensures text that follows the first line containing `marker`, up to the body / next directive,
    as a whitespace- and comment-free string (used to compare a callee contract with the contract proved elsewhere)"""
    try:
        lines = open(path).read().split("\n")
    except Exception:
        return None
    start = 0
    if ">>" in marker:
        first, marker = marker.split(">>", 1)
        hits = [i for i, ln in enumerate(lines) if first in ln]
        if not hits:
            return None
        start = hits[0]
    for i, ln in enumerate(lines):
        if i >= start and marker in ln:
            out = []
            for l2 in lines[i + 1:]:
                t = l2.strip()
                if t.startswith("{") or t.startswith("//@") and not t.startswith("//@spec"):
                    break
                if t.startswith("//@spec") or t.startswith("#["):
                    continue
                t = re.sub(r"//.*$", "", t)
                out.append(t)
            return re.sub(r"[\s,]+", "", "".join(out))
    return None


def load_known():
    findings, fixed = [], []
    p = os.path.join(VERIF, "known_findings.txt")
    if os.path.exists(p):
        for l in open(p):
            l = l.strip()
            if not l or l.startswith("#"):
                continue
            mm = re.match(r"finding:\s*property=(\S+)\s+match=(\S+)\s+(.*)", l)
            if mm:
                findings.append({"property": mm.group(1), "match": mm.group(2), "text": mm.group(3)})
            elif l.startswith("fixed:"):
                fixed.append(l)
    return findings, fixed


def write_json(path, obj):
    os.makedirs(os.path.dirname(path), exist_ok=True)
    tmp = path + ".tmp"
    with open(tmp, "w") as f:
        json.dump(obj, f, indent=1, sort_keys=False)
    os.replace(tmp, path)


def main(argv):
    if not argv:
        print(__doc__)
        return 4
    pid = argv[0]
    tier = os.environ.get("VERIF_TIER", "quick")
    replay_file = None
    i = 1
    while i < len(argv):
        if argv[i] == "--tier":
            tier = argv[i + 1]
            i += 2
        elif argv[i] == "--replay":
            replay_file = argv[i + 1]
            i += 2
        else:
            print("unknown argument", argv[i])
            return 4
    seed = int(os.environ.get("VERIF_SEED", "0") or 0)
    if pid not in config.PROPS:
        print("property %s is not claimed (see MANIFEST.json not_applicable)" % pid)
        return 4
    if replay_file:
        return do_replay(pid, replay_file)
    t0 = time.time()
    try:
        return decide(pid, tier, seed, t0)
    except Inconclusive as ex:
        print("INCONCLUSIVE property=%s reason=%s" % (pid, ex.reason))
        print(ex.detail[-3000:])
        return 2
    except Exception as ex:  # a crash of the machinery is never an alarm
        import traceback
        print("INCONCLUSIVE property=%s reason=tool-error (%s)" % (pid, type(ex).__name__))
        traceback.print_exc()
        return 2


def do_replay(pid, path):
    """re-run the failing input recorded in a replay file against the real crate"""
    j = json.load(open(path))
    rc_all = 0
    for v in j.get("violations", []):
        w = v.get("witness")
        print("obligation:", v.get("id"))
        if w and w.get("replay_args"):
            r = run_replay(w["replay_args"])
            print(json.dumps(r, indent=1)[:3000])
            if r.get("failures"):
                rc_all = 1
        else:
            print("no failing input recorded (no-failing-input-found); verifier output:")
            print(v.get("rendered", ""))
    return rc_all


def decide(pid, tier, seed, t0):
    P = config.PROPS[pid]
    findings, fixed = load_known()
    findings = [f for f in findings if f["property"] == pid]
    thorough = tier == "thorough"
    # obligations carrying one of these tags are in the property's dependency cone
    eff = set([pid] + P.get("also_tags", []))

    def in_cone(tags):
        if isinstance(tags, str):
            tags = [t for t in tags.split(",") if t]
        return bool(eff & set(tags))

    units = list(P.get("verus", []))
    jobs = []
    with cf.ThreadPoolExecutor(max_workers=8) as ex:
        for (u, m) in units:
            jobs.append(("unit", (u, m), ex.submit(run_unit, u, m, False, None)))
            jobs.append(("vac", (u, m), ex.submit(run_unit, u, m, True, None)))
            if thorough:
                for s in (1, 2):
                    jobs.append(("seed", (u, m, s), ex.submit(run_unit, u, m, False, s + seed)))
        results = []
        unit_problems = []
        for kind, key, fut in jobs:
            try:
                results.append((kind, key, fut.result()))
            except Inconclusive as ex:
                # the deductive side cannot decide this unit on this tree (lost anchor, unsupported construct, ...):
                # never an alarm by itself; the bounded enumerations on the real crate still run and may find a failing input
                if kind == "unit":
                    unit_problems.append("%s_%s: %s: %s" % (key[0], key[1], ex.reason, ex.detail[-600:]))

    violations = []   # dicts with id, rendered, ...
    dep_broken = []
    known_hits = []
    inconclusive = list(unit_problems)
    # callee contracts that one unit uses and another unit proves must be the same text
    for (fa, ma, fb, mb) in P.get("contract_sync", []):
        ca, cb = contract_clauses(os.path.join(VERIF, fa), ma), contract_clauses(os.path.join(VERIF, fb), mb)
        if not ca or ca != cb:
            inconclusive.append("callee contract of `%s` in %s differs from the contract proved in %s" % (ma, fa, fb))
    obligations = 0
    discharged = 0
    fn_under_contract = []
    trusted = set()
    dropped = []
    smt_ms = 0
    samples = []
    checker_cmds = []
    vac_ok = 0
    vac_total = 0
    clause_count = 0
    for kind, key, r in results:
        crate = os.path.basename(r["gen"])[:-3]
        extracted = r["map"]["functions"]
        if r["tool_errors"]:
            if kind == "unit":
                inconclusive.append("unsupported-construct in %s: %s" % (crate, (r["tool_errors"][0]["rendered"] or r["tool_errors"][0]["message"])[-600:]))
            continue
        if kind == "vac":
            # every extracted function must be REJECTED when `assert(false)` is placed at its entry
            for f in extracted:
                if not in_cone(f["tags"]) or f.get("stubbed"):
                    continue
                vac_total += 1
                fm = map_funcs(r["funcs"], extracted)
                names = [n for n, g in fm.items() if g["id"] == f["id"]]
                if names and all(not r["funcs"][n]["success"] for n in names):
                    vac_ok += 1
                else:
                    inconclusive.append("vacuity probe accepted for %s in %s (contradictory precondition?)" % (f["id"], crate))
            continue
        smt_ms += r["smt_ms"]
        if kind == "seed":
            # brittleness probe: same obligations under another solver seed
            bl_ = [x for k2, key2, x in results if k2 == "unit" and key2 == key[:2]]
            if not bl_:
                continue
            base = bl_[0]
            if {f["id"] for f in r["fails"]} != {f["id"] for f in base["fails"]} or bool(r["rlimits"]) != bool(base["rlimits"]):
                inconclusive.append("solver-seed instability in %s seed %s" % (crate, key[2]))
            continue
        checker_cmds.append(r["cmd"])
        trusted.update(scan_trusted(r["gen"]))
        # relevant functions: extracted functions tagged with this property + shim/lemma functions (always)
        rel_fn_ids = {f["id"] for f in extracted if in_cone(f["tags"])}
        for f in extracted:
            if f.get("stubbed") and f["id"] in rel_fn_ids:
                inconclusive.append("%s::%s could not be placed against its contract on this tree (lost anchor / construct outside the shim): undecided by the deductive side" % (crate, f["id"]))
        for f in extracted:
            if f["id"] in rel_fn_ids and not f.get("stubbed"):
                fn_under_contract.append({
                    "unit": crate, "fn": f["id"], "repo_file": f["file"], "lines": "%d-%d" % (f["src_line_start"], f["src_line_end"]),
                    "body_sha256": hashlib.sha256(f["body"].encode()).hexdigest(), "loops": f["loops"],
                })
                for il in f.get("inlined", []):
                    dropped.append("%s:%d R22 the call of %s is replaced by its body from %s:%d (closure body substituted for the calls of its closure parameter); line numbers below refer to the text after inlining" % (f["file"], f["src_line_start"], il["callee"], il["file"], il["callee_line"]))
                for rw in f["rewrites"]:
                    dropped.append("%s:%d %s -> %s" % (f["file"], rw["src_line"], rw["rule"], rw["to"]))
        # obligations = verified + failed queries of functions in the cone (extracted tagged fns, plus every
        # proof/lemma/shim wrapper function of the unit: they ground the contracts)
        fm = map_funcs(r["funcs"], extracted)
        bad_fns = {f["fn"] for f in r["fails"] if in_cone(f["tags"]) and not f["message"].startswith("recommendation")}
        bad_fns |= {rl.get("fn") for rl in r["rlimits"]}
        for name, fr in r["funcs"].items():
            ex = fm.get(name)
            if ex is not None and ex["id"] not in rel_fn_ids:
                continue
            obligations += 1
            # a query counts as discharged for this property when no failed obligation carrying the
            # property's tag lies in it (other properties' clauses are reported by their own checks)
            if fr["success"] or (ex is not None and ex["id"] not in bad_fns):
                discharged += 1
        # count spec clauses carrying this property's tag (finer-grained than queries; reported separately)
        for ln in open(r["gen"]).read().split("\n"):
            mm = re.search(r"//\s*\[([A-Z0-9, ]+)\]", ln)
            if mm and in_cone([t.strip() for t in mm.group(1).split(",")]):
                clause_count += 1
        for rl in r["rlimits"]:
            tg = rl.get("tags", "")
            if rl.get("fn") is None or in_cone(tg):
                inconclusive.append("rlimit exceeded in %s::%s" % (crate, rl.get("fn")))
        for f in r["fails"]:
            if not in_cone(f["tags"]):
                continue
            if f["message"].startswith("recommendation not met"):
                continue
            if f.get("fn") in P.get("dependency_fns", []):
                # a contract this property's proof *relies on* no longer verifies.  The property itself may well still
                # hold (its own clauses were proved against the callee's contract, not its body), so this is not an
                # alarm here: the property that owns the callee's contract reports it; here it is undecided unless the
                # property's own enumerations find a failing input.
                dep_broken.append("the proof relies on the contract of %s::%s, which fails on this tree (%s)" % (crate, f["fn"], f["clause"][:80]))
                continue
            hit = [k for k in findings if k["match"] in f["id"]]
            if hit:
                known_hits.append((hit[0], f))
            else:
                violations.append(f)
        for f in extracted:
            if f["id"] in rel_fn_ids and len(samples) < 12:
                samples.append("verus:%s::%s (%s:%d-%d)" % (crate, f["id"], f["file"], f["src_line_start"], f["src_line_end"]))

    # ---- Kani harnesses ------------------------------------------------------------------------
    bounded = []
    kani_s = 0.0
    K = P.get("kani", {})
    groups = []
    if K.get("complete"):
        groups.append(("complete", K["complete"], K.get("complete_timeout", 900)))
    bl = list(K.get("bounded_quick", [])) + (list(K.get("bounded_thorough", [])) if thorough else [])
    if bl:
        groups.append(("bounded", bl, K.get("bounded_timeout", 1500 if thorough else 600)))
    for gname, hs, to in groups:
        st, info = kani_group(hs, timeout=to)
        kani_s += info["verification_s"]
        checker_cmds.append(info["cmd"])
        for h in hs:
            hid = "kani:" + h
            if gname == "complete":
                obligations += 1
                if st[h] == "success":
                    discharged += 1
                    if len(samples) < 16:
                        samples.append(hid + " (loop-free, full-domain symbolic inputs: complete)")
                elif st[h] in ("timeout", "error"):
                    inconclusive.append("kani harness %s: %s %s" % (h, st[h], info["tail"][-800:]))
            else:
                bounded.append({"check": hid, "bound": K.get("bound", "see kani/src"), "engine": "kani/cbmc", "result": st[h]})
            if st[h] == "failed":
                f = {"id": hid, "fn": h, "tags": [pid], "message": "Kani harness failed: " + "; ".join(info["failed_checks"][:3]),
                     "rendered": info["tail"], "kind": "kani", "witness": None}
                hit = [x for x in findings if x["match"] in hid]
                if hit:
                    known_hits.append((hit[0], f))
                else:
                    violations.append(f)

    # ---- bounded enumerations on the real crate (stand-ins, never counted as proved) ------------
    enum_evals = 0
    enum_distinct = 0
    enum_samples = []
    for e in P.get("enum", []):
        args = [e["name"], "--tier", tier, "--seed", str(seed)] + e.get("args", [])
        r = run_replay(args, timeout=e.get("timeout", 1500), profile=e.get("profile", "release"))
        if e.get("profile"):
            r["bound"] = (r.get("bound", "") + " [built with profile %s: debug assertions and overflow checks OFF]" % e["profile"])
        if r.get("aborted") and e.get("abort_props") is not None and pid not in e["abort_props"]:
            # a crash of the real crate inside an enumeration that serves this property only as a side check:
            # reported by the properties the enumeration primarily serves, undecided here
            inconclusive.append("enum:%s aborted on %s (decided by the checks of %s)" % (e["name"], r["failures"][0]["case"][:200], ",".join(e["abort_props"])))
            r["failures"] = []
        enum_evals += r.get("evaluations", 0)
        enum_distinct += r.get("distinct_nontrivial", 0)
        enum_samples += r.get("samples", [])[:3]
        bounded.append({"check": "enum:" + e["name"] + (("@" + e["profile"]) if e.get("profile") else ""), "bound": r.get("bound", e.get("bound", "?")), "engine": "concrete enumeration on the real crate (replay/)",
                        "result": "failed" if r.get("failures") else "passed", "evaluations": r.get("evaluations", 0), "wall_s": round(r["wall_s"], 1)})
        known_seen = set()
        for fl in r.get("failures", []):
            if fl.get("props") and pid not in fl["props"].split(","):
                continue
            hid = "enum:%s::%s" % (e["name"], fl.get("case", ""))
            hit = [x for x in findings if x["match"] in hid]
            if hit:
                if hit[0]["match"] not in known_seen:
                    known_seen.add(hit[0]["match"])
                    known_hits.append((hit[0], {"id": hid}))
                continue
            violations.append({"id": hid, "fn": e["name"], "tags": [pid], "message": fl.get("what", "bounded enumeration found a failing input"),
                               "rendered": json.dumps(fl)[:3000], "kind": "enum",
                               "witness": {"input": fl, "replay_args": [e["name"], "--only", fl.get("case", "")] + e.get("args", [])}})

    # ---- witness search for failed Verus obligations -------------------------------------------
    for v in violations:
        if v.get("kind") in ("enum",) or v.get("witness"):
            continue
        wname = config.WITNESS.get(v.get("fn"))
        v["witness"] = None
        if wname:
            try:
                r = run_replay([wname, "--tier", "thorough", "--first-failure"], timeout=600)
                if r.get("failures"):
                    fl = r["failures"][0]
                    v["witness"] = {"input": fl, "replay_args": [wname, "--only", fl.get("case", "")]}
            except Inconclusive as ex:
                v["witness_error"] = str(ex)[:500]

    wall = time.time() - t0
    level = P["level"]
    not_decided = P.get("not_decided", [])
    cov = {
        "obligations": obligations, "discharged": discharged,
        "checker_cmd": " ; ".join(sorted(set(checker_cmds)))[:4000] or "(none)",
        "trusted_base": sorted(trusted) + P.get("trusted_extra", []),
        "tagged_spec_clauses": clause_count,
        "vacuity_probes": {"functions": vac_total, "rejected_as_required": vac_ok},
        "functions_under_contract": fn_under_contract,
        "dropped_by_extraction": sorted(set(dropped)) + ["R1: trait wrapper / receiver type mapped to the shim type (see DESIGN.md 2.1)"],
        "repo_functions_under_assumed_contract": P.get("assumed_repo_fns", []),
        "bounded_checks": bounded,
        "not_decided": not_decided,
        "backends": {"verus_smt_ms": smt_ms, "kani_decision_s": round(kani_s, 2)},
        "known_findings": [k["text"] for k, _ in known_hits],
        "samples": samples + enum_samples[:6] or ["(none)"],
        "evaluations": max(enum_evals, 0), "distinct_nontrivial": enum_distinct,
        "rule": P.get("rule", "bounded part: concrete enumeration of small inputs on the real crate; distinct = distinct (input, parameters) cases that exercise the routine beyond its trivial early exits"),
        "inconclusive": inconclusive + sorted(set(dep_broken)),
    }
    if level != "proof":
        cov["exhaustive"] = bool(P.get("exhaustive", False))
    ev = {
        "property_id": pid, "tier": tier, "seed": seed, "level": level, "coverage": cov,
        "assumptions": P.get("assumptions", []) + ["trusted contracts (mechanically scanned): " + ", ".join(sorted(trusted))] if trusted else P.get("assumptions", []),
        "wall_s": round(wall, 2), "violations": len(violations),
    }
    write_json(os.path.join(EVIDENCE_DIR, pid + ".json"), ev)

    for k, f in known_hits:
        print("KNOWN-FINDING: property=%s %s [%s]" % (pid, k["text"], f["id"]))
    if violations:
        outdir = os.environ.get("VERIF_REPLAY_OUT", os.path.join(VERIF, "replay", "out"))
        os.makedirs(outdir, exist_ok=True)
        path = os.path.join(outdir, "%s-%d.json" % (pid, int(time.time())))
        write_json(path, {"property": pid, "tier": tier, "violations": violations})
        nowit = all(not v.get("witness") for v in violations)
        for v in violations[:4]:
            print("failed obligation: %s" % v["id"][:240])
            print("  " + v["message"][:200] + ((" at " + v["src"]) if v.get("src") else ""))
            if v.get("witness"):
                print("  failing input on the real crate: " + json.dumps(v["witness"]["input"])[:300])
        if len(violations) > 4:
            print("  ... and %d more (see the replay file)" % (len(violations) - 4))
        print("VIOLATION property=%s replay=%s%s" % (pid, path, " no-failing-input-found" if nowit else ""))
        return 1
    inconclusive = inconclusive + sorted(set(dep_broken))
    if inconclusive:
        print("INCONCLUSIVE property=%s reason=%s" % (pid, inconclusive[0][:600].replace("\n", " | ")))
        return 2
    print("OK property=%s level=%s obligations=%d discharged=%d bounded_checks=%d wall=%.1fs" % (pid, level, obligations, discharged, len(bounded), wall))
    return 0
