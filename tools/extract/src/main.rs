fn main(){ let f = syn::parse_file("fn a(){}").unwrap(); println!("{}", f.items.len()); }
