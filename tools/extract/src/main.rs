//! vx — mechanical extractor: splices Verus contract text into function bodies that are copied
//! byte-for-byte from /repo.
//!
//! usage: vx --template T --repo /repo --out OUT.rs --map OUT.map.json [--mode N|P] [--vacuity]
//!
//! Template language (line oriented; every directive starts with `//@`):
//!   //@include <path relative to the template>       raw inclusion
//!   //@ifmode <M> ... //@endif                        keep the lines only in mode M
//!   //@extract file=<repo-rel> fn=<name> [impl=<trait or self type>] id=<id> [tags=C01,C02] [body_tags=..]
//!       //@sig                  Verus-side signature (R1); everything up to the body
//!       //@source_sig <tokens>  optional: expected token string of the source signature
//!       //@spec [tags=..]       requires / ensures / decreases
//!       //@loop <n> [tags=..]   loop contract of the n-th loop (pre-order)
//!       //@closure <n>          annotated header of the n-th closure (pre-order)
//!       //@at entry | after_let <name> [occ] | before_call <name> <occ> | after_call <name> <occ>
//!             | before_loop <n> | after_loop <n> | loop_end <n> | then_start <n> | then_end <n>   ghost text at an anchor
//!   //@end
//!
//! Rewrites applied to the body (everything else is verbatim; see DESIGN.md 2.1):
//!   R2 assert!/assert_eq!/debug_assert!/debug_assert_eq! -> verif_assert(..)/verif_debug_assert(..)
//!   R3 X.iter_mut().for_each(|x| *x -= E)                -> verif_sub_assign_all(X, E)
//!   R4 s![..e]                                           -> verif_slice_to(e)
//!   R8 X.iter().cloned().zip(Y.into_iter()).collect()   -> verif_zip_collect(X, Y)
//!   R9 closure header `|x|` -> annotated header from `//@closure n` (types, result name, ensures); body verbatim
//!   R10 `for P in E` -> `for P in it: E` when the loop contract names the ghost iterator (`//@loop n iter=it`)
//!   R11b `Zip::from(&mut T).and(X).and(Y).for_each(|r, p, q| BODY)` -> loop over (logical index, x, y) with `*r` read/written through T.verif_get / T.verif_set
//!   R11c `Zip::from(X.lanes_mut(a)).and(Y.lanes_mut(b)).for_each(|mut p, mut q| BODY)` -> loop over lane positions with take / put of both lanes
//!   R11d `for (r, P) in X.iter_mut().zip(Y) BODY` -> loop over (index, item of Y) with `*r` written as `X[index]`
//!   R12 invocations of the crate's own single-rule macro_rules macros (src/lib.rs) are expanded textually
//!   R10h (`//@loop n iter=it hoist`) `for P in E {` -> `let __itN = verif_hoist(E); let ghost __itsN = __itN@; for P in it: __itN {`
//!   R14 (with R10h) `V.into_iter().rev()` -> `verif_rev_vec(V)`
//!   R21 (`//@name_call METHOD K` + ghost text) the K-th call `X.METHOD(.., CLOSURE)` is evaluated in front of its statement with the closure and the result bound to names
//!   R20 an item (nested fn) declared inside the extracted body is dropped from the body text
//!   R23 (`//@try_desugar N`) the N-th `EXPR?` -> `(match EXPR { Ok(v) => v, Err(e) => return Err(From::from(e)) })`
//!   R22 (`inline=CALLEE@FILE@IMPL`) the call `self.CALLEE(.., closure)` is replaced by CALLEE's body from /repo with the closure's body substituted for its calls
//!   R19d (`lower=fold_axis`) `X.fold_axis(ax, init, |acc, elem| BLOCK)` -> per lane, an accumulator cloned from init threaded through the lane
//!   R19c (`lower=map_axis_mut`) `X.map_axis_mut(ax, |lane| EXPR)` -> loop over lane positions storing EXPR as result j
//!   R19 / R19b (`//@extract .. lower=fold,for_each`) `X.fold(init, |acc, item| BLOCK)` / `X.for_each(|item| BLOCK)` -> loops over the visited items
//!   R18 (`//@replace_text` + FROM line + TO line) the unique occurrence of the text FROM (modulo whitespace) -> TO
//!   R17 (`//@rename_call FROM TO`) method calls `.FROM(..)` -> `.TO(..)`
//!   R16 (`//@binop OP N FNAME`) the N-th binary expression `L OP R` -> `FNAME(L, R)`
//!   R15 (`//@loop n halfopen=1`) `for P in A..=B` -> `for P in A..verif_incl_end(B)` (requires B + 1 representable)
//!   R13 reference patterns in a for-loop pattern: `&x` -> `__ref_x` + `let x = *__ref_x;` at the start of the body
//!   R11 `Zip::from(X).and(Y).for_each(|a, b| BODY)` -> `for (a, b) in it: verif_zip2(X, Y) BODY` (closure body becomes the loop body)
//!   R7 tail expression carrying an `after_call` anchor   -> { let __r = <tail>; <ghost>; __r }
//! Exit codes: 0 ok, 3 lost anchor / item not found, 4 usage or internal error.

use proc_macro2::Span;
use serde_json::json;
use std::collections::BTreeMap;
use std::fs;
use std::path::{Path, PathBuf};
use std::process::exit;
use syn::spanned::Spanned;
use syn::visit::Visit;

thread_local! { static CURRENT_FN: std::cell::RefCell<Option<String>> = std::cell::RefCell::new(None); }

fn die(code: i32, msg: String) -> ! {
    // `[fn=<id>]` tells the driver which extracted function could not be placed (it may stub it and go on)
    let f = CURRENT_FN.with(|c| c.borrow().clone());
    match f { Some(id) => eprintln!("vx: {} [fn={}]", msg, id), None => eprintln!("vx: {}", msg) }
    exit(code)
}

#[derive(Debug, Clone)]
struct Section {
    kind: String, // sig | spec | loop | at
    args: Vec<String>,
    tags: Option<String>,
    kv: BTreeMap<String, String>,
    text: String,
}

#[derive(Debug, Clone, Default)]
struct ExtractReq {
    attrs: BTreeMap<String, String>,
    sections: Vec<Section>,
    source_sig: Option<String>,
    tline: usize,
}

enum TItem {
    Raw(String, String, usize), // text, origin file, first line
    Extract(ExtractReq),
}

fn parse_kv(s: &str) -> (Vec<String>, BTreeMap<String, String>) {
    let mut pos = vec![];
    let mut kv = BTreeMap::new();
    for w in s.split_whitespace() {
        if let Some(i) = w.find('=') {
            kv.insert(w[..i].to_string(), w[i + 1..].to_string());
        } else {
            pos.push(w.to_string());
        }
    }
    (pos, kv)
}

fn load_template(path: &Path, mode: &str, items: &mut Vec<TItem>) {
    let text = fs::read_to_string(path)
        .unwrap_or_else(|e| die(4, format!("cannot read template {}: {}", path.display(), e)));
    let dir = path.parent().unwrap_or(Path::new(".")).to_path_buf();
    let mut raw = String::new();
    let mut raw_start = 1usize;
    let mut cur: Option<ExtractReq> = None;
    let mut keep = true;
    let pname = path.display().to_string();
    for (ln0, line) in text.lines().enumerate() {
        let ln = ln0 + 1;
        let t = line.trim_start();
        if let Some(rest) = t.strip_prefix("//@") {
            let rest = rest.trim();
            let (word, tail) = match rest.find(char::is_whitespace) {
                Some(i) => (&rest[..i], rest[i..].trim()),
                None => (rest, ""),
            };
            match word {
                "ifmode" => {
                    keep = tail.split(',').any(|m| m.trim() == mode);
                    continue;
                }
                "endif" => {
                    keep = true;
                    continue;
                }
                _ => {}
            }
            if !keep {
                continue;
            }
            match word {
                "include" => {
                    if cur.is_some() {
                        die(4, format!("{}:{}: include inside extract", pname, ln));
                    }
                    if !raw.is_empty() {
                        items.push(TItem::Raw(std::mem::take(&mut raw), pname.clone(), raw_start));
                    }
                    load_template(&dir.join(tail), mode, items);
                    raw_start = ln + 1;
                }
                "extract" => {
                    if !raw.is_empty() {
                        items.push(TItem::Raw(std::mem::take(&mut raw), pname.clone(), raw_start));
                    }
                    let (_p, kv) = parse_kv(tail);
                    cur = Some(ExtractReq { attrs: kv, sections: vec![], source_sig: None, tline: ln });
                }
                "end" => {
                    let r = cur.take().unwrap_or_else(|| die(4, format!("{}:{}: end without extract", pname, ln)));
                    items.push(TItem::Extract(r));
                    raw_start = ln + 1;
                }
                "source_sig" => {
                    cur.as_mut().unwrap_or_else(|| die(4, format!("{}:{}: stray source_sig", pname, ln))).source_sig =
                        Some(tail.to_string());
                }
                "sig" | "spec" | "loop" | "at" | "closure" | "binop" | "rename_call" | "replace_text" | "name_call" | "try_desugar" => {
                    let c = cur.as_mut().unwrap_or_else(|| die(4, format!("{}:{}: stray section", pname, ln)));
                    let (pos, kv) = parse_kv(tail);
                    c.sections.push(Section { kind: word.to_string(), args: pos, tags: kv.get("tags").cloned(), kv: kv.clone(), text: String::new() });
                }
                _ => die(4, format!("{}:{}: unknown directive {}", pname, ln, word)),
            }
            continue;
        }
        if !keep {
            continue;
        }
        if let Some(c) = cur.as_mut() {
            match c.sections.last_mut() {
                Some(s) => {
                    s.text.push_str(line);
                    s.text.push('\n');
                }
                None => {
                    if !line.trim().is_empty() {
                        die(4, format!("{}:{}: text before first section in extract", pname, ln));
                    }
                }
            }
        } else {
            if raw.is_empty() {
                raw_start = ln;
            }
            raw.push_str(line);
            raw.push('\n');
        }
    }
    if cur.is_some() {
        die(4, format!("{}: unterminated extract", pname));
    }
    if !raw.is_empty() {
        items.push(TItem::Raw(raw, pname, raw_start));
    }
}

// ---------------------------------------------------------------------------------------------

struct SrcFile {
    text: String,
    line_starts: Vec<usize>,
    ast: syn::File,
}

impl SrcFile {
    fn load(p: &Path) -> SrcFile {
        let text = fs::read_to_string(p).unwrap_or_else(|e| die(3, format!("cannot read {}: {}", p.display(), e)));
        SrcFile::from_text(text, &p.display().to_string())
    }
    fn from_text(text: String, what: &str) -> SrcFile {
        let ast = syn::parse_file(&text).unwrap_or_else(|e| die(3, format!("cannot parse {}: {}", what, e)));
        let mut line_starts = vec![0usize];
        for (i, b) in text.bytes().enumerate() {
            if b == b'\n' {
                line_starts.push(i + 1);
            }
        }
        SrcFile { text, line_starts, ast }
    }
    fn off(&self, lc: proc_macro2::LineColumn) -> usize {
        // column counts chars, not bytes
        let ls = self.line_starts[lc.line - 1];
        let line = &self.text[ls..];
        let mut n = 0;
        for (bi, _c) in line.char_indices() {
            if n == lc.column {
                return ls + bi;
            }
            n += 1;
        }
        ls + line.len()
    }
    fn range(&self, s: Span) -> (usize, usize) {
        (self.off(s.start()), self.off(s.end()))
    }
    fn line_of(&self, off: usize) -> usize {
        match self.line_starts.binary_search(&off) {
            Ok(i) => i + 1,
            Err(i) => i,
        }
    }
}

struct Found<'a> {
    sig: &'a syn::Signature,
    block: &'a syn::Block,
}

fn type_last_ident(t: &syn::Type) -> String {
    match t {
        syn::Type::Path(p) => p.path.segments.last().map(|s| s.ident.to_string()).unwrap_or_default(),
        syn::Type::Reference(r) => type_last_ident(&r.elem),
        _ => String::new(),
    }
}

fn find_fn<'a>(items: &'a [syn::Item], name: &str, imp: Option<&str>, out: &mut Vec<Found<'a>>) {
    for it in items {
        match it {
            syn::Item::Fn(f) => {
                if imp.is_none() && f.sig.ident == name {
                    out.push(Found { sig: &f.sig, block: &f.block });
                }
            }
            syn::Item::Impl(im) => {
                let tr = im.trait_.as_ref().and_then(|(_, p, _)| p.segments.last()).map(|s| s.ident.to_string());
                let ty = type_last_ident(&im.self_ty);
                let ok = match imp {
                    None => false,
                    Some(want) => {
                        // "Trait", "Type" or "Trait for Type" written as Trait:Type
                        if let Some((a, b)) = want.split_once(':') {
                            tr.as_deref() == Some(a) && ty == b
                        } else {
                            tr.as_deref() == Some(want) || (tr.is_none() && ty == want)
                        }
                    }
                };
                if ok {
                    for ii in &im.items {
                        if let syn::ImplItem::Fn(f) = ii {
                            if f.sig.ident == name {
                                out.push(Found { sig: &f.sig, block: &f.block });
                            }
                        }
                    }
                }
            }
            syn::Item::Trait(t) => {
                if imp == Some(&t.ident.to_string()) {
                    for ti in &t.items {
                        if let syn::TraitItem::Fn(f) = ti {
                            if f.sig.ident == name {
                                if let Some(b) = &f.default {
                                    out.push(Found { sig: &f.sig, block: b });
                                }
                            }
                        }
                    }
                }
            }
            syn::Item::Mod(m) => {
                if let Some((_, its)) = &m.content {
                    find_fn(its, name, imp, out);
                }
            }
            _ => {}
        }
    }
}

// R22 (opt-in `inline=CALLEE@FILE@IMPL`): the single call `self.CALLEE(ARGS.., |P0, P1, ..| CBODY)` in the body of the extracted
// function is replaced, textually and on every run, by the body of CALLEE as it stands in /repo:
//   { let <param> = <arg>; ..   <body of CALLEE, in which every call `f(A0, A1, ..)` of its closure parameter reads
//                                 `{ let P0 = A0; let P1 = A1; ..; CBODY }`> }
// The receiver must be `self` (so `self` in the inlined body needs no renaming), the closure parameter may only be called, and
// no variable that CBODY takes from its environment may be captured by a binding of CALLEE (checked; otherwise lost-anchor).
// The result is re-parsed and goes through the ordinary pipeline (so the `.fold(..)` of an inlined body can be lowered by R19).
// A closure whose body is turned into the body of a loop (R3, R11*, R19*) or spliced into another function (R22) must not contain
// `return` or `?`: inside the closure they leave the closure, inside the loop they would leave the function.  Such a body is not
// lowered; the function is reported as undecided (lost anchor), never as a violation.
struct EscapeFinder { found: bool }
impl<'ast> Visit<'ast> for EscapeFinder {
    fn visit_expr_return(&mut self, _r: &'ast syn::ExprReturn) { self.found = true; }
    fn visit_expr_try(&mut self, _t: &'ast syn::ExprTry) { self.found = true; }
    fn visit_expr_closure(&mut self, _c: &'ast syn::ExprClosure) {}
    fn visit_item(&mut self, _i: &'ast syn::Item) {}
}
fn closure_must_not_escape(cl: &syn::ExprClosure) {
    let mut f = EscapeFinder { found: false };
    f.visit_expr(&cl.body);
    if f.found { die(3, "lost-anchor: a closure that is lowered to a loop body contains `return` or `?` (they would leave the function instead of the closure)".into()); }
}
struct IdentCollector { idents: std::collections::BTreeSet<String> }
impl<'ast> Visit<'ast> for IdentCollector {
    fn visit_ident(&mut self, i: &'ast proc_macro2::Ident) { self.idents.insert(i.to_string()); }
    fn visit_macro(&mut self, m: &'ast syn::Macro) {
        for t in m.tokens.clone() { collect_tt_idents(&t, &mut self.idents); }
    }
}
fn collect_tt_idents(t: &proc_macro2::TokenTree, out: &mut std::collections::BTreeSet<String>) {
    match t {
        proc_macro2::TokenTree::Ident(i) => { out.insert(i.to_string()); }
        proc_macro2::TokenTree::Group(g) => { for x in g.stream() { collect_tt_idents(&x, out); } }
        _ => {}
    }
}
struct BindCollector { names: std::collections::BTreeSet<String> }
impl<'ast> Visit<'ast> for BindCollector {
    fn visit_pat_ident(&mut self, p: &'ast syn::PatIdent) { self.names.insert(p.ident.to_string()); syn::visit::visit_pat_ident(self, p); }
}
struct CallFinder<'s> { src: &'s SrcFile, method: String, hits: Vec<((usize, usize), Vec<(usize, usize)>, String)> }
impl<'ast, 's> Visit<'ast> for CallFinder<'s> {
    fn visit_expr_method_call(&mut self, c: &'ast syn::ExprMethodCall) {
        if c.method == self.method.as_str() {
            let recv = self.src.text[self.src.range(c.receiver.span()).0..self.src.range(c.receiver.span()).1].trim().to_string();
            self.hits.push((self.src.range(c.span()), c.args.iter().map(|a| self.src.range(a.span())).collect(), recv));
        }
        syn::visit::visit_expr_method_call(self, c);
    }
}
struct ParamUse<'s> { src: &'s SrcFile, name: String, calls: Vec<((usize, usize), Vec<(usize, usize)>)>, other_uses: usize }
impl<'ast, 's> Visit<'ast> for ParamUse<'s> {
    fn visit_expr_call(&mut self, c: &'ast syn::ExprCall) {
        if let syn::Expr::Path(p) = &*c.func {
            if p.path.is_ident(self.name.as_str()) {
                self.calls.push((self.src.range(c.span()), c.args.iter().map(|a| self.src.range(a.span())).collect()));
                for a in &c.args { self.visit_expr(a); }
                return;
            }
        }
        syn::visit::visit_expr_call(self, c);
    }
    fn visit_expr_path(&mut self, p: &'ast syn::ExprPath) {
        if p.path.is_ident(self.name.as_str()) { self.other_uses += 1; }
    }
}
fn inline_call(src: &SrcFile, caller: &Found, callee_src: &SrcFile, callee: &Found, callee_name: &str, ascribe: Option<(&str, &str)>) -> (String, usize) {
    let mut cf = CallFinder { src, method: callee_name.to_string(), hits: vec![] };
    cf.visit_block(caller.block);
    if cf.hits.len() != 1 { die(3, format!("lost-anchor: inline: {} calls of {} in the body (exactly one expected)", cf.hits.len(), callee_name)); }
    let ((ca, cb), args, recv) = cf.hits.remove(0);
    if recv != "self" { die(3, format!("lost-anchor: inline: receiver of {} is `{}`, not `self`", callee_name, recv)); }
    // parameters of the callee (after the receiver)
    let mut params = vec![];
    for inp in callee.sig.inputs.iter() {
        match inp {
            syn::FnArg::Receiver(_) => {}
            syn::FnArg::Typed(t) => match &*t.pat {
                syn::Pat::Ident(pi) => params.push(pi.ident.to_string()),
                _ => die(3, format!("lost-anchor: inline: parameter pattern of {} is not an identifier", callee_name)),
            },
        }
    }
    if params.len() != args.len() || args.is_empty() { die(3, format!("lost-anchor: inline: {} takes {} arguments, the call has {}", callee_name, params.len(), args.len())); }
    // the closure argument: the last one
    let (la, lb) = *args.last().unwrap();
    let cl: syn::ExprClosure = syn::parse_str(&src.text[la..lb]).unwrap_or_else(|_| die(3, format!("lost-anchor: inline: the last argument of {} is not a closure", callee_name)));
    // spans of a re-parsed fragment are relative to the fragment
    closure_must_not_escape(&cl);
    let frag = SrcFile { text: src.text[la..lb].to_string(), line_starts: { let mut v = vec![0usize]; for (i, b) in src.text[la..lb].bytes().enumerate() { if b == b'\n' { v.push(i + 1); } } v }, ast: syn::parse_str("").unwrap() };
    let pats: Vec<String> = cl.inputs.iter().map(|p| { let (a, b) = frag.range(p.span()); frag.text[a..b].to_string() }).collect();
    let (ba, bb) = frag.range(cl.body.span());
    let cbody = frag.text[ba..bb].to_string();
    let fparam = params.last().unwrap().clone();
    // hygiene: what CBODY takes from its environment must not be captured by a binding of the callee
    let mut used = IdentCollector { idents: Default::default() };
    used.visit_expr(&cl.body);
    let mut own = BindCollector { names: Default::default() };
    for p in &cl.inputs { own.visit_pat(p); }
    own.visit_expr(&cl.body);
    let mut theirs = BindCollector { names: Default::default() };
    theirs.visit_block(callee.block);
    for p in &params { theirs.names.insert(p.clone()); }
    for n in &used.idents {
        if theirs.names.contains(n) && !own.names.contains(n) {
            die(3, format!("lost-anchor: inline: `{}` used by the closure would be captured by a binding of {}", n, callee_name));
        }
    }
    // the callee's body with the calls of its closure parameter replaced
    let mut pu = ParamUse { src: callee_src, name: fparam.clone(), calls: vec![], other_uses: 0 };
    pu.visit_block(callee.block);
    if pu.other_uses != 0 || pu.calls.is_empty() { die(3, format!("lost-anchor: inline: {} uses its closure parameter other than by calling it ({} calls, {} other uses)", callee_name, pu.calls.len(), pu.other_uses)); }
    let (kb, ke) = callee_src.range(callee.block.span());
    let mut body = String::new();
    let mut pos = kb;
    pu.calls.sort();
    for ((a, b), cargs) in &pu.calls {
        if cargs.len() != pats.len() { die(3, format!("lost-anchor: inline: {} calls its closure with {} arguments, the closure takes {}", callee_name, cargs.len(), pats.len())); }
        body.push_str(&callee_src.text[pos..*a]);
        body.push_str("{ ");
        for (p, (x, y)) in pats.iter().zip(cargs.iter()) { body.push_str(&format!("let {} = {}; ", p, &callee_src.text[*x..*y])); }
        body.push_str(&cbody);
        body.push_str(" }");
        pos = *b;
    }
    body.push_str(&callee_src.text[pos..ke]);
    let mut rep = String::from("{ ");
    // `inline_ty=PARAM:TYPE` writes the type the source leaves to inference (through the callee's generic signature) on the binding
    for (p, (x, y)) in params.iter().zip(args.iter()).take(params.len() - 1) {
        match ascribe { Some((n, t)) if n == p => rep.push_str(&format!("let {}: {} = {}; ", p, t, &src.text[*x..*y])), _ => rep.push_str(&format!("let {} = {}; ", p, &src.text[*x..*y])) }
    }
    rep.push_str(&body);
    rep.push_str(" }");
    let mut text = String::new();
    text.push_str(&src.text[..ca]);
    text.push_str(&rep);
    text.push_str(&src.text[cb..]);
    (text, callee_src.line_of(kb))
}

#[derive(Debug, Clone)]
struct StmtInfo {
    start: usize,
    end: usize,
    is_tail_value: bool,
    // for a `return EXPR;` statement: byte range of EXPR
    ret_expr: Option<(usize, usize)>,
}

#[derive(Default)]
struct BodyScan {
    // loops in pre-order: (open brace offset of the body block, offset of its closing brace, stmt start, stmt end)
    loops: Vec<(usize, usize, usize, usize)>,
    // for loops: loop ordinal -> offset of the iterated expression (to name the ghost iterator, R10)
    for_exprs: BTreeMap<usize, (usize, usize)>,
    // loops whose body ends in an expression statement without `;` (unit-valued tail): ghost code appended at the
    // end of the body needs the `;` first
    loop_tail_nosemi: std::collections::BTreeSet<usize>,
    // for loops over `A..=B`: loop ordinal -> (range of the `..=` token, range of B)
    incl_ranges: BTreeMap<usize, (usize, usize, usize, usize)>,
    // binary expressions by operator token, in pre-order: (lhs range, rhs range)
    binops: BTreeMap<String, Vec<((usize, usize), (usize, usize))>>,
    // method-call identifiers by name: byte range of the identifier
    method_idents: BTreeMap<String, Vec<(usize, usize)>>,
    // `EXPR?` in pre-order: (start of EXPR, range of the `?` token)
    tries: Vec<(usize, (usize, usize))>,
    // method calls by name: (range of the whole call expression, range of the last argument, start of the enclosing statement)
    method_calls: BTreeMap<String, Vec<((usize, usize), Option<(usize, usize)>, usize)>>,
    // R11c loops: loop ordinal -> offset just after the closure's block (where the lanes have been put back: anchor `loop_tail`)
    lane_loops: BTreeMap<usize, usize>,
    // R19 loops: the body block is generated around the closure's block (loop_start goes inside the closure's block)
    fold_loops: std::collections::BTreeSet<usize>,
    // lowered loops whose body is an expression of the source (not a block): `loop_start` goes in front of it
    expr_body_loops: std::collections::BTreeSet<usize>,
    // R19d: outer loop ordinal -> offset of the end of the closure's block (anchors `loop_tail` / `after_loop` of the outer loop)
    outer_fold_axis: BTreeMap<usize, usize>,
    outer_fold_axis_start: BTreeMap<usize, usize>,
    cmp_kinds: Vec<String>,
    // calls by name: (enclosing stmt)
    calls: BTreeMap<String, Vec<StmtInfo>>,
    lets: BTreeMap<String, Vec<StmtInfo>>,
    stmt_stack: Vec<StmtInfo>,
    // macro / pattern rewrites: (start, end, replacement, rule)
    rewrites: Vec<(usize, usize, String, String)>,
    // closures in pre-order: (header start, body start, body end, body is a block)
    closures: Vec<(usize, usize, usize, bool)>,
    // `if` expressions in pre-order: (offset just after the then-block's open brace, offset of its closing brace)
    ifs: Vec<(usize, usize)>,
    // match arms whose body is a block, in pre-order: (offset just after the open brace, offset of the closing brace)
    arms: Vec<(usize, usize)>,
}

struct Scanner<'a> {
    src: &'a SrcFile,
    scan: BodyScan,
    // opt-in lowerings requested by the template (`//@extract .. lower=fold,for_each`)
    lower: std::collections::BTreeSet<String>,
    // R12: the crate's own single-rule macro_rules macros: name -> (parameter names, body text)
    crate_macros: &'a BTreeMap<String, (Vec<String>, String)>,
    macro_into: Option<String>,
}

fn pat_idents(p: &syn::Pat, out: &mut Vec<String>) {
    match p {
        syn::Pat::Ident(i) => out.push(i.ident.to_string()),
        syn::Pat::Type(t) => pat_idents(&t.pat, out),
        syn::Pat::Tuple(t) => t.elems.iter().for_each(|e| pat_idents(e, out)),
        syn::Pat::Reference(r) => pat_idents(&r.pat, out),
        syn::Pat::TupleStruct(t) => t.elems.iter().for_each(|e| pat_idents(e, out)),
        syn::Pat::Paren(p) => pat_idents(&p.pat, out),
        _ => {}
    }
}

/// `&ident` sub-patterns (with their spans) of a pattern
fn ref_pats(p: &syn::Pat, out: &mut Vec<(Span, String)>) {
    match p {
        syn::Pat::Reference(r) => {
            if let syn::Pat::Ident(i) = &*r.pat {
                if i.subpat.is_none() && i.by_ref.is_none() { out.push((r.span(), i.ident.to_string())); return; }
            }
            ref_pats(&r.pat, out)
        }
        syn::Pat::Tuple(t) => t.elems.iter().for_each(|e| ref_pats(e, out)),
        syn::Pat::Paren(p) => ref_pats(&p.pat, out),
        syn::Pat::Type(t) => ref_pats(&t.pat, out),
        _ => {}
    }
}

impl<'a> Scanner<'a> {
    fn text(&self, s: Span) -> &str {
        let (a, b) = self.src.range(s);
        &self.src.text[a..b]
    }
    fn record_call(&mut self, name: String) {
        if let Some(top) = self.scan.stmt_stack.last().cloned() {
            self.scan.calls.entry(name).or_default().push(top);
        }
    }
    fn rewrite_macro(&mut self, m: &syn::Macro, whole: Span) -> bool {
        let name = m.path.segments.last().map(|s| s.ident.to_string()).unwrap_or_default();
        let (a, b) = self.src.range(whole);
        let args = || -> Option<Vec<syn::Expr>> {
            m.parse_body_with(syn::punctuated::Punctuated::<syn::Expr, syn::Token![,]>::parse_terminated)
                .ok()
                .map(|p| p.into_iter().collect())
        };
        match name.as_str() {
            "assert" | "debug_assert" => {
                let ar = args().unwrap_or_else(|| die(3, format!("cannot parse {}! arguments", name)));
                let c = self.text(ar[0].span()).to_string();
                let f = if name == "assert" { "verif_assert" } else { "verif_debug_assert" };
                self.scan.rewrites.push((a, b, format!("{}({})", f, c), "R2".into()));
                true
            }
            "panic" => {
                // R2: `panic!(..)` -> `verif_panic()` (mode N: `requires false`, i.e. the call must be unreachable)
                self.scan.rewrites.push((a, b, "verif_panic()".to_string(), "R2".into()));
                true
            }
            "assert_eq" | "debug_assert_eq" | "assert_ne" | "debug_assert_ne" => {
                let ar = args().unwrap_or_else(|| die(3, format!("cannot parse {}! arguments", name)));
                let l = self.text(ar[0].span()).to_string();
                let r = self.text(ar[1].span()).to_string();
                let f = if name.starts_with("assert") { "verif_assert" } else { "verif_debug_assert" };
                let op = if name.ends_with("_eq") { "==" } else { "!=" };
                self.scan.rewrites.push((a, b, format!("{}(({}) {} ({}))", f, l, op, r), "R2".into()));
                true
            }
            nm if self.crate_macros.contains_key(nm) && nm != "private_decl" && nm != "private_impl" => {
                // R12: textual expansion of the crate's own macro from its definition in src/lib.rs
                let (params, body) = self.crate_macros.get(nm).unwrap().clone();
                let ar = args().unwrap_or_else(|| die(3, format!("cannot parse {}! arguments", name)));
                if ar.len() != params.len() { die(3, format!("{}!: {} arguments for {} parameters", name, ar.len(), params.len())); }
                let mut text = body;
                for (p, a0) in params.iter().zip(ar.iter()) {
                    let at = self.text(a0.span()).to_string();
                    text = text.replace(&format!("${}", p), &at);
                }
                // R12b (opt-in `macro_into=NAME`): `.into()` in the expansion is spelled `.NAME()` (a conversion to the same type: std's
                // reflexive From impl cannot be given a specification from outside std, the shim method NAME carries it)
                if let Some(nm2) = &self.macro_into {
                    if text.contains(".into()") { text = text.replace(".into()", &format!(".{}()", nm2)); }
                }
                self.scan.rewrites.push((a, b, format!("{{ {} }}", text.trim()), "R12".into()));
                true
            }
            "s" => {
                // only the form s![..e]
                if let Ok(syn::Expr::Range(r)) = m.parse_body::<syn::Expr>() {
                    if r.start.is_none() && matches!(r.limits, syn::RangeLimits::HalfOpen(_)) {
                        if let Some(e) = &r.end {
                            let et = self.text(e.span()).to_string();
                            self.scan.rewrites.push((a, b, format!("verif_slice_to({})", et), "R4".into()));
                            return true;
                        }
                    }
                }
                false
            }
            _ => false,
        }
    }
}

impl<'a, 'ast> Visit<'ast> for Scanner<'a> {
    fn visit_item(&mut self, _i: &'ast syn::Item) {
        // nested items are not part of this body
    }
    fn visit_block(&mut self, b: &'ast syn::Block) {
        let n = b.stmts.len();
        for (k, st) in b.stmts.iter().enumerate() {
            let (s, e) = self.src.range(st.span());
            let is_tail_value = k + 1 == n && matches!(st, syn::Stmt::Expr(_, None));
            let ret_expr = match st {
                syn::Stmt::Expr(syn::Expr::Return(r), _) => r.expr.as_ref().map(|x| self.src.range(x.span())),
                _ => None,
            };
            if let syn::Stmt::Item(_) = st {
                // R20: an item declared inside the body (a nested helper function) is not part of the body text; it is
                // extracted on its own (`//@extract .. inner=NAME`) and enters here through its contract
                self.scan.rewrites.push((s, e, String::new(), "R20".into()));
                continue;
            }
            self.scan.stmt_stack.push(StmtInfo { start: s, end: e, is_tail_value: is_tail_value && ret_expr.is_none(), ret_expr });
            if let syn::Stmt::Local(l) = st {
                let mut ids = vec![];
                pat_idents(&l.pat, &mut ids);
                let info = self.scan.stmt_stack.last().cloned().unwrap();
                for id in ids {
                    self.scan.lets.entry(id).or_default().push(info.clone());
                }
            }
            self.visit_stmt(st);
            self.scan.stmt_stack.pop();
        }
    }
    fn visit_stmt_macro(&mut self, m: &'ast syn::StmtMacro) {
        // keep the trailing semicolon out of the rewritten range
        let sp = m.mac.path.span().join(m.mac.delimiter.span().close()).unwrap_or(m.mac.span());
        let _ = sp;
        let (a, _) = self.src.range(m.mac.path.span());
        let (_, b) = self.src.range(m.mac.delimiter.span().close());
        let n0 = self.scan.rewrites.len();
        if self.rewrite_macro(&m.mac, m.mac.span()) {
            let r = &mut self.scan.rewrites[n0];
            r.0 = a;
            r.1 = b;
        }
    }
    fn visit_expr_macro(&mut self, m: &'ast syn::ExprMacro) {
        let (a, _) = self.src.range(m.mac.path.span());
        let (_, b) = self.src.range(m.mac.delimiter.span().close());
        let n0 = self.scan.rewrites.len();
        if self.rewrite_macro(&m.mac, m.mac.span()) {
            let r = &mut self.scan.rewrites[n0];
            r.0 = a;
            r.1 = b;
        }
    }
    fn visit_expr_loop(&mut self, l: &'ast syn::ExprLoop) {
        let (s, e) = self.src.range(l.span());
        let (bo, _) = self.src.range(l.body.brace_token.span.open());
        let (bc, _) = self.src.range(l.body.brace_token.span.close());
        if matches!(l.body.stmts.last(), Some(syn::Stmt::Expr(_, None))) { self.scan.loop_tail_nosemi.insert(self.scan.loops.len()); }
        self.scan.loops.push((bo, bc, s, e));
        syn::visit::visit_expr_loop(self, l);
    }
    fn visit_expr_while(&mut self, l: &'ast syn::ExprWhile) {
        let (s, e) = self.src.range(l.span());
        let (bo, _) = self.src.range(l.body.brace_token.span.open());
        let (bc, _) = self.src.range(l.body.brace_token.span.close());
        if matches!(l.body.stmts.last(), Some(syn::Stmt::Expr(_, None))) { self.scan.loop_tail_nosemi.insert(self.scan.loops.len()); }
        self.scan.loops.push((bo, bc, s, e));
        syn::visit::visit_expr_while(self, l);
    }
    fn visit_expr_for_loop(&mut self, l: &'ast syn::ExprForLoop) {
        let (xs, xe) = self.src.range(l.expr.span());
        self.scan.for_exprs.insert(self.scan.loops.len(), (xs, xe));
        let (s, e) = self.src.range(l.span());
        let (bo, _) = self.src.range(l.body.brace_token.span.open());
        let (bc, _) = self.src.range(l.body.brace_token.span.close());
        if matches!(l.body.stmts.last(), Some(syn::Stmt::Expr(_, None))) { self.scan.loop_tail_nosemi.insert(self.scan.loops.len()); }
        self.scan.loops.push((bo, bc, s, e));
        // R11d: `for (r, P2) in X.iter_mut().zip(Y) BODY` (element-wise assignment into the 1-D array X)
        //   -> `let __zm = verif_zip_mut_idx(&X, Y); let ghost __zms = __zm@; for (__i, P2') in it: __zm { <lets> BODY[*r := X[__i]] }`
        if let (syn::Expr::MethodCall(z), syn::Pat::Tuple(pt)) = (&*l.expr, &*l.pat) {
            if z.method == "zip" && z.args.len() == 1 && pt.elems.len() == 2 {
                if let (syn::Expr::MethodCall(im), syn::Pat::Ident(rid)) = (&*z.receiver, &pt.elems[0]) {
                    if im.method == "iter_mut" && im.args.is_empty() {
                        let xs_t = self.text(im.receiver.span()).trim().to_string();
                        let ys_t = self.text(z.args[0].span()).trim().to_string();
                        let mut refs = vec![];
                        ref_pats(&pt.elems[1], &mut refs);
                        let (p2, lets) = if refs.len() == 1 && matches!(&pt.elems[1], syn::Pat::Reference(_)) {
                            (format!("__ref_{}", refs[0].1), format!(" let {} = *__ref_{};", refs[0].1, refs[0].1))
                        } else { (self.text(pt.elems[1].span()).to_string(), String::new()) };
                        let (ps, _) = self.src.range(l.pat.span());
                        let (_, xe2) = self.src.range(l.expr.span());
                        // the `for` keyword stays; pattern .. end of the iterated expression is replaced
                        self.scan.rewrites.push((s, s, format!("let __zm = verif_zip_mut_idx(&{}, {}); let ghost __zms = __zm@;\n", xs_t, ys_t), "R11d".into()));
                        self.scan.rewrites.push((ps, xe2, format!("(__i, {}) in it: __zm ", p2), "R11d".into()));
                        if !lets.is_empty() { self.scan.rewrites.push((bo + 1, bo + 1, lets, "R11d".into())); }
                        struct Derefs2<'b> { name: String, src: &'b SrcFile, out: Vec<(usize, usize)> }
                        impl<'b, 'ast> Visit<'ast> for Derefs2<'b> {
                            fn visit_expr_unary(&mut self, u: &'ast syn::ExprUnary) {
                                if let (syn::UnOp::Deref(_), syn::Expr::Path(p)) = (&u.op, &*u.expr) {
                                    if p.path.is_ident(&self.name) { self.out.push(self.src.range(u.span())); return; }
                                }
                                syn::visit::visit_expr_unary(self, u);
                            }
                        }
                        let mut dv = Derefs2 { name: rid.ident.to_string(), src: self.src, out: vec![] };
                        dv.visit_block(&l.body);
                        for (da, db) in dv.out { self.scan.rewrites.push((da, db, format!("{}[__i]", xs_t), "R11d".into())); }
                        self.scan.for_exprs.remove(&(self.scan.loops.len() - 1));
                        self.record_call("verif_zip_mut_idx".into());
                        syn::visit::visit_block(self, &l.body);
                        return;
                    }
                }
            }
        }
        // R15 (opt-in, `//@loop n halfopen=1`): `for P in A..=B` -> `for P in A..verif_incl_end(B)` (vstd specifies the
        // elements of half-open ranges only; the shim function requires B + 1 to be representable and returns B + 1)
        if let syn::Expr::Range(r) = &*l.expr {
            if let (Some(_), Some(end), syn::RangeLimits::Closed(tok)) = (&r.start, &r.end, &r.limits) {
                let (ta, tb) = self.src.range(tok.span());
                let (ea, eb) = self.src.range(end.span());
                self.scan.incl_ranges.insert(self.scan.loops.len() - 1, (ta, tb, ea, eb));
            }
        }
        // R13: reference patterns of the loop pattern (`for (&x, &w) in ..`) are desugared:
        // `&x` -> `__ref_x` plus `let x = *__ref_x;` at the start of the body
        let mut refs = vec![];
        ref_pats(&l.pat, &mut refs);
        if !refs.is_empty() {
            let mut lets = String::new();
            for (sp, name) in &refs {
                let (a, b) = self.src.range(*sp);
                self.scan.rewrites.push((a, b, format!("__ref_{}", name), "R13".into()));
                lets.push_str(&format!(" let {} = *__ref_{};", name, name));
            }
            self.scan.rewrites.push((bo + 1, bo + 1, lets, "R13".into()));
        }
        syn::visit::visit_expr_for_loop(self, l);
    }
    fn visit_arm(&mut self, a: &'ast syn::Arm) {
        if let syn::Expr::Block(b) = &*a.body {
            let (bo, _) = self.src.range(b.block.brace_token.span.open());
            let (bc, _) = self.src.range(b.block.brace_token.span.close());
            self.scan.arms.push((bo + 1, bc));
        }
        syn::visit::visit_arm(self, a);
    }
    fn visit_expr_if(&mut self, e: &'ast syn::ExprIf) {
        let (bo, _) = self.src.range(e.then_branch.brace_token.span.open());
        let (bc, _) = self.src.range(e.then_branch.brace_token.span.close());
        self.scan.ifs.push((bo + 1, bc));
        syn::visit::visit_expr_if(self, e);
    }
    fn visit_expr_binary(&mut self, b: &'ast syn::ExprBinary) {
        let op = match &b.op { syn::BinOp::Add(_) => "+", syn::BinOp::Sub(_) => "-", syn::BinOp::Mul(_) => "*", syn::BinOp::Div(_) => "/", _ => "" };
        if !op.is_empty() {
            let l = self.src.range(b.left.span());
            let r = self.src.range(b.right.span());
            self.scan.binops.entry(op.to_string()).or_default().push((l, r));
        }
        // `//@binop cmp N PREFIX`: the N-th order comparison, whichever of `<`, `<=`, `>`, `>=` it is, becomes PREFIX_lt / _le / _gt / _ge
        let cmp = match &b.op { syn::BinOp::Lt(_) => "lt", syn::BinOp::Le(_) => "le", syn::BinOp::Gt(_) => "gt", syn::BinOp::Ge(_) => "ge", _ => "" };
        if !cmp.is_empty() {
            let l = self.src.range(b.left.span());
            let r = self.src.range(b.right.span());
            self.scan.binops.entry("cmp".to_string()).or_default().push((l, r));
            self.scan.cmp_kinds.push(cmp.to_string());
        }
        syn::visit::visit_expr_binary(self, b);
    }
    fn visit_expr_try(&mut self, t: &'ast syn::ExprTry) {
        let (a, _) = self.src.range(t.expr.span());
        self.scan.tries.push((a, self.src.range(t.question_token.span())));
        syn::visit::visit_expr_try(self, t);
    }
    fn visit_expr_closure(&mut self, c: &'ast syn::ExprClosure) {
        let (hs, _) = self.src.range(c.span());
        let (bs, be) = self.src.range(c.body.span());
        self.scan.closures.push((hs, bs, be, matches!(&*c.body, syn::Expr::Block(_))));
        syn::visit::visit_expr_closure(self, c);
    }
    fn visit_expr_call(&mut self, c: &'ast syn::ExprCall) {
        if let syn::Expr::Path(p) = &*c.func {
            if let Some(seg) = p.path.segments.last() {
                self.record_call(seg.ident.to_string());
            }
        }
        syn::visit::visit_expr_call(self, c);
    }
    fn visit_expr_method_call(&mut self, c: &'ast syn::ExprMethodCall) {
        // R3: X.iter_mut().for_each(|x| *x -= E)
        if c.method == "for_each" && c.args.len() == 1 {
            if let syn::Expr::MethodCall(inner) = &*c.receiver {
                if inner.method == "iter_mut" && inner.args.is_empty() {
                    if let syn::Expr::Closure(cl) = &c.args[0] {
                        closure_must_not_escape(cl);
                        if cl.inputs.len() == 1 {
                            let mut ids = vec![];
                            pat_idents(&cl.inputs[0], &mut ids);
                            if let (Some(x), syn::Expr::Binary(bin)) = (ids.first(), &*cl.body) {
                                if let (syn::BinOp::SubAssign(_), syn::Expr::Unary(u)) = (&bin.op, &*bin.left) {
                                    if let (syn::UnOp::Deref(_), syn::Expr::Path(p)) = (&u.op, &*u.expr) {
                                        if p.path.is_ident(x) {
                                            let (a, b) = self.src.range(c.span());
                                            let xs = self.text(inner.receiver.span()).to_string();
                                            let es = self.text(bin.right.span()).to_string();
                                            self.scan.rewrites.push((a, b, format!("verif_sub_assign_all({}, {})", xs.trim(), es), "R3".into()));
                                            self.record_call("verif_sub_assign_all".into());
                                            return;
                                        }
                                    }
                                }
                            }
                        }
                    }
                }
            }
        }
        // R11: Zip::from(X).and(Y).for_each(|a, b| BODY)
        if c.method == "for_each" && c.args.len() == 1 {
            if let (syn::Expr::MethodCall(andc), syn::Expr::Closure(cl)) = (&*c.receiver, &c.args[0]) {
                closure_must_not_escape(cl);
                if andc.method == "and" && andc.args.len() == 1 && cl.inputs.len() == 2 {
                    if let syn::Expr::Call(fc) = &*andc.receiver {
                        let is_zip_from = if let syn::Expr::Path(p) = &*fc.func { let v: Vec<String> = p.path.segments.iter().map(|x| x.ident.to_string()).collect(); v.len() >= 2 && v[v.len() - 2] == "Zip" && v[v.len() - 1] == "from" } else { false };
                        if is_zip_from && fc.args.len() == 1 && matches!(&*cl.body, syn::Expr::Block(_)) && !self.text(fc.args[0].span()).contains("lanes_mut") {
                            let (a, _) = self.src.range(c.span());
                            let (bs, be) = self.src.range(cl.body.span());
                            let xs = self.text(fc.args[0].span()).to_string();
                            let ys = self.text(andc.args[0].span()).to_string();
                            let p0 = self.text(cl.inputs[0].span()).to_string();
                            let p1 = self.text(cl.inputs[1].span()).to_string();
                            // header replaces everything up to the closure body; the body block stays verbatim; the closing `)` goes
                            self.scan.rewrites.push((a, bs, format!("let __zip = verif_zip2({}, {}); let ghost __zs = __zip@; for ({}, {}) in it: __zip ", xs.trim(), ys.trim(), p0, p1), "R11".into()));
                            let (_, ce) = self.src.range(c.span());
                            self.scan.rewrites.push((be, ce, String::new(), "R11".into()));
                            // the zipped loop counts as a loop for `//@loop n` contracts: body block = the closure's block
                            let (s0, e0) = self.src.range(c.span());
                            self.scan.loops.push((bs, be - 1, s0, e0));
                            self.record_call("verif_zip2".into());
                            syn::visit::visit_expr(self, &cl.body);
                            return;
                        }
                    }
                }
            }
        }
        // R11c: Zip::from(X.lanes_mut(AX)).and(Y.lanes_mut(AY)).for_each(|mut a, mut b| BODY)   (X, Y plain mutable locals)
        //   -> the arrays are moved into fresh names for the duration of the loop, every pair of lanes (same position, in an
        //      unspecified order) is taken out, handed to BODY under the closure's parameter names and put back
        if c.method == "for_each" && c.args.len() == 1 {
            if let (syn::Expr::MethodCall(andc), syn::Expr::Closure(cl)) = (&*c.receiver, &c.args[0]) {
                closure_must_not_escape(cl);
                if andc.method == "and" && andc.args.len() == 1 && cl.inputs.len() == 2 && matches!(&*cl.body, syn::Expr::Block(_)) {
                    if let syn::Expr::Call(fc) = &*andc.receiver {
                        let is_zip_from = if let syn::Expr::Path(p) = &*fc.func { let v: Vec<String> = p.path.segments.iter().map(|x| x.ident.to_string()).collect(); v.len() >= 2 && v[v.len() - 2] == "Zip" && v[v.len() - 1] == "from" } else { false };
                        let lanes_of = |e: &syn::Expr| -> Option<(String, String)> {
                            if let syn::Expr::MethodCall(m) = e {
                                if m.method == "lanes_mut" && m.args.len() == 1 {
                                    if let syn::Expr::Path(p) = &*m.receiver { if let Some(id) = p.path.get_ident() { return Some((id.to_string(), self.text(m.args[0].span()).to_string())); } }
                                }
                            }
                            None
                        };
                        if is_zip_from && fc.args.len() == 1 {
                            if let (Some((x, ax)), Some((y, ay))) = (lanes_of(&fc.args[0]), lanes_of(&andc.args[0])) {
                                let mut n0 = vec![]; pat_idents(&cl.inputs[0], &mut n0);
                                let mut n1 = vec![]; pat_idents(&cl.inputs[1], &mut n1);
                                if n0.len() == 1 && n1.len() == 1 {
                                    let (a, _) = self.src.range(c.span());
                                    let (bs, be) = self.src.range(cl.body.span());
                                    let (_, ce) = self.src.range(c.span());
                                    self.scan.rewrites.push((a, bs, format!("let __lz = verif_lane_order({x}.verif_ref(), {ax}, {y}.verif_ref(), {ay}); let ghost __lzs = __lz@; for __j in it: __lz ", x = x, y = y, ax = ax.trim(), ay = ay.trim()), "R11c".into()));
                                    // (after the loop contract, which is inserted at the same offset) an outer block that takes the two lanes out ...
                                    self.scan.rewrites.push((bs, bs, format!("{{ let mut __la = {x}.verif_take_lane({ax}, __j); let mut __lb = {y}.verif_take_lane({ay}, __j); ", x = x, y = y, ax = ax.trim(), ay = ay.trim()), "R11c-late".into()));
                                    // ... hands them to BODY under the closure's parameter names (which may shadow X and Y) ...
                                    self.scan.rewrites.push((bs + 1, bs + 1, format!(" let mut {} = __la; let mut {} = __lb;", n0[0], n1[0]), "R11c".into()));
                                    self.scan.rewrites.push((be - 1, be - 1, format!("; __la = {}; __lb = {};", n0[0], n1[0]), "R11c-late".into()));
                                    // ... and puts them back
                                    self.scan.rewrites.push((be, be, format!(" {x}.verif_put_lane({ax}, __j, __la); {y}.verif_put_lane({ay}, __j, __lb);", x = x, y = y, ax = ax.trim(), ay = ay.trim()), "R11c".into()));
                                    self.scan.rewrites.push((be, ce, " }".to_string(), "R11c".into()));
                                    self.scan.lane_loops.insert(self.scan.loops.len(), be);
                                    let (s0, e0) = self.src.range(c.span());
                                    self.scan.loops.push((bs, be - 1, s0, e0));
                                    self.record_call("verif_lane_order".into());
                                    syn::visit::visit_expr(self, &cl.body);
                                    return;
                                }
                            }
                        }
                    }
                }
            }
        }
        // R11b: Zip::from(&mut T).and(X).and(Y).for_each(|r, P1, P2| BODY)  (element-wise assignment into T)
        //   -> let __zip = verif_zip3_idx(X, Y); let ghost __zs = __zip@;
        //      for (__i, P1', P2') in it: __zip { <R13 lets> let mut __slot = T.verif_get(__i); BODY[*r := __slot] ; T.verif_set(__i, __slot); }
        if c.method == "for_each" && c.args.len() == 1 {
            if let (syn::Expr::MethodCall(and2), syn::Expr::Closure(cl)) = (&*c.receiver, &c.args[0]) {
                closure_must_not_escape(cl);
                if and2.method == "and" && and2.args.len() == 1 && cl.inputs.len() == 3 {
                    if let syn::Expr::MethodCall(and1) = &*and2.receiver {
                        if and1.method == "and" && and1.args.len() == 1 {
                            if let syn::Expr::Call(fc) = &*and1.receiver {
                                let is_zip_from = if let syn::Expr::Path(p) = &*fc.func { let v: Vec<String> = p.path.segments.iter().map(|x| x.ident.to_string()).collect(); v.len() >= 2 && v[v.len() - 2] == "Zip" && v[v.len() - 1] == "from" } else { false };
                                let target = if fc.args.len() == 1 { if let syn::Expr::Reference(rf) = &fc.args[0] { if rf.mutability.is_some() { Some(self.text(rf.expr.span()).to_string()) } else { None } } else { None } } else { None };
                                let mut rid = vec![];
                                pat_idents(&cl.inputs[0], &mut rid);
                                if let (true, Some(tgt), true, Some(rname)) = (is_zip_from, target, matches!(&*cl.body, syn::Expr::Block(_)), rid.first().cloned()) {
                                    if matches!(&cl.inputs[0], syn::Pat::Ident(_)) {
                                        let (a, _) = self.src.range(c.span());
                                        let (bs, be) = self.src.range(cl.body.span());
                                        let xs = self.text(and1.args[0].span()).to_string();
                                        let ys = self.text(and2.args[0].span()).to_string();
                                        // parameter patterns of the two read-only operands; `&x` is desugared as in R13
                                        let mut pats = vec![];
                                        let mut lets = String::new();
                                        for k in 1..3 {
                                            let mut refs = vec![];
                                            ref_pats(&cl.inputs[k], &mut refs);
                                            if refs.len() == 1 && matches!(&cl.inputs[k], syn::Pat::Reference(_)) {
                                                pats.push(format!("__ref_{}", refs[0].1));
                                                lets.push_str(&format!(" let {} = *__ref_{};", refs[0].1, refs[0].1));
                                            } else {
                                                pats.push(self.text(cl.inputs[k].span()).to_string());
                                            }
                                        }
                                        self.scan.rewrites.push((a, bs, format!("let __zip = verif_zip3_idx({}, {}); let ghost __zs = __zip@; for (__i, {}, {}) in it: __zip ", xs.trim(), ys.trim(), pats[0], pats[1]), "R11b".into()));
                                        self.scan.rewrites.push((bs + 1, bs + 1, format!("{} let mut __slot = {}.verif_get(__i);", lets, tgt.trim()), "R11b".into()));
                                        let (_, ce) = self.src.range(c.span());
                                        self.scan.rewrites.push((be - 1, be - 1, format!("; {}.verif_set(__i, __slot);", tgt.trim()), "R11b".into()));
                                        self.scan.rewrites.push((be, ce, String::new(), "R11b".into()));
                                        // `*r` -> `__slot` inside the body
                                        struct Derefs<'b> { name: String, src: &'b SrcFile, out: Vec<(usize, usize)> }
                                        impl<'b, 'ast> Visit<'ast> for Derefs<'b> {
                                            fn visit_expr_unary(&mut self, u: &'ast syn::ExprUnary) {
                                                if let (syn::UnOp::Deref(_), syn::Expr::Path(p)) = (&u.op, &*u.expr) {
                                                    if p.path.is_ident(&self.name) { self.out.push(self.src.range(u.span())); return; }
                                                }
                                                syn::visit::visit_expr_unary(self, u);
                                            }
                                        }
                                        let mut dv = Derefs { name: rname, src: self.src, out: vec![] };
                                        dv.visit_expr(&cl.body);
                                        for (da, db) in dv.out { self.scan.rewrites.push((da, db, "__slot".into(), "R11b".into())); }
                                        let (s0, e0) = self.src.range(c.span());
                                        self.scan.loops.push((bs, be - 1, s0, e0));
                                        self.record_call("verif_zip3_idx".into());
                                        syn::visit::visit_expr(self, &cl.body);
                                        return;
                                    }
                                }
                            }
                        }
                    }
                }
            }
        }
        // R19 (opt-in `lower=fold`): `RECV.fold(INIT, |acc, item| BLOCK)` -> a loop over the items RECV's fold visits (each once,
        // unspecified order) threading the accumulator:
        //   { let __fo = verif_fold_items(RECV); let ghost __fos = __fo@; let mut __acc = INIT; for item in it: __fo <contract> { let acc = __acc; __acc = BLOCK; } __acc }
        if self.lower.contains("fold") && c.method == "fold" && c.args.len() == 2 {
            if let syn::Expr::Closure(cl) = &c.args[1] {
                closure_must_not_escape(cl);
                if cl.inputs.len() == 2 {
                    // the closure's body is a block, or any other expression (then braces are put around it)
                    let is_block = matches!(&*cl.body, syn::Expr::Block(_));
                    let (a, _) = self.src.range(c.span());
                    let (_, ce) = self.src.range(c.span());
                    let (bs, be) = self.src.range(cl.body.span());
                    let recv = self.text(c.receiver.span()).trim().to_string();
                    let init = self.text(c.args[0].span()).trim().to_string();
                    let p_acc = self.text(cl.inputs[0].span()).to_string();
                    let p_item = self.text(cl.inputs[1].span()).to_string();
                    self.scan.rewrites.push((a, bs, format!("{{ let __fo = verif_fold_items({}); let ghost __fos = __fo@; let mut __acc = {}; for {} in it: __fo ", recv, init, p_item), "R19".into()));
                    self.scan.rewrites.push((bs, bs, format!("{{ let {} = __acc; __acc = {}", p_acc, if is_block { "" } else { "{ " }), "R19-late".into()));
                    self.scan.rewrites.push((be, be, (if is_block { ";" } else { " };" }).to_string(), "R19".into()));
                    self.scan.rewrites.push((be, be, " }".to_string(), "R19-late".into()));
                    self.scan.rewrites.push((be, ce, " __acc }".to_string(), "R19".into()));
                    let (s0, e0) = self.src.range(c.span());
                    // loop contract before the generated body block, `loop_end` after the accumulator has been assigned
                    self.scan.loops.push((bs, be, s0, e0));
                    if !is_block { self.scan.expr_body_loops.insert(self.scan.loops.len() - 1); }
                    self.scan.fold_loops.insert(self.scan.loops.len() - 1);
                    self.record_call("verif_fold_items".into());
                    syn::visit::visit_expr(self, &cl.body);
                    return;
                }
            }
        }
        // R19d (opt-in `lower=fold_axis`): `X.fold_axis(AX, INIT, |acc, elem| BLOCK)` -> for every lane (each once, unspecified order) an
        // accumulator starting from a clone of INIT is threaded through the elements of the lane in axis order:
        //   { let __lz = verif_lane_order1(X.verif_ref(), AX); let ghost __lzs = __lz@; let mut __res = verif_lane_results(X.verif_ref(), AX);
        //     for __j in it: __lz <contract n> { let __lane = X.verif_lane_items(AX, __j); let ghost __lis = __lane@; let mut __a = verif_init_copy(&INIT);
        //        for elem in it2: __lane <contract n+1> { let __n = { let acc = &__a; BLOCK }; __a = __n; <loop_end n+1> }
        //        __res.verif_put(__j, __a); <loop_tail n> } <after_loop n> __res.verif_finish() }
        if self.lower.contains("fold_axis") && c.method == "fold_axis" && c.args.len() == 3 {
            if let syn::Expr::Closure(cl) = &c.args[2] {
                closure_must_not_escape(cl);
                if cl.inputs.len() == 2 && matches!(&*cl.body, syn::Expr::Block(_)) {
                    let (a, _) = self.src.range(c.span());
                    let (_, ce) = self.src.range(c.span());
                    let (bs, be) = self.src.range(cl.body.span());
                    let recv = self.text(c.receiver.span()).trim().to_string();
                    let ax = self.text(c.args[0].span()).trim().to_string();
                    let init = self.text(c.args[1].span()).trim().to_string();
                    let p_acc = self.text(cl.inputs[0].span()).to_string();
                    let p_item = self.text(cl.inputs[1].span()).to_string();
                    self.scan.rewrites.push((a, a, format!("{{ let __lz = verif_lane_order1({r}.verif_ref(), {ax}); let ghost __lzs = __lz@; let mut __res = verif_lane_results({r}.verif_ref(), {ax}); for __j in it: __lz ", r = recv, ax = ax), "R19d".into()));
                    let (cs, _) = self.src.range(cl.span());
                    self.scan.rewrites.push((a, cs, format!("{{ let __lane = {r}.verif_lane_items({ax}, __j); let ghost __lis = __lane@; let mut __a = verif_init_copy(&{init});", r = recv, ax = ax, init = init), "R19d".into()));
                    self.scan.rewrites.push((cs, bs, format!(" for {item} in it2: __lane ", item = p_item), "R19d".into()));
                    self.scan.outer_fold_axis_start.insert(self.scan.loops.len(), cs);
                    self.scan.rewrites.push((bs, bs, format!("{{ let __n = {{ let {} = &__a; ", p_acc), "R19d-late".into()));
                    self.scan.rewrites.push((be, be, " }; __a = __n;".to_string(), "R19d".into()));
                    self.scan.rewrites.push((be, be, " } __res.verif_put(__j, __a);".to_string(), "R19d-late".into()));
                    self.scan.rewrites.push((be, be, " }".to_string(), "R19d-late2".into()));
                    self.scan.rewrites.push((be, ce, " __res.verif_finish() }".to_string(), "R19d".into()));
                    let (s0, e0) = self.src.range(c.span());
                    // outer loop (ordinal n): contract at `a`; inner loop (n + 1): contract at the closure's block
                    self.scan.loops.push((a, be, s0, e0));
                    self.scan.outer_fold_axis.insert(self.scan.loops.len() - 1, be);
                    self.scan.loops.push((bs, be, s0, e0));
                    self.scan.fold_loops.insert(self.scan.loops.len() - 1);
                    self.record_call("verif_lane_order1".into());
                    syn::visit::visit_expr(self, &cl.body);
                    return;
                }
            }
        }
        // R19c (opt-in `lower=map_axis_mut`): `X.map_axis_mut(AX, |lane| EXPR)` -> a loop over the lane positions (each once,
        // unspecified order) that hands lane j to EXPR and stores the value as result j:
        //   { let __lz = verif_lane_order1(X.verif_ref(), AX); let ghost __lzs = __lz@; let mut __res = verif_lane_results(X.verif_ref(), AX);
        //     for __j in it: __lz <contract> { let lane = X.verif_take_lane(AX, __j); let __v = EXPR; __res.verif_put(__j, __v); } __res.verif_finish() }
        if self.lower.contains("map_axis_mut") && c.method == "map_axis_mut" && c.args.len() == 2 {
            if let syn::Expr::Closure(cl) = &c.args[1] {
                closure_must_not_escape(cl);
                if cl.inputs.len() == 1 {
                    let (a, _) = self.src.range(c.span());
                    let (_, ce) = self.src.range(c.span());
                    let (bs, be) = self.src.range(cl.body.span());
                    let recv = self.text(c.receiver.span()).trim().to_string();
                    let ax = self.text(c.args[0].span()).trim().to_string();
                    let p_lane = self.text(cl.inputs[0].span()).to_string();
                    self.scan.rewrites.push((a, bs, format!("{{ let __lz = verif_lane_order1({r}.verif_ref(), {ax}); let ghost __lzs = __lz@; let mut __res = verif_lane_results({r}.verif_ref(), {ax}); for __j in it: __lz ", r = recv, ax = ax), "R19c".into()));
                    self.scan.rewrites.push((bs, bs, format!("{{ let {} = {}.verif_take_lane({}, __j);", p_lane, recv, ax), "R19c-late".into()));
                    self.scan.rewrites.push((bs, bs, " let __v = ".to_string(), "R19c-late2".into()));
                    self.scan.expr_body_loops.insert(self.scan.loops.len());
                    self.scan.rewrites.push((be, be, "; __res.verif_put(__j, __v);".to_string(), "R19c".into()));
                    self.scan.rewrites.push((be, be, " }".to_string(), "R19c-late".into()));
                    self.scan.rewrites.push((be, ce, " __res.verif_finish() }".to_string(), "R19c".into()));
                    let (s0, e0) = self.src.range(c.span());
                    self.scan.loops.push((bs, be, s0, e0));
                    self.scan.fold_loops.insert(self.scan.loops.len() - 1);
                    self.record_call("verif_lane_order1".into());
                    syn::visit::visit_expr(self, &cl.body);
                    return;
                }
            }
        }
        // R19b (opt-in `lower=for_each`): `RECV.for_each(|item| BLOCK)` -> `let __fo = verif_fold_items(RECV); let ghost __fos = __fo@; for item in it: __fo BLOCK`
        if self.lower.contains("for_each") && c.method == "for_each" && c.args.len() == 1 {
            if let syn::Expr::Closure(cl) = &c.args[0] {
                closure_must_not_escape(cl);
                if cl.inputs.len() == 1 {
                    let is_block = matches!(&*cl.body, syn::Expr::Block(_));
                    let (a, _) = self.src.range(c.span());
                    let (_, ce) = self.src.range(c.span());
                    let (bs, be) = self.src.range(cl.body.span());
                    let recv = self.text(c.receiver.span()).trim().to_string();
                    let p_item = self.text(cl.inputs[0].span()).to_string();
                    self.scan.rewrites.push((a, bs, format!("let __fo = verif_fold_items({}); let ghost __fos = __fo@; for {} in it: __fo ", recv, p_item), "R19b".into()));
                    if !is_block {
                        // an expression body gets braces: `{ EXPR; }`
                        self.scan.rewrites.push((bs, bs, "{ ".to_string(), "R19b-late".into()));
                        self.scan.rewrites.push((be, be, ";".to_string(), "R19b".into()));
                        self.scan.rewrites.push((be, be, " }".to_string(), "R19b-late".into()));
                    }
                    self.scan.rewrites.push((be, ce, String::new(), "R19b".into()));
                    let (s0, e0) = self.src.range(c.span());
                    self.scan.loops.push((bs, if is_block { be - 1 } else { be }, s0, e0));
                    if !is_block { self.scan.expr_body_loops.insert(self.scan.loops.len() - 1); }
                    self.record_call("verif_fold_items".into());
                    syn::visit::visit_expr(self, &cl.body);
                    return;
                }
            }
        }
        // R8: X.iter().cloned().zip(Y.into_iter()).collect()
        if c.method == "collect" && c.args.is_empty() {
            if let syn::Expr::MethodCall(z) = &*c.receiver {
                if z.method == "zip" && z.args.len() == 1 {
                    if let (syn::Expr::MethodCall(cl), syn::Expr::MethodCall(ii)) = (&*z.receiver, &z.args[0]) {
                        if cl.method == "cloned" && ii.method == "into_iter" && ii.args.is_empty() {
                            if let syn::Expr::MethodCall(it) = &*cl.receiver {
                                if it.method == "iter" && it.args.is_empty() {
                                    let (a, b) = self.src.range(c.span());
                                    let xs = self.text(it.receiver.span()).to_string();
                                    let ys = self.text(ii.receiver.span()).to_string();
                                    self.scan.rewrites.push((a, b, format!("verif_zip_collect({}, {})", xs.trim(), ys.trim()), "R8".into()));
                                    self.record_call("verif_zip_collect".into());
                                    return;
                                }
                            }
                        }
                    }
                }
            }
        }
        self.record_call(c.method.to_string());
        let mr = self.src.range(c.method.span());
        self.scan.method_idents.entry(c.method.to_string()).or_default().push(mr);
        if let Some(top) = self.scan.stmt_stack.last().cloned() {
            let la = c.args.last().map(|a| self.src.range(a.span()));
            self.scan.method_calls.entry(c.method.to_string()).or_default().push((self.src.range(c.span()), la, top.start));
        }
        syn::visit::visit_expr_method_call(self, c);
    }
}

/// single-rule `macro_rules!` definitions with `$name:frag` parameters, found anywhere in a file
fn collect_macros(src: &SrcFile, items: &[syn::Item], out: &mut BTreeMap<String, (Vec<String>, String)>) {
    for it in items {
        match it {
            syn::Item::Macro(m) => {
                if let (Some(name), true) = (&m.ident, m.mac.path.is_ident("macro_rules")) {
                    let tts: Vec<proc_macro2::TokenTree> = m.mac.tokens.clone().into_iter().collect();
                    // ( matcher ) => { body } [;]   -- exactly one rule
                    let groups: Vec<&proc_macro2::Group> = tts.iter().filter_map(|t| if let proc_macro2::TokenTree::Group(g) = t { Some(g) } else { None }).collect();
                    if groups.len() == 2 {
                        let mut params = vec![];
                        let mt: Vec<proc_macro2::TokenTree> = groups[0].stream().into_iter().collect();
                        let mut k = 0;
                        while k + 1 < mt.len() {
                            if let (proc_macro2::TokenTree::Punct(p), proc_macro2::TokenTree::Ident(id)) = (&mt[k], &mt[k + 1]) {
                                if p.as_char() == '$' { params.push(id.to_string()); k += 2; continue; }
                            }
                            k += 1;
                        }
                        let (a, _) = src.range(groups[1].span_open());
                        let (b, _) = src.range(groups[1].span_close());
                        out.insert(name.to_string(), (params, src.text[a + 1..b].to_string()));
                    }
                }
            }
            syn::Item::Mod(md) => { if let Some((_, its)) = &md.content { collect_macros(src, its, out); } }
            _ => {}
        }
    }
}

fn norm_tokens(s: &str) -> String {
    s.split_whitespace().collect::<Vec<_>>().join(" ")
}

struct OutBuf {
    text: String,
    line: usize,
    map: Vec<serde_json::Value>,
}

impl OutBuf {
    fn push(&mut self, t: &str, meta: serde_json::Value) {
        if t.is_empty() {
            return;
        }
        let start = self.line;
        let nl = t.matches('\n').count();
        self.text.push_str(t);
        self.line += nl;
        // a piece that does not end in a newline shares its last line with the next piece
        let end = if t.ends_with('\n') { self.line - 1 } else { self.line };
        let mut m = meta;
        m["out_start"] = json!(start);
        m["out_end"] = json!(end.max(start));
        self.map.push(m);
    }
}

fn main() {
    let args: Vec<String> = std::env::args().collect();
    let mut template = None;
    let mut repo = PathBuf::from("/repo");
    let mut out = None;
    let mut mapf = None;
    let mut mode = "N".to_string();
    let mut vacuity = false;
    // functions whose body is replaced by a trusted stub (contract kept): used by the driver to keep the rest of a
    // unit verifiable when one function no longer fits the shim / its anchors (that function is then undecided)
    let mut stub: Vec<String> = vec![];
    let mut i = 1;
    while i < args.len() {
        match args[i].as_str() {
            "--template" => { template = Some(PathBuf::from(&args[i + 1])); i += 2; }
            "--repo" => { repo = PathBuf::from(&args[i + 1]); i += 2; }
            "--out" => { out = Some(PathBuf::from(&args[i + 1])); i += 2; }
            "--map" => { mapf = Some(PathBuf::from(&args[i + 1])); i += 2; }
            "--mode" => { mode = args[i + 1].clone(); i += 2; }
            "--vacuity" => { vacuity = true; i += 1; }
            "--stub" => { stub = args[i + 1].split(',').map(|x| x.to_string()).collect(); i += 2; }
            a => die(4, format!("unknown argument {}", a)),
        }
    }
    let template = template.unwrap_or_else(|| die(4, "missing --template".into()));
    let out = out.unwrap_or_else(|| die(4, "missing --out".into()));
    let mapf = mapf.unwrap_or_else(|| die(4, "missing --map".into()));

    let mut items = vec![];
    load_template(&template, &mode, &mut items);

    let mut files: BTreeMap<String, SrcFile> = BTreeMap::new();
    for it in &items {
        if let TItem::Extract(r) = it {
            let f = r.attrs.get("file").unwrap_or_else(|| die(4, "extract without file=".into())).clone();
            if !files.contains_key(&f) {
                files.insert(f.clone(), SrcFile::load(&repo.join(&f)));
            }
        }
    }

    let mut crate_macros: BTreeMap<String, (Vec<String>, String)> = BTreeMap::new();
    let librs = repo.join("src/lib.rs");
    if librs.exists() {
        let lf = SrcFile::load(&librs);
        collect_macros(&lf, &lf.ast.items, &mut crate_macros);
    }
    let mut ob = OutBuf { text: String::new(), line: 1, map: vec![] };
    let mut fns = vec![];
    for it in &items {
        match it {
            TItem::Raw(t, origin, l0) => {
                CURRENT_FN.with(|c| *c.borrow_mut() = None);
                ob.push(t, json!({"kind": "shim", "origin": origin, "origin_line": l0}));
            }
            TItem::Extract(r) => {
                let file = r.attrs.get("file").unwrap();
                let name = r.attrs.get("fn").unwrap_or_else(|| die(4, "extract without fn=".into()));
                let id = r.attrs.get("id").cloned().unwrap_or(name.clone());
                CURRENT_FN.with(|c| *c.borrow_mut() = Some(id.clone()));
                let tags = r.attrs.get("tags").cloned().unwrap_or_default();
                let body_tags = r.attrs.get("body_tags").cloned().unwrap_or(tags.clone());
                let mut inlined: Vec<serde_json::Value> = vec![];
                let inl_holder: Option<SrcFile> = r.attrs.get("inline").map(|spec| {
                    let parts: Vec<&str> = spec.split('@').collect();
                    if parts.len() != 3 { die(4, format!("inline= wants CALLEE@FILE@IMPL, got {}", spec)); }
                    let src0 = &files[file];
                    let mut f0 = vec![];
                    find_fn(&src0.ast.items, name, r.attrs.get("impl").map(|s| s.as_str()), &mut f0);
                    if f0.len() != 1 { die(3, format!("lost-anchor: {} candidates for fn {} in {}", f0.len(), name, file)); }
                    let csrc = SrcFile::load(&repo.join(parts[1]));
                    let mut c0 = vec![];
                    find_fn(&csrc.ast.items, parts[0], Some(parts[2]), &mut c0);
                    if c0.len() != 1 { die(3, format!("lost-anchor: inline: {} candidates for fn {} (impl {}) in {}", c0.len(), parts[0], parts[2], parts[1])); }
                    let (text, cl) = inline_call(src0, &f0[0], &csrc, &c0[0], parts[0], r.attrs.get("inline_ty").and_then(|x| x.split_once(':')));
                    inlined.push(json!({"rule": "R22", "callee": parts[0], "file": parts[1], "callee_line": cl}));
                    SrcFile::from_text(text, &format!("{} with {} inlined", file, parts[0]))
                });
                let src = inl_holder.as_ref().unwrap_or(&files[file]);
                let mut found = vec![];
                find_fn(&src.ast.items, name, r.attrs.get("impl").map(|s| s.as_str()), &mut found);
                if let Some(nth) = r.attrs.get("nth").and_then(|x| x.parse::<usize>().ok()) {
                    if nth < found.len() {
                        let f = found.remove(nth);
                        found = vec![f];
                    }
                }
                // `inner=NAME`: the function item NAME declared inside the body of the function found so far
                if let Some(inner) = r.attrs.get("inner") {
                    let mut nested = vec![];
                    for f0 in &found {
                        for st in &f0.block.stmts {
                            if let syn::Stmt::Item(syn::Item::Fn(nf)) = st {
                                if nf.sig.ident == inner.as_str() { nested.push(Found { sig: &nf.sig, block: &nf.block }); }
                            }
                        }
                    }
                    found = nested;
                }
                if found.len() != 1 {
                    die(3, format!("lost-anchor: {} candidates for fn {} (impl {:?}) in {} (template line {})",
                        found.len(), name, r.attrs.get("impl"), file, r.tline));
                }
                let f = &found[0];
                let (sig_a, sig_b) = src.range(f.sig.span());
                let sig_text = norm_tokens(&src.text[sig_a..sig_b]);
                if let Some(want) = &r.source_sig {
                    if norm_tokens(want) != sig_text {
                        die(3, format!("lost-anchor: signature of {} changed:\n  expected: {}\n  found:    {}", name, norm_tokens(want), sig_text));
                    }
                }
                let (bo, _) = src.range(f.block.brace_token.span.open());
                let (bc, bc_end) = src.range(f.block.brace_token.span.close());
                let mut sc = Scanner { src, scan: BodyScan::default(), crate_macros: &crate_macros, macro_into: r.attrs.get("macro_into").cloned(), lower: r.attrs.get("lower").map(|x| x.split(',').map(|y| y.to_string()).collect()).unwrap_or_default() };
                sc.visit_block(f.block);
                let scan = sc.scan;

                // edits: (offset_start, offset_end, seq, text, meta)
                let mut edits: Vec<(usize, usize, usize, String, serde_json::Value)> = vec![];
                let mut seq = 0usize;
                for (a, b, t, rule) in &scan.rewrites {
                    // "-late" insertions come after the template's own insertions at the same offset (loop contracts, ghost code)
                    let sq = if rule.ends_with("-late2") { seq + 3_000_000 } else if rule.ends_with("-late") { seq + 1_000_000 } else { seq };
                    edits.push((*a, *b, sq, t.clone(), json!({"kind": "rewrite", "rule": rule.trim_end_matches("-late2").trim_end_matches("-late"), "fn": id, "tags": body_tags, "src_file": file, "src_line": src.line_of(*a)})));
                    seq += 1;
                }
                let mut sig_sec = None;
                let mut spec_secs = vec![];
                let stubbed = stub.contains(&id);
                for s in &r.sections {
                    let stags = s.tags.clone().unwrap_or(tags.clone());
                    if stubbed && s.kind != "sig" && s.kind != "spec" { continue; }
                    match s.kind.as_str() {
                        "sig" => sig_sec = Some(s.clone()),
                        "spec" => spec_secs.push(s.clone()),
                        "loop" => {
                            let n: usize = s.args.get(0).and_then(|x| x.parse().ok()).unwrap_or_else(|| die(4, format!("bad loop ordinal in {}", id)));
                            let lp = scan.loops.get(n).unwrap_or_else(|| die(3, format!("lost-anchor: loop {} of {} not found ({} loops)", n, id, scan.loops.len())));
                            edits.push((lp.0, lp.0, seq, format!("\n{}", s.text), json!({"kind": "loop", "label": format!("loop {}", n), "fn": id, "tags": stags})));
                            seq += 1;
                            if s.kv.contains_key("halfopen") {
                                let (ta, tb, ea, eb) = scan.incl_ranges.get(&n).unwrap_or_else(|| die(3, format!("lost-anchor: loop {} of {} is not a loop over an inclusive range", n, id)));
                                edits.push((*ta, *tb, seq, "..".to_string(), json!({"kind": "rewrite", "rule": "R15", "fn": id, "tags": body_tags})));
                                seq += 1;
                                edits.push((*ea, *eb, seq, format!("verif_incl_end({})", &src.text[*ea..*eb]), json!({"kind": "rewrite", "rule": "R15", "fn": id, "tags": body_tags})));
                                seq += 1;
                            }
                            if let Some(nm) = s.kv.get("iter") {
                                // R10 (ghost only): name the for loop's ghost iterator: `for P in E` -> `for P in <nm>: E`
                                let (xo, xe) = scan.for_exprs.get(&n).unwrap_or_else(|| die(3, format!("lost-anchor: loop {} of {} is not a for loop", n, id)));
                                if s.kv.contains_key("hoist") {
                                    // R10h: the iterated expression is evaluated once, before the loop, into a vector
                                    // (`let __itN = verif_hoist(E); for P in it: __itN`), so that the invariant can name its elements
                                    let etext = src.text[*xo..*xe].trim().to_string();
                                    // R14: `V.into_iter().rev()` (a vector consumed back to front) -> `verif_rev_vec(V)`
                                    let squeezed: String = etext.split_whitespace().collect();
                                    let hoisted = if squeezed.ends_with(".into_iter().rev()") {
                                        let base = &squeezed[..squeezed.len() - ".into_iter().rev()".len()];
                                        format!("verif_rev_vec({})", base)
                                    } else {
                                        format!("verif_hoist({})", etext)
                                    };
                                    edits.push((lp.2, lp.2, seq, format!("let __it{} = {}; let ghost __its{} = __it{}@;\n", n, hoisted, n, n), json!({"kind": "rewrite", "rule": "R10h", "fn": id, "tags": body_tags})));
                                    seq += 1;
                                    edits.push((*xo, *xe, seq, format!("{}: __it{} ", nm, n), json!({"kind": "rewrite", "rule": "R10h", "fn": id, "tags": body_tags})));
                                } else {
                                    edits.push((*xo, *xo, seq, format!("{}: ", nm), json!({"kind": "rewrite", "rule": "R10", "fn": id, "tags": body_tags})));
                                }
                                seq += 1;
                            }
                        }
                        "replace_text" => {
                            // R18 (opt-in): `//@replace_text` followed by two lines FROM and TO: the unique occurrence of the source text
                            // FROM (compared modulo whitespace) in the body is replaced by TO; the meaning of TO is a shim contract
                            let mut ls = s.text.lines().map(|x| x.trim()).filter(|x| !x.is_empty());
                            let from = ls.next().unwrap_or_else(|| die(4, format!("replace_text needs FROM and TO lines in {}", id))).to_string();
                            let to = ls.next().unwrap_or_else(|| die(4, format!("replace_text needs a TO line in {}", id))).to_string();
                            let want: String = from.split_whitespace().collect();
                            // scan the body for a span whose whitespace-free text equals `want`
                            let body = &src.text[bo..bc_end];
                            let chars: Vec<(usize, char)> = body.char_indices().filter(|(_, c)| !c.is_whitespace()).collect();
                            let flat: String = chars.iter().map(|(_, c)| *c).collect();
                            let hits: Vec<usize> = flat.match_indices(&want).map(|(i, _)| i).collect();
                            if hits.len() != 1 { die(3, format!("lost-anchor: text `{}` occurs {} times in {}", from, hits.len(), id)); }
                            let ci = flat[..hits[0]].chars().count();
                            let cn = want.chars().count();
                            let a0 = bo + chars[ci].0;
                            let b0 = bo + chars[ci + cn - 1].0 + chars[ci + cn - 1].1.len_utf8();
                            edits.push((a0, b0, seq, to, json!({"kind": "rewrite", "rule": "R18", "fn": id, "tags": body_tags})));
                            seq += 1;
                        }
                        "name_call" => {
                            // R21 (opt-in): `//@name_call METHOD K`: the K-th call `RECV.METHOD(.., CLOSURE)` becomes, in place, the block
                            // `{ let __cl = CLOSURE; let ghost __clg = __cl; let __t = RECV.METHOD(.., __cl); <ghost text> __t }`
                            // (names the inline closure and the result for the ghost code; the closure is created before the other
                            // arguments are evaluated, which is unobservable)
                            let m = s.args.get(0).cloned().unwrap_or_default();
                            let k: usize = s.args.get(1).and_then(|x| x.parse().ok()).unwrap_or(0);
                            let (cr, la, st) = scan.method_calls.get(&m).and_then(|v| v.get(k)).cloned().unwrap_or_else(|| die(3, format!("lost-anchor: call {} #{} not found in {}", m, k, id)));
                            let la = la.unwrap_or_else(|| die(3, format!("lost-anchor: call {} #{} has no argument in {}", m, k, id)));
                            let head = src.text[cr.0..la.0].to_string();
                            let _ = st;
                            // in place: `{ let __cl = <closure, with its own annotations>; let ghost __clg = __cl; let __t = HEAD __cl); <ghost> __t }`
                            edits.push((cr.0, la.0, seq, "{ let __cl = ".to_string(), json!({"kind": "rewrite", "rule": "R21", "fn": id, "tags": body_tags})));
                            seq += 1;
                            edits.push((la.1, cr.1, seq, format!("; let ghost __clg = __cl; let __t = {}__cl);\n{}\n __t }}", head, s.text), json!({"kind": "rewrite", "rule": "R21", "fn": id, "tags": body_tags})));
                            seq += 1;
                        }
                        "rename_call" => {
                            // R17 (opt-in): `//@rename_call FROM TO`: every method call `.FROM(..)` of the body is spelled `.TO(..)`
                            // (ndarray's `.view()` collides with the spec function `view` behind Verus' `@`)
                            let from = s.args.get(0).cloned().unwrap_or_default();
                            let to = s.args.get(1).cloned().unwrap_or_else(|| die(4, format!("rename_call needs two names in {}", id)));
                            for (a, b) in scan.method_idents.get(&from).cloned().unwrap_or_default() {
                                edits.push((a, b, seq, to.clone(), json!({"kind": "rewrite", "rule": "R17", "fn": id, "tags": body_tags})));
                                seq += 1;
                            }
                        }
                        "try_desugar" => {
                            // R23 (opt-in): `//@try_desugar N`: the N-th `EXPR?` (pre-order) is written out as the match that the language defines
                            // it to be for `Result`: `(match EXPR { Ok(__v) => __v, Err(__e) => return Err(From::from(__e)) })`.  Verus gives the
                            // conversion inside `?` no specification; written as a call, `From::from` carries the one of the local impl
                            let n: usize = s.args.get(0).and_then(|x| x.parse().ok()).unwrap_or_else(|| die(4, format!("bad try ordinal in {}", id)));
                            let (a, (qa, qb)) = scan.tries.get(n).cloned().unwrap_or_else(|| die(3, format!("lost-anchor: `?` #{} not found in {}", n, id)));
                            edits.push((a, a, 390_000, "(match ".to_string(), json!({"kind": "rewrite", "rule": "R23", "fn": id, "tags": body_tags})));
                            edits.push((qa, qb, seq, " { Ok(__v) => __v, Err(__e) => return Err(From::from(__e)) })".to_string(), json!({"kind": "rewrite", "rule": "R23", "fn": id, "tags": body_tags})));
                            seq += 1;
                        }
                        "binop" => {
                            // R16 (opt-in): `//@binop OP N FNAME`: the N-th binary expression `L OP R` of the body becomes `FNAME(L, R)`
                            // (operators on references to shim types trip an internal error of the installed Verus)
                            let op = s.args.get(0).cloned().unwrap_or_default();
                            let n: usize = s.args.get(1).and_then(|x| x.parse().ok()).unwrap_or_else(|| die(4, format!("bad binop ordinal in {}", id)));
                            let f = s.args.get(2).cloned().unwrap_or_else(|| die(4, format!("binop needs a function name in {}", id)));
                            // `lhs=TEXT`: the N-th one among those whose left operand reads TEXT
                            let cands: Vec<((usize, usize), (usize, usize))> = scan.binops.get(&op).map(|v| v.iter().filter(|(l, _)| match s.kv.get("lhs") { Some(t) => src.text[l.0..l.1].trim() == t, None => true }).cloned().collect()).unwrap_or_default();
                            let (l, r) = cands.get(n).cloned().unwrap_or_else(|| die(3, format!("lost-anchor: binary expression `{}` #{} not found in {}", op, n, id)));
                            let f = if op == "cmp" {
                                if s.kv.contains_key("lhs") { die(4, format!("binop cmp does not take lhs= in {}", id)); }
                                format!("{}_{}", f, scan.cmp_kinds[n])
                            } else { f };
                            // nested binary expressions can share their left edge (`a * a / m`): the prefix of the larger one goes first
                            edits.push((l.0, l.0, 400_000usize.saturating_sub(r.1 - l.0), format!("{}(", f), json!({"kind": "rewrite", "rule": "R16", "fn": id, "tags": body_tags})));
                            seq += 1;
                            edits.push((l.1, r.0, seq, ", ".to_string(), json!({"kind": "rewrite", "rule": "R16", "fn": id, "tags": body_tags})));
                            seq += 1;
                            edits.push((r.1, r.1, seq, ")".to_string(), json!({"kind": "rewrite", "rule": "R16", "fn": id, "tags": body_tags})));
                            seq += 1;
                        }
                        "closure" => {
                            // R9: the closure header (parameters) is replaced by an annotated header
                            // (types, named result, ensures); the closure body stays verbatim
                            let n: usize = s.args.get(0).and_then(|x| x.parse().ok()).unwrap_or_else(|| die(4, format!("bad closure ordinal in {}", id)));
                            let cl = scan.closures.get(n).unwrap_or_else(|| die(3, format!("lost-anchor: closure {} of {} not found ({} closures)", n, id, scan.closures.len())));
                            // first line: the annotated header; further lines (optional): bindings that re-create the
                            // names of destructuring parameter patterns (`|acc, (&d, &w)|` -> `|acc: A, p: (&A, &A)|` + `let d = *p.0; let w = *p.1;`)
                            let full = s.text.trim_end().to_string();
                            let (hdr, prefix) = match full.find('\n') { Some(i) => (full[..i].to_string(), full[i + 1..].to_string()), None => (full.clone(), String::new()) };
                            if cl.3 {
                                if !prefix.trim().is_empty() { die(4, format!("closure {} of {}: binding prefix needs an expression-bodied closure", n, id)); }
                                edits.push((cl.0, cl.1, seq, format!("{} ", hdr), json!({"kind": "closure", "label": format!("closure {}", n), "fn": id, "tags": stags})));
                            } else {
                                edits.push((cl.0, cl.1, seq, format!("{} {{ {} ", hdr, prefix.trim()), json!({"kind": "closure", "label": format!("closure {}", n), "fn": id, "tags": stags})));
                                seq += 1;
                                edits.push((cl.2, cl.2, seq, " }".to_string(), json!({"kind": "rewrite", "rule": "R9", "fn": id, "tags": body_tags})));
                            }
                            seq += 1;
                        }
                        "at" => {
                            let what = s.args.get(0).map(|x| x.as_str()).unwrap_or("");
                            let label = format!("at {}", s.args.join(" "));
                            let meta = json!({"kind": "ghost", "label": label, "fn": id, "tags": stags});
                            match what {
                                "entry" => { edits.push((bo + 1, bo + 1, seq, format!("\n{}", s.text), meta)); }
                                "after_let" => {
                                    let nm = s.args.get(1).unwrap_or_else(|| die(4, "after_let needs a name".into()));
                                    let occ: usize = s.args.get(2).and_then(|x| x.parse().ok()).unwrap_or(0);
                                    let st = scan.lets.get(nm).and_then(|v| v.get(occ)).unwrap_or_else(|| die(3, format!("lost-anchor: let {} #{} not found in {}", nm, occ, id)));
                                    edits.push((st.end, st.end, seq, format!("\n{}", s.text), meta));
                                }
                                "before_call" | "after_call" => {
                                    let nm = s.args.get(1).unwrap_or_else(|| die(4, "call anchor needs a name".into()));
                                    let occ: usize = s.args.get(2).and_then(|x| x.parse().ok()).unwrap_or(0);
                                    let st = scan.calls.get(nm).and_then(|v| v.get(occ)).unwrap_or_else(|| die(3, format!("lost-anchor: call {} #{} not found in {}", nm, occ, id)));
                                    if what == "before_call" {
                                        edits.push((st.start, st.start, seq, format!("{}\n", s.text), meta));
                                    } else if let Some((xa, xb)) = st.ret_expr {
                                        // R7 for `return EXPR;`: `let __r = EXPR; <ghost>; return __r;`
                                        edits.push((st.start, st.start, seq, "let __r = ".to_string(), json!({"kind": "rewrite", "rule": "R7", "fn": id, "tags": body_tags})));
                                        seq += 1;
                                        // drop the `return` keyword in front of EXPR, keep EXPR verbatim
                                        edits.push((st.start, xa, seq, String::new(), json!({"kind": "rewrite", "rule": "R7", "fn": id, "tags": body_tags})));
                                        seq += 1;
                                        edits.push((xb, st.end, seq, format!(";\n{}\nreturn __r;", s.text), meta));
                                    } else if st.is_tail_value {
                                        // R7
                                        edits.push((st.start, st.start, seq, "let __r = ".to_string(), json!({"kind": "rewrite", "rule": "R7", "fn": id, "tags": body_tags})));
                                        seq += 1;
                                        edits.push((st.end, st.end, seq, format!(";\n{}\n__r", s.text), meta));
                                    } else {
                                        edits.push((st.end, st.end, seq, format!("\n{}", s.text), meta));
                                    }
                                }
                                "arm_start" | "arm_end" => {
                                    let n: usize = s.args.get(1).and_then(|x| x.parse().ok()).unwrap_or_else(|| die(4, "arm anchor needs ordinal".into()));
                                    let f = scan.arms.get(n).unwrap_or_else(|| die(3, format!("lost-anchor: block-bodied match arm {} of {} not found", n, id)));
                                    let at = if what == "arm_start" { f.0 } else { f.1 };
                                    edits.push((at, at, seq, format!("\n{}\n", s.text), meta));
                                }
                                "then_start" | "then_end" => {
                                    let n: usize = s.args.get(1).and_then(|x| x.parse().ok()).unwrap_or_else(|| die(4, "if anchor needs ordinal".into()));
                                    let f = scan.ifs.get(n).unwrap_or_else(|| die(3, format!("lost-anchor: if {} of {} not found", n, id)));
                                    let at = if what == "then_start" { f.0 } else { f.1 };
                                    edits.push((at, at, seq, format!("\n{}\n", s.text), meta));
                                }
                                "loop_start" => {
                                    let n: usize = s.args.get(1).and_then(|x| x.parse().ok()).unwrap_or_else(|| die(4, "loop anchor needs ordinal".into()));
                                    let lp = scan.loops.get(n).unwrap_or_else(|| die(3, format!("lost-anchor: loop {} of {} not found", n, id)));
                                    if let Some(at) = scan.outer_fold_axis_start.get(&n) {
                                        // R19d outer loop: after the accumulator of the lane has been initialised, before the inner loop
                                        edits.push((*at, *at, seq, format!("\n{}\n", s.text), meta));
                                    } else if scan.expr_body_loops.contains(&n) {
                                        edits.push((lp.0, lp.0, seq + 2_000_000, format!("\n{}\n", s.text), meta));
                                    } else {
                                        edits.push((lp.0 + 1, lp.0 + 1, seq + 1000, format!("\n{}\n", s.text), meta));
                                    }
                                }
                                "loop_tail" if s.args.get(1).and_then(|x| x.parse::<usize>().ok()).map(|n| scan.outer_fold_axis.contains_key(&n)).unwrap_or(false) => {
                                    // R19d outer loop: after the result of the lane has been stored
                                    let n: usize = s.args[1].parse().unwrap();
                                    let at = scan.outer_fold_axis[&n];
                                    edits.push((at, at, seq + 2_000_000, format!("\n{}\n", s.text), meta));
                                }
                                "loop_tail" => {
                                    // R11c loops only: after the lanes have been put back, before the end of the iteration
                                    let n: usize = s.args.get(1).and_then(|x| x.parse().ok()).unwrap_or_else(|| die(4, "loop anchor needs ordinal".into()));
                                    let at = scan.lane_loops.get(&n).unwrap_or_else(|| die(3, format!("lost-anchor: loop {} of {} is not a lane loop", n, id)));
                                    edits.push((*at, *at, seq, format!("\n{}\n", s.text), meta));
                                }
                                "before_loop" | "after_loop" | "loop_end" => {
                                    let n: usize = s.args.get(1).and_then(|x| x.parse().ok()).unwrap_or_else(|| die(4, "loop anchor needs ordinal".into()));
                                    let lp = scan.loops.get(n).unwrap_or_else(|| die(3, format!("lost-anchor: loop {} of {} not found", n, id)));
                                    let at = match what { "before_loop" => lp.2, "after_loop" => lp.3, _ => lp.1 };
                                    let semi = if what == "loop_end" && scan.loop_tail_nosemi.contains(&n) { ";" } else { "" };
                                    if what == "after_loop" && scan.outer_fold_axis.contains_key(&n) {
                                        edits.push((lp.1, lp.1, seq + 4_000_000, format!("\n{}\n", s.text), meta));
                                    } else if what == "after_loop" && scan.fold_loops.contains(&n) {
                                        // R19: inside the generated block, after the loop and before the accumulator is returned
                                        edits.push((lp.1, lp.1, seq + 2_000_000, format!("\n{}\n", s.text), meta));
                                    } else {
                                        edits.push((at, at, seq, format!("{}\n{}\n", semi, s.text), meta));
                                    }
                                }
                                _ => die(4, format!("unknown anchor {} in {}", what, id)),
                            }
                            seq += 1;
                        }
                        _ => {}
                    }
                }
                if vacuity {
                    edits.push((bo + 1, bo + 1, seq, "\nproof { assert(false); } // VACUITY PROBE\n".to_string(), json!({"kind": "vacuity", "fn": id, "tags": ""})));
                }
                // zero-width insertions at an offset come before a replacement that starts there
                edits.sort_by(|x, y| (x.0, (x.1 > x.0) as u8, x.2).cmp(&(y.0, (y.1 > y.0) as u8, y.2)));
                // emit
                let sig = sig_sec.unwrap_or_else(|| die(4, format!("extract {} without //@sig", id)));
                let fn_out_start = ob.line;
                if stubbed {
                    ob.push("#[verifier::external_body] // STUBBED by the driver: body not verified in this run\n", json!({"kind": "stub", "fn": id, "tags": tags}));
                }
                ob.push(&sig.text, json!({"kind": "sig", "fn": id, "tags": tags}));
                for s in &spec_secs {
                    ob.push(&s.text, json!({"kind": "spec", "fn": id, "tags": s.tags.clone().unwrap_or(tags.clone())}));
                }
                if stubbed {
                    ob.push("{ unimplemented!() }\n", json!({"kind": "stub", "fn": id, "tags": tags}));
                    fns.push(json!({
                        "id": id, "fn": name, "verus_name": sig.text.split("fn ").nth(1).map(|r| r.chars().take_while(|c| c.is_alphanumeric() || *c == '_').collect::<String>()).unwrap_or(name.clone()),
                        "file": file, "tags": tags, "stubbed": true,
                        "src_line_start": src.line_of(sig_a), "src_line_end": src.line_of(bc_end), "source_sig": sig_text,
                        "body": &src.text[bo..bc_end], "out_start": fn_out_start, "out_end": ob.line, "loops": scan.loops.len(), "rewrites": Vec::<serde_json::Value>::new(),
                    }));
                    continue;
                }
                let mut pos = bo;
                for (a, b, _s, t, meta) in &edits {
                    if *a < pos || *b > bc_end {
                        die(3, format!("overlapping or out-of-body edit in {} at byte {}", id, a));
                    }
                    ob.push(&src.text[pos..*a], json!({"kind": "body", "fn": id, "tags": body_tags, "src_file": file, "src_line": src.line_of(pos)}));
                    ob.push(t, meta.clone());
                    pos = *b;
                }
                ob.push(&src.text[pos..bc_end], json!({"kind": "body", "fn": id, "tags": body_tags, "src_file": file, "src_line": src.line_of(pos)}));
                ob.push("\n", json!({"kind": "sep"}));
                let _ = bc;
                // the function's name on the Verus side (R1 may rename it)
                let verus_name = sig.text.split("fn ").nth(1).map(|r| r.chars().take_while(|c| c.is_alphanumeric() || *c == '_').collect::<String>()).unwrap_or(name.clone());
                fns.push(json!({
                    "id": id, "fn": name, "verus_name": verus_name, "file": file, "tags": tags,
                    "src_line_start": src.line_of(sig_a), "src_line_end": src.line_of(bc_end),
                    "source_sig": sig_text,
                    "body": &src.text[bo..bc_end],
                    "out_start": fn_out_start, "out_end": ob.line,
                    "loops": scan.loops.len(),
                    // loops / closures of the body that the template has no contract section for (a loop without an invariant
                    // or a closure without a contract cannot carry a proof: "needs contract", never a violation)
                    "unannotated_loops": scan.loops.len() as i64 - r.sections.iter().filter(|s| s.kind == "loop").map(|s| s.args.get(0).cloned().unwrap_or_default()).collect::<std::collections::BTreeSet<_>>().len() as i64,
                    "unannotated_closures": scan.closures.len() as i64 - r.sections.iter().filter(|s| s.kind == "closure").map(|s| s.args.get(0).cloned().unwrap_or_default()).collect::<std::collections::BTreeSet<_>>().len() as i64,
                    "inlined": inlined,
                    "rewrites": scan.rewrites.iter().map(|(a, _b, t, rule)| json!({"rule": rule, "src_line": src.line_of(*a), "to": t}))
                        .chain(edits.iter().filter(|e| e.4["kind"] == "rewrite" && e.4.get("src_line").is_none()).map(|e| json!({"rule": e.4["rule"], "src_line": src.line_of(e.0), "to": e.3})))
                        .collect::<Vec<_>>(),
                }));
            }
        }
    }
    fs::write(&out, &ob.text).unwrap_or_else(|e| die(4, format!("cannot write {}: {}", out.display(), e)));
    let m = json!({"template": template.display().to_string(), "mode": mode, "vacuity": vacuity, "functions": fns, "pieces": ob.map});
    fs::write(&mapf, serde_json::to_string_pretty(&m).unwrap()).unwrap_or_else(|e| die(4, format!("cannot write map: {}", e)));
}
