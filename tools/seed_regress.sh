#!/bin/sh
# every stored seeded change must still be reported (exit 1) by the check of the property it breaks
cd /verif; bad=0
for d in seeded/*/; do
  [ -f $d/meta.json ] || continue
  p=$(python3 -c "import json;print(json.load(open('$d/meta.json'))['breaks_property'])")
  out=$(tools/try_mutant.sh /verif/$d/patch.diff $p 2>&1 | grep "^==")
  echo "$(basename $d): $out"
  echo "$out" | grep -q "exit=1" || bad=1
done
[ $bad = 0 ] && echo "seed-regression: all seeds reported" || echo "seed-regression: MISSED SEED(S)"
exit $bad
