#!/bin/sh
# usage: tools/confirm_seed.sh <worktree dir>    confirms a seeded change in a scratch worktree, driven by
# the saved patch (mutation.diff), without git stash (the stash is shared between worktrees):
#  1. the whole existing suite passes with the change (demo moved aside)
#  2. the demo fails with the change   3. the demo passes without it
W=$1
cd $W || exit 3
export CARGO_NET_OFFLINE=true
[ -s mutation.diff ] || { echo "$(basename $W): NO PATCH"; exit 3; }
git checkout -q -- src && git apply mutation.diff || { echo "$(basename $W): PATCH DOES NOT APPLY"; exit 3; }
mv tests/seeded_demo.rs /tmp/$(basename $W)_demo.rs
cargo test --workspace --offline --no-fail-fast > suite.log 2>&1; S=$?
mv /tmp/$(basename $W)_demo.rs tests/seeded_demo.rs
cargo test --offline --test seeded_demo > demo_with.log 2>&1; D1=$?
git checkout -q -- src
cargo test --offline --test seeded_demo > demo_without.log 2>&1; D2=$?
git apply mutation.diff
echo "$(basename $W): suite_with_change_exit=$S demo_with_change_exit=$D1 demo_without_change_exit=$D2  ($(grep -c '^test result: ok' suite.log) ok result lines, $(grep -c 'FAILED' suite.log) FAILED)"
rm -rf target
