#!/bin/sh
# usage: tools/try_patch.sh <patch.diff> <prop>...   applies the patch to /repo, runs the checks in a private
# build / evidence directory (so that it can run next to other checks), reverts.
P=$1; shift
export VERIF_BUILD=/tmp/vbuild_side VERIF_EVIDENCE_DIR=/tmp/vbuild_side/evidence VERIF_REPLAY_OUT=/tmp/vbuild_side/replay_out
mkdir -p $VERIF_BUILD
git -C /repo apply "$P" || { echo "patch does not apply"; exit 3; }
for c in "$@"; do
  /verif/check $c > /tmp/side_$c.out 2>&1; rc=$?
  echo "== $c exit=$rc $(grep -E '^(VIOLATION|INCONCLUSIVE|OK)' /tmp/side_$c.out | head -1 | cut -c1-230)"; grep -E "^failed obligation" /tmp/side_$c.out | cut -c1-230 | head -3
done
git -C /repo checkout -- .
