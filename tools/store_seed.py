#!/usr/bin/env python3
"""tools/store_seed.py <worktree> <seed-name> <property> "<needs>" [extra props...]
stores a confirmed seeded change under /verif/seeded/<seed-name>/ and runs the checks against it"""
import json, os, shutil, subprocess, sys
wt, name, prop, needs = sys.argv[1:5]
extra = sys.argv[5:]
d = os.path.join("/verif/seeded", name)
os.makedirs(d, exist_ok=True)
shutil.copy(os.path.join(wt, "mutation.diff"), os.path.join(d, "patch.diff"))
shutil.copy(os.path.join(wt, "tests/seeded_demo.rs"), os.path.join(d, "seeded_demo.rs"))
conf = "".join(open(f).read() for f in ["/tmp/wt/confirm1.log", "/tmp/wt/confirm2.log", "/tmp/wt/confirm3.log"] if os.path.exists(f))
line = [l for l in conf.splitlines() if l.startswith(os.path.basename(wt) + ":")]
res = {}
save = "/tmp/evidence.save"
shutil.rmtree(save, ignore_errors=True); shutil.copytree("/verif/evidence", save)
subprocess.check_call(["git", "-C", "/repo", "apply", os.path.join(d, "patch.diff")])
try:
    for p in [prop] + extra:
        r = subprocess.run(["/verif/check", p], stdout=subprocess.PIPE, stderr=subprocess.STDOUT)
        out = r.stdout.decode()
        key = [l for l in out.splitlines() if l.startswith(("VIOLATION", "INCONCLUSIVE", "OK"))]
        obl = [l for l in out.splitlines() if l.startswith("failed obligation")][:3]
        res[p] = {"exit": r.returncode, "verdict": (key[0] if key else "")[:300], "failed_obligations": [o[:300] for o in obl]}
        print(p, r.returncode, (key[0] if key else "")[:200]); [print("   ", o[:220]) for o in obl]
finally:
    subprocess.check_call(["git", "-C", "/repo", "checkout", "--", "."])
    shutil.rmtree("/verif/evidence"); shutil.move(save, "/verif/evidence")
meta = {"seed": name, "breaks_property": prop, "needs_to_manifest": needs,
        "confirmed": {"how": "tools/confirm_seed.sh in a scratch worktree: whole existing suite with the change, demo with the change, demo without it", "result": line[0] if line else ""},
        "apply": "git -C /repo apply /verif/seeded/%s/patch.diff ; undo: git -C /repo checkout -- ." % name,
        "demo": "copy seeded_demo.rs to <worktree>/tests/ and run cargo test --offline --test seeded_demo",
        "checks_run_against_it": res}
json.dump(meta, open(os.path.join(d, "meta.json"), "w"), indent=1)
