#!/bin/sh
# run every claimed check (quick tier unless $1 = thorough) on the current tree; summary on stdout
T=${1:-quick}
cd /verif
for c in $(python3 -c "import json;print(' '.join(x['property_id'] for x in json.load(open('MANIFEST.json'))['checks']))"); do
  ./check $c --tier $T > /tmp/run_$c.out 2>&1; rc=$?
  echo "$c exit=$rc $(grep -E '^(OK|VIOLATION|INCONCLUSIVE)' /tmp/run_$c.out | head -1 | cut -c1-200)"
  grep -E '^KNOWN-FINDING' /tmp/run_$c.out | cut -c1-160
done
python3-vt - <<'PY'
import json,jsonschema,glob
s=json.load(open('/root/.vp/EVIDENCE.schema.json'))
for f in sorted(glob.glob('/verif/evidence/*.json')):
    e=json.load(open(f))
    try:
        jsonschema.validate(e,s)
        c=e['coverage']
        ok = e['level']!='proof' or c['obligations']==c['discharged']
        print(f.split('/')[-1], 'valid' if ok else 'DISCHARGED!=OBLIGATIONS')
    except Exception as ex:
        print(f, 'INVALID', str(ex)[:200])
PY
python3 /verif/tools/design_table.py >/dev/null 2>&1 || true
