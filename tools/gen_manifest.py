#!/usr/bin/env python3
"""regenerate MANIFEST.json from lib/config.py (PROPS, NOT_APPLICABLE)"""
import json, os, sys
V = os.path.dirname(os.path.dirname(os.path.abspath(__file__)))
sys.path.insert(0, os.path.join(V, "lib"))
import config
props = [json.loads(l) for l in open(os.path.join(V, "properties.jsonl"))]
checks = []
for p in props:
    pid = p["id"]
    if pid not in config.PROPS:
        continue
    P = config.PROPS[pid]
    checks.append({
        "property_id": pid,
        "quick_cmd": "./check %s --tier quick" % pid,
        "thorough_cmd": "./check %s --tier thorough" % pid,
        "evidence_file": "/verif/evidence/%s.json" % pid,
        "replay_cmd_template": "./check %s --replay {path}" % pid,
        "engine": P.get("engine", "verus+replay"),
        "level_claimed": {"category": P["level"] if P["level"] in ("proof", "exploration", "other", "model_checking") else "other",
                          "text": P["level_text"], "design_ref": P.get("design_ref", "DESIGN.md section 4")},
        "level_note": P["level_note"],
        "technique": P["technique"],
    })
na = [{"property_id": k, "reason": v} for k, v in config.NOT_APPLICABLE.items()]
for p in props:
    if p["id"] not in config.PROPS and p["id"] not in config.NOT_APPLICABLE:
        na.append({"property_id": p["id"], "reason": "check not built yet (work in progress; see DESIGN.md)"})
m = {
    "version": 1,
    "setup_cmd": "cd /verif && ./tools/setup.sh",
    "hooks": {
        "guard": "rust_ndarray_ndarray_stats_verif",
        "enable": "RUSTFLAGS='--cfg rust_ndarray_ndarray_stats_verif' (replay/ and kani/ crates path-depend on /repo; Verus reads the source text and needs no hook)",
        "baseline_off_cmd": "cd /repo && cargo test --workspace --no-fail-fast --offline",
        "source_commits": config.HOOK_COMMITS,
        "add_only": True,
    },
    "engines": config.ENGINES,
    "checks": checks,
    "notes": config.NOTES,
    "not_applicable": na,
}
json.dump(m, open(os.path.join(V, "MANIFEST.json"), "w"), indent=1)
print("MANIFEST.json: %d checks, %d not applicable" % (len(checks), len(na)))
