#!/bin/sh
# no check may raise an alarm (exit 1) on a behaviour-preserving refactoring
cd /verif; bad=0
for p in seeded/harmless/*.diff; do
  case $(basename $p) in H17*) props="C10 C08 C07 C06 C17 C18";; H16*) props="C13 C11 C12 C16";; H15*) props="C15 C02 C03 C16 C01 C19";; H14*) props="C12 C17 C09";; H13*) props="C12 C17";; H12*) props="C09 C17 C14 C07 C06";; H11*) props="C14 C20";; H10*) props="C14 C01 C06 C13";; H1_*) props="C15 C02 C03 C16 C18";; H2*) props="C04 C13 C16 C11";; H3*) props="C12 C05 C17";; H4*) props="C09 C06 C17";; H5*) props="C11 C05 C02 C16";; H6*) props="C07 C18 C17";; H7*) props="C10 C08 C17 C20";; H8*) props="C01 C17 C14 C03";; H9*) props="C11 C13";; esac
  out=$(tools/try_mutant.sh /verif/$p $props 2>&1 | grep "^==")
  echo "$(basename $p): $(echo $out | tr '\n' ' ')"
  echo "$out" | grep -q "exit=1" && bad=1
done
[ $bad = 0 ] && echo "harmless-regression: no alarm" || echo "harmless-regression: FALSE ALARM(S)"
exit $bad
