#!/bin/sh
# offline setup: build the extractor and the replay crate (against /repo, hooks on; two profiles)
set -e
export CARGO_NET_OFFLINE=true
cd /verif/tools/extract && cargo build --release --offline
mkdir -p /verif/build
cd /verif/replay
RUSTFLAGS="--cfg rust_ndarray_ndarray_stats_verif" CARGO_TARGET_DIR=/verif/build/replay-target cargo build --release --offline
RUSTFLAGS="--cfg rust_ndarray_ndarray_stats_verif" CARGO_TARGET_DIR=/verif/build/replay-target cargo build --profile relfast --offline
echo setup-ok
