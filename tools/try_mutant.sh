#!/bin/sh
# usage: tools/try_mutant.sh <patch.diff> <prop>...   applies the patch to /repo, runs the checks, reverts.
# The evidence directory is saved and restored: evidence of a mutated tree must never be committed.
P=$1; shift
rm -rf /tmp/evidence.save && cp -r /verif/evidence /tmp/evidence.save
git -C /repo apply "$P" || { echo "patch does not apply"; exit 3; }
for c in "$@"; do
  /verif/check $c > /tmp/mut_$c.out 2>&1; rc=$?
  echo "== $c exit=$rc"; grep -E "^(VIOLATION|INCONCLUSIVE|KNOWN|OK|failed obligation)" /tmp/mut_$c.out | cut -c1-260 | head -6
done
git -C /repo checkout -- .
rm -rf /verif/evidence && mv /tmp/evidence.save /verif/evidence
