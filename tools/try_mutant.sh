#!/bin/sh
# usage: tools/try_mutant.sh <patch.diff> <prop>...   applies the patch to /repo, runs the checks, reverts
P=$1; shift
git -C /repo apply "$P" || { echo "patch does not apply"; exit 3; }
for c in "$@"; do
  /verif/check $c > /tmp/mut_$c.out 2>&1; rc=$?
  echo "== $c exit=$rc"; grep -E "^(VIOLATION|INCONCLUSIVE|KNOWN|OK|failed obligation)" /tmp/mut_$c.out | head -6
done
git -C /repo checkout -- .
