// ---- shim for the skip-NaN folds of src/maybe_nan/mod.rs --------------------------------------------------------------
// MaybeNan: a value is either missing (NaN / None) or carries a not-NaN value
pub trait MaybeNan: Sized {
    type NotNan;
    spec fn is_nan_spec(&self) -> bool;
    spec fn not_nan_spec(&self) -> Self::NotNan;
    fn is_nan(&self) -> (b: bool) ensures b == self.is_nan_spec();
    // None exactly for a missing value, otherwise a reference to the not-NaN value it carries
    fn try_as_not_nan(&self) -> (r: Option<&Self::NotNan>)
        ensures self.is_nan_spec() <==> r is None, r matches Some(x) ==> *x == self.not_nan_spec();
}

// R19: the items a fold / for_each visits.  ndarray's `fold` / `for_each` on an array: every element exactly once, in an
// unspecified order; `Iterator::fold` on the vector-modelled `indexed_iter()`: in order
pub trait FoldItems { type Item; spec fn fold_items_ok(self, r: Seq<Self::Item>) -> bool; }
impl<'a, A, D: Dimension> FoldItems for &'a ArrayN<A, D> {
    type Item = &'a A;
    open spec fn fold_items_ok(self, r: Seq<&'a A>) -> bool {
        exists|ord: Seq<int>| is_visit_order(ord, self@.len() as int) && no_repeats(ord) && r.len() == self@.len() && forall|k: int| 0 <= k < r.len() ==> *(#[trigger] r[k]) == self@[ord[k]]
    }
}
impl<T> FoldItems for Vec<T> {
    type Item = T;
    open spec fn fold_items_ok(self, r: Seq<T>) -> bool { r == self@ }
}
pub open spec fn no_repeats(ord: Seq<int>) -> bool { forall|a: int, b: int| 0 <= a < b < ord.len() ==> ord[a] != ord[b] }
#[verifier::external_body]
pub fn verif_fold_items<X: FoldItems>(x: X) -> (r: Vec<X::Item>)
    ensures x.fold_items_ok(r@)
{ unimplemented!() }

// one step of a skip-NaN fold: a missing element leaves the accumulator alone, any other is handed to f
pub open spec fn skip_step<'a, A: MaybeNan, B, F: FnMut(B, &'a A::NotNan) -> B>(f: F, acc: B, e: A, out: B) -> bool where A::NotNan: 'a {
    if e.is_nan_spec() { out == acc } else { exists|x: &'a A::NotNan| *x == e.not_nan_spec() && call_ensures(f, (acc, x), out) }
}
pub open spec fn skip_step_idx<'a, A: MaybeNan, P, B, F: FnMut(B, (P, &'a A::NotNan)) -> B>(f: F, acc: B, p: P, e: A, out: B) -> bool where A::NotNan: 'a {
    if e.is_nan_spec() { out == acc } else { exists|x: &'a A::NotNan| *x == e.not_nan_spec() && call_ensures(f, (acc, (p, x)), out) }
}
pub open spec fn visit_step<'a, A: MaybeNan, F: FnMut(&'a A::NotNan)>(f: F, e: A) -> bool where A::NotNan: 'a {
    e.is_nan_spec() || exists|x: &'a A::NotNan| *x == e.not_nan_spec() && call_ensures(f, (x,), ())
}
