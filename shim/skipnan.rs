// ---- shim for the skip-NaN folds of src/maybe_nan/mod.rs --------------------------------------------------------------
// MaybeNan: a value is either missing (NaN / None) or carries a not-NaN value
pub trait MaybeNan: Sized {
    type NotNan;
    spec fn is_nan_spec(&self) -> bool;
    spec fn not_nan_spec(&self) -> Self::NotNan;
    fn is_nan(&self) -> (b: bool) ensures b == self.is_nan_spec();
    // None exactly for a missing value, otherwise a reference to the not-NaN value it carries
    fn try_as_not_nan(&self) -> (r: Option<&Self::NotNan>)
        ensures self.is_nan_spec() <==> r is None, r matches Some(x) ==> *x == self.not_nan_spec();
    // a reference to the missing value for None, otherwise to the value that carries the given not-NaN value
    fn from_not_nan_ref_opt(v: Option<&Self::NotNan>) -> (r: &Self)
        ensures v is None ==> r.is_nan_spec(), v matches Some(x) ==> !r.is_nan_spec() && r.not_nan_spec() == *x;
}

// R19: the items a fold / for_each visits.  ndarray's `fold` / `for_each` on an array: every element exactly once, in an
// unspecified order; `Iterator::fold` on the vector-modelled `indexed_iter()`: in order
pub trait FoldItems { type Item; spec fn fold_items_ok(self, r: Seq<Self::Item>) -> bool; }
impl<'a, A, D: Dimension> FoldItems for &'a ArrayN<A, D> {
    type Item = &'a A;
    open spec fn fold_items_ok(self, r: Seq<&'a A>) -> bool {
        exists|ord: Seq<int>| is_visit_order(ord, self@.len() as int) && no_repeats(ord) && r.len() == self@.len() && forall|k: int| 0 <= k < r.len() ==> *(#[trigger] r[k]) == self@[ord[k]]
    }
}
impl<T> FoldItems for Vec<T> {
    type Item = T;
    open spec fn fold_items_ok(self, r: Seq<T>) -> bool { r == self@ }
}
pub open spec fn no_repeats(ord: Seq<int>) -> bool { forall|a: int, b: int| 0 <= a < b < ord.len() ==> ord[a] != ord[b] }
#[verifier::external_body]
pub fn verif_fold_items<X: FoldItems>(x: X) -> (r: Vec<X::Item>)
    ensures x.fold_items_ok(r@)
{ unimplemented!() }

// one step of a skip-NaN fold: a missing element leaves the accumulator alone, any other is handed to f
pub open spec fn skip_step<'a, A: MaybeNan, B, F: FnMut(B, &'a A::NotNan) -> B>(f: F, acc: B, e: A, out: B) -> bool where A::NotNan: 'a {
    if e.is_nan_spec() { out == acc } else { exists|x: &'a A::NotNan| *x == e.not_nan_spec() && call_ensures(f, (acc, x), out) }
}
pub open spec fn skip_step_idx<'a, A: MaybeNan, P, B, F: FnMut(B, (P, &'a A::NotNan)) -> B>(f: F, acc: B, p: P, e: A, out: B) -> bool where A::NotNan: 'a {
    if e.is_nan_spec() { out == acc } else { exists|x: &'a A::NotNan| *x == e.not_nan_spec() && call_ensures(f, (acc, (p, x)), out) }
}
pub open spec fn visit_step<'a, A: MaybeNan, F: FnMut(&'a A::NotNan)>(f: F, e: A) -> bool where A::NotNan: 'a {
    e.is_nan_spec() || exists|x: &'a A::NotNan| *x == e.not_nan_spec() && call_ensures(f, (x,), ())
}

// R17: `a.min(b)` / `a.max(b)` on references (std: the first argument when equal for min, the second for max) - A-STD
pub trait VerifMinMax: Sized { spec fn min_spec(self, o: Self) -> Self; spec fn max_spec(self, o: Self) -> Self;
    fn verif_min(self, o: Self) -> (r: Self) ensures r == self.min_spec(o);
    fn verif_max(self, o: Self) -> (r: Self) ensures r == self.max_spec(o); }
impl<'a, T: Ord> VerifMinMax for &'a T {
    open spec fn min_spec(self, o: Self) -> Self { if (*self).cmp_spec(o) == Ordering::Greater { o } else { self } }
    open spec fn max_spec(self, o: Self) -> Self { if (*self).cmp_spec(o) == Ordering::Greater { self } else { o } }
    #[verifier::external_body]
    fn verif_min(self, o: Self) -> (r: Self) { unimplemented!() }
    #[verifier::external_body]
    fn verif_max(self, o: Self) -> (r: Self) { unimplemented!() }
}
// the running minimum (d = false) / maximum (d = true) over the not-NaN values seen so far
pub open spec fn ext_val<T: Ord>(d: bool, acc: Option<T>, x: T) -> T {
    match acc { Some(a) => if d { if a.cmp_spec(&x) == Ordering::Greater { a } else { x } } else { if a.cmp_spec(&x) == Ordering::Greater { x } else { a } }, None => x }
}
pub open spec fn dle<T: Ord>(d: bool, a: T, b: T) -> bool { if d { le(b, a) } else { le(a, b) } }
// `x` is an acceptable new extremum of the accumulator `acc` and the element `e`: one of the two, chosen by a comparison of
// the two (either way round, either tie rule) - stated with raw comparison results so that no order law is needed to check it
pub open spec fn gt<T: Ord>(a: T, b: T) -> bool { a.cmp_spec(&b) == Ordering::Greater }
pub open spec fn ext_rel<T: Ord>(d: bool, acc: Option<T>, e: T, x: T) -> bool {
    match acc {
        None => x == e,
        Some(a) => if d { (x == a && (!gt(e, a) || gt(a, e))) || (x == e && (!gt(a, e) || gt(e, a))) }
                   else { (x == a && (!gt(a, e) || gt(e, a))) || (x == e && (!gt(e, a) || gt(a, e))) },
    }
}
pub open spec fn opt_val<'a, T>(o: Option<&'a T>) -> Option<T> { match o { Some(x) => Some(*x), None => None } }
// induction over the trace of a skip-NaN fold whose step keeps the extremum
pub proof fn lemma_ext_trace<A: MaybeNan>(d: bool, items: Seq<A>, accs: Seq<Option<A::NotNan>>, k: int)
    where A::NotNan: Ord
    requires lawful_ord::<A::NotNan>(), 0 <= k <= items.len(), accs.len() == items.len() + 1,
        forall|j: int| 0 <= j < items.len() ==> (if items[j].is_nan_spec() { #[trigger] accs[j + 1] == accs[j] } else { accs[j + 1] is Some && ext_rel(d, accs[j], items[j].not_nan_spec(), accs[j + 1]->Some_0) }),
    ensures
        accs[k] is None <==> (accs[0] is None && forall|j: int| 0 <= j < k ==> (#[trigger] items[j]).is_nan_spec()),
        accs[k] matches Some(m) ==> ((accs[0] == Some(m)) || exists|j: int| 0 <= j < k && !(#[trigger] items[j]).is_nan_spec() && items[j].not_nan_spec() == m),
        accs[k] matches Some(m) ==> (accs[0] matches Some(f) ==> dle(d, m, f)) && forall|j: int| 0 <= j < k && !(#[trigger] items[j]).is_nan_spec() ==> dle(d, m, items[j].not_nan_spec()),
    decreases k
{
    reveal(lawful_ord);
    if k > 0 {
        lemma_ext_trace::<A>(d, items, accs, k - 1);
        assert(if items[k - 1].is_nan_spec() { accs[(k - 1) + 1] == accs[k - 1] } else { accs[(k - 1) + 1] is Some && ext_rel(d, accs[k - 1], items[k - 1].not_nan_spec(), accs[(k - 1) + 1]->Some_0) });
        let e = items[k - 1];
        if !e.is_nan_spec() {
            let x = e.not_nan_spec();
            assert(le(x, x));
            if let Some(m0) = accs[k - 1] {
                let m1 = accs[k]->Some_0;
                assert(le(m0, m0));
                // the new extremum is one of the two and bounds both (order laws: a > b implies b < a)
                assert(m1 == m0 || m1 == x);
                assert(dle(d, m1, m0) && dle(d, m1, x));
                assert forall|j: int| 0 <= j < k - 1 && !(#[trigger] items[j]).is_nan_spec() implies dle(d, m1, items[j].not_nan_spec()) by {
                    let y = items[j].not_nan_spec();
                    assert(dle(d, m0, y));
                    if d { assert(le(y, m0) && le(m0, m1)); } else { assert(le(m1, m0) && le(m0, y)); }
                }
                if let Some(f) = accs[0] {
                    assert(dle(d, m0, f));
                    if d { assert(le(f, m0) && le(m0, m1)); } else { assert(le(m1, m0) && le(m0, f)); }
                }
            }
        }
    }
}

// the postcondition of fold_skipnan as a named predicate (so that it can trigger lemmas about a fold whose closure and
// result are not named in the source)
pub open spec fn skipnan_trace<'a, A: MaybeNan, D: Dimension, B, F: FnMut(B, &'a A::NotNan) -> B>(arr: &'a ArrayN<A, D>, f: F, init: B, r: B) -> bool where A::NotNan: 'a {
    exists|items: Seq<&'a A>, accs: Seq<B>| #![auto] arr.fold_items_ok(items) && accs.len() == items.len() + 1 && accs[0] == init && accs[items.len() as int] == r
        && forall|k: int| 0 <= k < items.len() ==> skip_step::<A, B, F>(f, accs[k], *items[k], accs[k + 1])
}
// the closure keeps the running minimum (d = false) / maximum (d = true)
pub open spec fn closure_is_ext<'a, T: Ord + 'a, F: FnMut(Option<&'a T>, &'a T) -> Option<&'a T>>(f: F, d: bool) -> bool {
    forall|acc: Option<&'a T>, x: &'a T, out: Option<&'a T>| #[trigger] call_ensures(f, (acc, x), out) ==> (out matches Some(y) && ext_rel(d, opt_val(acc), *x, *y))
}
// what min_skipnan / max_skipnan must return, before the conversion back to `&A`
pub open spec fn ext_result<A: MaybeNan>(d: bool, s: Seq<A>, r: Option<A::NotNan>) -> bool where A::NotNan: Ord {
    &&& (forall|k: int| 0 <= k < s.len() ==> (#[trigger] s[k]).is_nan_spec()) ==> r is None
    &&& (exists|k: int| 0 <= k < s.len() && !(#[trigger] s[k]).is_nan_spec()) ==> (r matches Some(m)
            && (exists|k: int| 0 <= k < s.len() && !(#[trigger] s[k]).is_nan_spec() && s[k].not_nan_spec() == m)
            && forall|k: int| 0 <= k < s.len() && !(#[trigger] s[k]).is_nan_spec() ==> dle(d, m, s[k].not_nan_spec()))
}
pub open spec fn occurs_in<T>(s: Seq<T>, x: T) -> bool { exists|k: int| 0 <= k < s.len() && #[trigger] s[k] == x }
pub proof fn lemma_ext_from_trace<'a, A: MaybeNan, D: Dimension, F: FnMut(Option<&'a A::NotNan>, &'a A::NotNan) -> Option<&'a A::NotNan>>(d: bool, arr: &'a ArrayN<A, D>, f: F, init: Option<&'a A::NotNan>, r: Option<&'a A::NotNan>)
    where A::NotNan: Ord + 'a
    requires
        lawful_ord::<A::NotNan>(), skipnan_trace(arr, f, init, r), closure_is_ext(f, d),
        // the initial accumulator is None, or the not-NaN value of some element
        init matches Some(x) ==> exists|e: int| 0 <= e < arr@.len() && !(#[trigger] arr@[e]).is_nan_spec() && arr@[e].not_nan_spec() == *x,
    ensures ext_result::<A>(d, arr@, opt_val(r))
{
    let (items, accs) = choose|items: Seq<&'a A>, accs: Seq<Option<&'a A::NotNan>>| #![auto] arr.fold_items_ok(items) && accs.len() == items.len() + 1 && accs[0] == init && accs[items.len() as int] == r
        && forall|k: int| 0 <= k < items.len() ==> skip_step::<A, Option<&'a A::NotNan>, F>(f, accs[k], *items[k], accs[k + 1]);
    let n = items.len() as int;
    let its = Seq::new(items.len(), |k: int| *items[k]);
    let acv = Seq::new(accs.len(), |k: int| opt_val(accs[k]));
    assert forall|j: int| 0 <= j < n implies (if its[j].is_nan_spec() { #[trigger] acv[j + 1] == acv[j] } else { acv[j + 1] is Some && ext_rel(d, acv[j], its[j].not_nan_spec(), acv[j + 1]->Some_0) }) by {
        assert(skip_step::<A, Option<&'a A::NotNan>, F>(f, accs[j], *items[j], accs[j + 1]));
    }
    lemma_ext_trace::<A>(d, its, acv, n);
    let ord = choose|ord: Seq<int>| is_visit_order(ord, arr@.len() as int) && no_repeats(ord) && items.len() == arr@.len() && forall|k: int| 0 <= k < items.len() ==> *(#[trigger] items[k]) == arr@[ord[k]];
    assert forall|e: int| 0 <= e < arr@.len() implies #[trigger] occurs_in(its, arr@[e]) by {
        assert(ord.contains(e));
        let k = choose|k: int| 0 <= k < ord.len() && ord[k] == e;
        assert(its[k] == arr@[ord[k]]);
    }
    assert forall|k: int| 0 <= k < n implies #[trigger] occurs_in(arr@, its[k]) by { assert(its[k] == arr@[ord[k]]); }
    let s = arr@;
    let rv = opt_val(r);
    assert(acv[n] == rv && acv[0] == opt_val(init));
    if forall|k: int| 0 <= k < s.len() ==> (#[trigger] s[k]).is_nan_spec() {
        // nothing present: the initial accumulator is None and every visited item is missing
        assert forall|j: int| 0 <= j < n implies (#[trigger] its[j]).is_nan_spec() by {
            assert(occurs_in(s, its[j]));
            let e = choose|e: int| 0 <= e < s.len() && #[trigger] s[e] == its[j];
        }
        assert(rv is None);
    }
    if exists|k: int| 0 <= k < s.len() && !(#[trigger] s[k]).is_nan_spec() {
        let k0 = choose|k: int| 0 <= k < s.len() && !(#[trigger] s[k]).is_nan_spec();
        assert(occurs_in(its, s[k0]));
        let j0 = choose|j: int| 0 <= j < its.len() && #[trigger] its[j] == s[k0];
        assert(!its[j0].is_nan_spec());
        assert(rv is Some);
        let m = rv->Some_0;
        // m is the value of an element
        if acv[0] == Some(m) {
            assert(exists|e: int| 0 <= e < s.len() && !(#[trigger] s[e]).is_nan_spec() && s[e].not_nan_spec() == m);
        } else {
            let j = choose|j: int| 0 <= j < n && !(#[trigger] its[j]).is_nan_spec() && its[j].not_nan_spec() == m;
            assert(occurs_in(s, its[j]));
            let e = choose|e: int| 0 <= e < s.len() && #[trigger] s[e] == its[j];
            assert(!s[e].is_nan_spec() && s[e].not_nan_spec() == m);
        }
        assert forall|k: int| 0 <= k < s.len() && !(#[trigger] s[k]).is_nan_spec() implies dle(d, m, s[k].not_nan_spec()) by {
            assert(occurs_in(its, s[k]));
            let j = choose|j: int| 0 <= j < its.len() && #[trigger] its[j] == s[k];
            assert(!its[j].is_nan_spec());
        }
    }
}

// R16: `a <= b`, `a < b`, `a >= b`, `a > b` on references to an `Ord` type (std derives them from `cmp` for a lawful order - A-ORD)
#[verifier::external_body]
pub fn verif_ref_le<T: Ord>(a: &T, b: &T) -> (r: bool)
    ensures r == ((*a).cmp_spec(b) != Ordering::Greater)
{ unimplemented!() }
#[verifier::external_body]
pub fn verif_ref_lt<T: Ord>(a: &T, b: &T) -> (r: bool)
    ensures r == ((*a).cmp_spec(b) == Ordering::Less)
{ unimplemented!() }
#[verifier::external_body]
pub fn verif_ref_ge<T: Ord>(a: &T, b: &T) -> (r: bool)
    ensures r == ((*a).cmp_spec(b) != Ordering::Less)
{ unimplemented!() }
#[verifier::external_body]
pub fn verif_ref_gt<T: Ord>(a: &T, b: &T) -> (r: bool)
    ensures r == ((*a).cmp_spec(b) == Ordering::Greater)
{ unimplemented!() }
