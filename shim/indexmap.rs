// ---- shim for indexmap::IndexMap: an insertion-ordered list of (key, value) entries -----------
pub struct IndexMap<K, V> { pub entries: Vec<(K, V)> }

impl<K, V> IndexMap<K, V> {
    pub open spec fn view(&self) -> Seq<(K, V)> { self.entries@ }

    #[verifier::external_body]
    pub fn new() -> (r: IndexMap<K, V>)
        ensures r@.len() == 0
    { unimplemented!() }
}

pub open spec fn keys_of<V>(m: Seq<(usize, V)>) -> Seq<usize> { Seq::new(m.len(), |k: int| m[k].0) }

// R8: `X.iter().cloned().zip(Y.into_iter()).collect()` into an IndexMap.  With pairwise distinct keys
// (guaranteed here by strict monotonicity) collecting keeps every pair, in iteration order.
#[verifier::external_body]
pub fn verif_zip_collect<V>(x: &[usize], y: Vec<V>) -> (r: IndexMap<usize, V>)
    ensures
        strictly_increasing(x@) && x@.len() == y@.len() ==> r@.len() == x@.len()
            && forall|k: int| 0 <= k < x@.len() ==> #[trigger] r@[k] == (x@[k], y@[k]),
{ unimplemented!() }
