// ---- shim for src/histogram/{grid,histograms}.rs ------------------------------------------------------
// Grid::{ndim, shape, index_of}: contracts *proved in unit `grid`* on the extracted bodies (the driver checks that the
// contract text here and there is the same); here they are callee contracts.
impl<A: Ord> Grid<A> {
    #[verifier::external_body]
    pub fn ndim(&self) -> (n: usize)
        ensures n == self.projections@.len(),
    { unimplemented!() }

    // the shape is the number of bins of every axis
    #[verifier::external_body]
    pub fn shape(&self) -> (r: Vec<usize>)
        ensures shape_matches(r@, *self),
    { unimplemented!() }

    // per-axis lookup, None as soon as one coordinate has no bin (panics on a dimension mismatch)
    #[verifier::external_body]
    pub fn index_of(&self, point: &Lane<A>) -> (r: Option<Vec<usize>>)
        requires point@.len() == self.projections@.len(),
            lawful_ord::<A>(), grid_wf(*self),
        ensures
            r matches Some(idx) ==> in_cell(*self, idx@, point@),
            r is None ==> forall|idx: Seq<usize>| !in_cell(*self, idx, point@),
    { unimplemented!() }
}

// ndarray's ArrayD<usize> of counts: a map from index tuples inside the shape to the stored value
pub struct ArrayD<T> { pub shape: Vec<usize>, pub cells: Ghost<Map<Seq<usize>, T>> }
impl<T> ArrayD<T> {
    pub open spec fn view(&self) -> Map<Seq<usize>, T> { self.cells@ }
    #[verifier::external_body]
    pub fn ndim(&self) -> (n: usize) ensures n == self.shape@.len()
    { unimplemented!() }
}
impl ArrayD<usize> {
    #[verifier::external_body]
    pub fn zeros(shape: Vec<usize>) -> (r: ArrayD<usize>)
        ensures r.shape@ == shape@, forall|idx: Seq<usize>| in_shape(idx, shape@) ==> #[trigger] r@[idx] == 0
    { unimplemented!() }
}
impl<T> std::ops::Index<&[usize]> for ArrayD<T> {
    type Output = T;
    #[verifier::external_body]
    fn index(&self, i: &[usize]) -> (r: &T) ensures *r == self@[i@]
    { unimplemented!() }
}
impl<T> std::ops::IndexMut<&[usize]> for ArrayD<T> {
    #[verifier::external_body]
    fn index_mut(&mut self, i: &[usize]) -> (r: &mut T)
        ensures *r == old(self)@[i@], final(self)@ == old(self)@.insert(i@, *final(r)), final(self).shape == old(self).shape
    { unimplemented!() }
}
impl<T> vstd::std_specs::core::IndexSpecImpl<&[usize]> for ArrayD<T> {
    open spec fn index_req(&self, i: &&[usize]) -> bool { in_shape(i@, self.shape@) }
}

pub struct BinNotFound;
pub struct Histogram<A: Ord> { pub counts: ArrayD<usize>, pub grid: Grid<A> }

// ---- the meaning of the counts: number of observations of the history that fall into the cell ----------
pub open spec fn count_in<A: Ord>(g: Grid<A>, hist: Seq<Seq<A>>, idx: Seq<usize>) -> int
    decreases hist.len()
{
    if hist.len() == 0 { 0 } else { count_in(g, hist.drop_last(), idx) + if in_cell(g, idx, hist.last()) { 1int } else { 0int } }
}
pub open spec fn hist_wf<A: Ord>(h: Histogram<A>) -> bool {
    grid_wf(h.grid) && shape_matches(h.counts.shape@, h.grid)
}
// representation invariant against a history of accepted-or-rejected observations
pub open spec fn hist_counts<A: Ord>(h: Histogram<A>, hist: Seq<Seq<A>>) -> bool {
    forall|idx: Seq<usize>| in_shape(idx, h.counts.shape@) ==> #[trigger] h.counts@[idx] == count_in(h.grid, hist, idx)
}

// a cell that contains a point is inside the shape; a point lies in at most one cell (proved)
pub proof fn lemma_cell_in_shape<A: Ord>(g: Grid<A>, shape: Seq<usize>, idx: Seq<usize>, p: Seq<A>)
    requires in_cell(g, idx, p), shape_matches(shape, g)
    ensures in_shape(idx, shape)
{
    assert forall|j: int| 0 <= j < idx.len() implies #[trigger] idx[j] < shape[j] by {
        assert(in_bin(g.projections@[j].edges.edges@, idx[j] as int, p[j]));
    }
}
pub proof fn lemma_count_push<A: Ord>(g: Grid<A>, hist: Seq<Seq<A>>, p: Seq<A>, idx: Seq<usize>)
    ensures count_in(g, hist.push(p), idx) == count_in(g, hist, idx) + if in_cell(g, idx, p) { 1int } else { 0int }
{
    assert(hist.push(p).drop_last() =~= hist);
    assert(hist.push(p).last() == p);
}
pub proof fn lemma_cell_unique<A: Ord>(g: Grid<A>, i1: Seq<usize>, i2: Seq<usize>, p: Seq<A>)
    requires lawful_ord::<A>(), grid_wf(g), in_cell(g, i1, p), in_cell(g, i2, p)
    ensures i1 == i2
{
    assert forall|j: int| 0 <= j < i1.len() implies i1[j] == i2[j] by {
        assert(edges_wf(g.projections@[j].edges));
        lemma_bin_unique(g.projections@[j].edges.edges@, p[j], i1[j] as int, i2[j] as int);
    }
    assert(i1 =~= i2);
}

// ---- the 2-D observation matrix of `HistogramExt::histogram` (A-ND): one observation per row ---------------------
#[verifier::external_body]
#[verifier::reject_recursive_types(A)]
pub struct ObsMatrix<A> { _a: core::marker::PhantomData<A> }
pub struct AxisIter<A> { pub rows: Vec<Lane<A>> }
impl<A> ObsMatrix<A> {
    // the rows in index order
    pub uninterp spec fn rows(&self) -> Seq<Seq<A>>;
    pub uninterp spec fn ncols(&self) -> nat;
    // `axis_iter(Axis(0))` yields every row once, in index order, as a 1-D view of ncols elements
    #[verifier::external_body]
    pub fn axis_iter(&self, axis: Axis) -> (r: AxisIter<A>)
        requires axis.0 == 0
        ensures r.rows@.len() == self.rows().len(), forall|k: int| 0 <= k < self.rows().len() ==> (#[trigger] r.rows@[k])@ == self.rows()[k],
            forall|k: int| 0 <= k < self.rows().len() ==> (#[trigger] self.rows()[k]).len() == self.ncols()
    { unimplemented!() }
}
// R10h
#[verifier::external_body]
pub fn verif_hoist<A>(it: AxisIter<A>) -> (r: Vec<Lane<A>>)
    ensures r@ == it.rows@
{ unimplemented!() }
// a count never exceeds the number of observations
pub proof fn lemma_count_bound<A: Ord>(g: Grid<A>, hist: Seq<Seq<A>>, idx: Seq<usize>)
    ensures 0 <= count_in(g, hist, idx) <= hist.len()
    decreases hist.len()
{ if hist.len() > 0 { lemma_count_bound(g, hist.drop_last(), idx); } }
