// ---- shim for GridBuilder::from_array (src/histogram/grid.rs): a bins-building strategy per column ---------------------------
// the strategy trait of src/histogram/strategies.rs, reduced to what GridBuilder uses: every implementation's `from_array`
// satisfies its own postcondition on the data it is given (for the five strategies of the crate that postcondition is proved in
// this unit on their inherent forms; the generic statement is an ASSUMED contract of the trait)
pub trait BinsBuildingStrategy: Sized {
    type Elem: Ord;
    spec fn from_array_post(data: Seq<Self::Elem>, r: Result<Self, BinsBuildError>) -> bool;
    fn from_array(a: &ArrayN<Self::Elem, Ix1>) -> (r: Result<Self, BinsBuildError>)
        ensures Self::from_array_post(a@, r);
    // `build`: the bins a fitted strategy produces (for EquiSpaced-backed strategies the postcondition is proved in the unit
    // `equispaced`; the generic statement is, like from_array's, an ASSUMED contract of the trait)
    spec fn build_post(&self, r: Bins<Self::Elem>) -> bool;
    fn build(&self) -> (r: Bins<Self::Elem>)
        ensures self.build_post(r);
}
pub struct GridBuilder<B: BinsBuildingStrategy> { pub bin_builders: Vec<B> }
// the conversion of src/histogram/grid.rs used by GridBuilder::build (extracted in the unit; its meaning is declared through FromSpecImpl)
impl<A: Ord> vstd::std_specs::convert::FromSpecImpl<Vec<Bins<A>>> for Grid<A> {
    open spec fn obeys_from_spec() -> bool { true }
    open spec fn from_spec(v: Vec<Bins<A>>) -> Self { Grid { projections: v } }
}
// A-ND (2-D): the matrix of observations; `axis_iter(Axis(1))` yields the columns (one random variable each) in index order,
// each as a 1-D array - modelled, like every iterator chain (A-ITER), as the vector of its items

#[verifier::external_body]
#[verifier::reject_recursive_types(A)]
pub struct Obs2<A> { _a: core::marker::PhantomData<A> }
impl<A> Obs2<A> {
    pub uninterp spec fn slices(&self, axis: int) -> Seq<Seq<A>>;
    #[verifier::external_body]
    pub fn axis_iter(&self, axis: Axis) -> (r: SeqIter<ArrayN<A, Ix1>>)
        ensures r.items@.len() == self.slices(axis.0 as int).len(), forall|j: int| 0 <= j < r.items@.len() ==> (#[trigger] r.items@[j])@ == self.slices(axis.0 as int)[j]
    { unimplemented!() }
}
// R18: `.collect::<Result<Vec<B>, BinsBuildError>>()`: Ok of all the items when every item is Ok, otherwise the error of the
// first item (in order) that is an error (std: FromIterator for Result - A-STD)
pub trait VerifCollectResult<B, E> { spec fn items_of(self) -> Seq<Result<B, E>>; fn verif_collect_result(self) -> (r: Result<Vec<B>, E>) where Self: Sized
    ensures
        r matches Ok(v) ==> v@.len() == self.items_of().len() && forall|k: int| 0 <= k < v@.len() ==> self.items_of()[k] == Ok::<B, E>(#[trigger] v@[k]),
        r matches Err(e) ==> exists|k: int| 0 <= k < self.items_of().len() && #[trigger] self.items_of()[k] == Err::<B, E>(e) && forall|i: int| 0 <= i < k ==> (#[trigger] self.items_of()[i]) is Ok; }
impl<B, E> VerifCollectResult<B, E> for MapIter<Result<B, E>> {
    open spec fn items_of(self) -> Seq<Result<B, E>> { self.items@ }
    #[verifier::external_body]
    fn verif_collect_result(self) -> (r: Result<Vec<B>, E>) { unimplemented!() }
}
