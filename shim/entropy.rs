// ---- shim for src/entropy.rs (A-ND, A-REAL) ------------------------------------------------------------------------
pub type Array<A, D> = ArrayN<A, D>;
// `raw_dim()`: the shape as a dimension value
pub struct RawDim<D> { pub _d: core::marker::PhantomData<D> }
impl<D> RawDim<D> {
    pub uninterp spec fn shape_of(&self) -> Seq<usize>;
    pub uninterp spec fn len_of(&self) -> nat;
}
impl<A, D: Dimension> ArrayN<A, D> {
    #[verifier::external_body]
    pub fn raw_dim(&self) -> (r: RawDim<D>)
        ensures r.shape_of() == self.shape_spec(), r.len_of() == self@.len()
    { unimplemented!() }
    // `Array::zeros(dim)`: a new array of that shape filled with zero
    #[verifier::external_body]
    pub fn zeros(d: RawDim<D>) -> (r: Self)
        where A: Float
        ensures r.shape_spec() == d.shape_of(), r@.len() == d.len_of(), forall|k: int| 0 <= k < r@.len() ==> #[trigger] r@[k] == A::zero_spec()
    { unimplemented!() }
    // R11b: the element at logical position i, read and written through the `&mut` the Zip closure receives
    #[verifier::external_body]
    pub fn verif_get(&self, i: usize) -> (r: A)
        where A: Copy
        requires i < self@.len()
        ensures r == self@[i as int]
    { unimplemented!() }
    #[verifier::external_body]
    pub fn verif_set(&mut self, i: usize, v: A)
        requires i < old(self)@.len()
        ensures final(self)@ == old(self)@.update(i as int, v), final(self).shape_spec() == old(self).shape_spec()
    { unimplemented!() }
}
// R11b: `Zip::from(&mut t).and(a).and(b)` visits every index exactly once, in an unspecified order, handing out the
// elements of all operands at that same index; modelled as the vector of (logical position, a-element, b-element)
pub open spec fn zip_visits<'a, A>(r: Seq<(usize, &'a A, &'a A)>, i: int) -> bool { exists|k: int| 0 <= k < r.len() && (#[trigger] r[k]).0 == i }
#[verifier::external_body]
pub fn verif_zip3_idx<'a, A, D: Dimension>(a: &'a ArrayN<A, D>, b: &'a ArrayN<A, D>) -> (r: Vec<(usize, &'a A, &'a A)>)
    requires a.shape_spec() == b.shape_spec()
    ensures
        a@.len() == b@.len(), r@.len() == a@.len(),
        forall|k: int| 0 <= k < r@.len() ==> (#[trigger] r@[k]).0 < a@.len() && *r@[k].1 == a@[r@[k].0 as int] && *r@[k].2 == b@[r@[k].0 as int],
        forall|i: int| 0 <= i < a@.len() ==> #[trigger] zip_visits(r@, i),
{ unimplemented!() }

// the terms of the three sums (C10): a zero x (p) contributes exactly zero
pub open spec fn h_term(x: real) -> real { if x == 0real { 0real } else { x * ln_r(x) } }
pub open spec fn kl_term(p: real, q: real) -> real { if p == 0real { 0real } else { p * ln_r(q / p) } }
pub open spec fn ce_term(p: real, q: real) -> real { if p == 0real { 0real } else { p * ln_r(q) } }
pub open spec fn tsum1(x: Seq<real>, f: spec_fn(real) -> real, k: int) -> real decreases k { if k <= 0 { 0real } else { tsum1(x, f, k - 1) + f(x[k - 1]) } }
pub open spec fn tsum2(p: Seq<real>, q: Seq<real>, f: spec_fn(real, real) -> real, k: int) -> real decreases k { if k <= 0 { 0real } else { tsum2(p, q, f, k - 1) + f(p[k - 1], q[k - 1]) } }
pub proof fn lemma_tsum1_pointwise(y: Seq<real>, x: Seq<real>, f: spec_fn(real) -> real, k: int)
    requires 0 <= k <= x.len(), x.len() == y.len(), forall|i: int| 0 <= i < x.len() ==> #[trigger] y[i] == f(x[i])
    ensures psum(y, k) == tsum1(x, f, k)
    decreases k
{ if k > 0 { lemma_tsum1_pointwise(y, x, f, k - 1); } }
pub proof fn lemma_tsum2_pointwise(y: Seq<real>, p: Seq<real>, q: Seq<real>, f: spec_fn(real, real) -> real, k: int)
    requires 0 <= k <= p.len(), p.len() == y.len(), p.len() == q.len(), forall|i: int| 0 <= i < p.len() ==> #[trigger] y[i] == f(p[i], q[i])
    ensures psum(y, k) == tsum2(p, q, f, k)
    decreases k
{ if k > 0 { lemma_tsum2_pointwise(y, p, q, f, k - 1); } }
