// ---- callee contracts of Bins (proved in unit `bins` on the extracted bodies) ----------------------------------------
impl<A: Ord> Bins<A> {
    #[verifier::external_body]
    pub fn len(&self) -> (n: usize)
        ensures n == (if self.edges.edges@.len() == 0 { 0int } else { self.edges.edges@.len() - 1 })
    { unimplemented!() }
    #[verifier::external_body]
    pub fn index_of(&self, value: &A) -> (r: Option<usize>)
        requires lawful_ord::<A>(), edges_wf(self.edges),
        ensures
            match r {
                Some(i) => in_bin(self.edges.edges@, i as int, *value),
                None => no_bin(self.edges.edges@, *value),
            },
    { unimplemented!() }
}

// the 1-D array as an item sequence (A-ITER, see shim/iterchain.rs)
impl<'a, A: 'a> VerifIter<'a> for Lane<A> {
    type Item = &'a A;
    open spec fn items_spec(&'a self) -> Seq<&'a A> { Seq::new(self@.len(), |k: int| &self@[k]) }
    #[verifier::external_body]
    fn verif_iter(&'a self) -> (r: SeqIter<&'a A>) { unimplemented!() }
}
