// ---- Grid of src/histogram/grid.rs: data declaration and the meaning of cells / shapes ---------------------------
pub struct Grid<A: Ord> { pub projections: Vec<Bins<A>> }

pub open spec fn bins_len<A: Ord>(b: Bins<A>) -> int { if b.edges.edges@.len() == 0 { 0 } else { b.edges.edges@.len() - 1 } }
pub open spec fn grid_wf<A: Ord>(g: Grid<A>) -> bool { forall|j: int| 0 <= j < g.projections@.len() ==> edges_wf(#[trigger] g.projections@[j].edges) }
// the point `p` lies in the bin with index tuple `idx`
pub open spec fn in_cell<A: Ord>(g: Grid<A>, idx: Seq<usize>, p: Seq<A>) -> bool {
    &&& idx.len() == g.projections@.len()
    &&& p.len() == g.projections@.len()
    &&& forall|j: int| 0 <= j < idx.len() ==> in_bin(#[trigger] g.projections@[j].edges.edges@, idx[j] as int, p[j])
}
pub open spec fn in_shape(idx: Seq<usize>, shape: Seq<usize>) -> bool {
    idx.len() == shape.len() && forall|j: int| 0 <= j < idx.len() ==> #[trigger] idx[j] < shape[j]
}
pub open spec fn shape_matches<A: Ord>(shape: Seq<usize>, g: Grid<A>) -> bool { shape.len() == g.projections@.len() && forall|j: int| 0 <= j < shape.len() ==> #[trigger] shape[j] as int == bins_len(g.projections@[j]) }

