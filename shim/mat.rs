// ---- A-ND (2-D), A-REAL: trusted logical contract of a 2-D ndarray (`ArrayBase<S, Ix2>` of any storage / layout) -----
// Only the number of rows and columns and the element at each (row, column) index are visible.  Every method below is an
// *assumed* contract of a dependency (ndarray), written for both axes so that code which picks the wrong axis fails.
#[verifier::external_body]
#[verifier::reject_recursive_types(A)]
pub struct Mat<A> { _a: core::marker::PhantomData<A> }
#[verifier::external_body]
#[verifier::reject_recursive_types(A)]
pub struct Arr1<A> { _a: core::marker::PhantomData<A> }
pub type Array2<A> = Mat<A>;
#[derive(Clone, Copy)]
pub struct Axis(pub usize);

impl<A: Float> Arr1<A> {
    pub uninterp spec fn len(&self) -> nat;
    pub uninterp spec fn at(&self, i: int) -> A;
    // `insert_axis(Axis(1))`: a column (len x 1); `insert_axis(Axis(0))`: a row (1 x len)
    #[verifier::external_body]
    pub fn insert_axis(self, axis: Axis) -> (r: Mat<A>)
        requires axis.0 <= 1
        ensures
            axis.0 == 1 ==> r.nrows() == self.len() && r.ncols() == 1 && forall|i: int| 0 <= i < self.len() ==> #[trigger] r.at(i, 0) == self.at(i),
            axis.0 == 0 ==> r.nrows() == 1 && r.ncols() == self.len() && forall|i: int| 0 <= i < self.len() ==> #[trigger] r.at(0, i) == self.at(i),
    { unimplemented!() }
}

// sums over the first k positions of a row / of two rows
pub open spec fn row<A: Float>(m: Mat<A>, i: int) -> Seq<real> { Seq::new(m.ncols(), |k: int| m.at(i, k).val()) }
pub open spec fn col<A: Float>(m: Mat<A>, j: int) -> Seq<real> { Seq::new(m.nrows(), |k: int| m.at(k, j).val()) }
pub open spec fn dotp(a: Seq<real>, b: Seq<real>, k: int) -> real decreases k { if k <= 0 { 0real } else { dotp(a, b, k - 1) + a[k - 1] * b[k - 1] } }
// sum_k (a_k - ma)(b_k - mb)
pub open spec fn crossdev(a: Seq<real>, b: Seq<real>, ma: real, mb: real, k: int) -> real decreases k { if k <= 0 { 0real } else { crossdev(a, b, ma, mb, k - 1) + (a[k - 1] - ma) * (b[k - 1] - mb) } }
pub proof fn lemma_dotp_is_crossdev(u: Seq<real>, v: Seq<real>, a: Seq<real>, b: Seq<real>, ma: real, mb: real, k: int)
    requires 0 <= k <= a.len(), a.len() == b.len(), u.len() == a.len(), v.len() == a.len(),
        forall|l: int| 0 <= l < a.len() ==> #[trigger] u[l] == a[l] - ma, forall|l: int| 0 <= l < a.len() ==> #[trigger] v[l] == b[l] - mb,
    ensures dotp(u, v, k) == crossdev(a, b, ma, mb, k)
    decreases k
{ if k > 0 { lemma_dotp_is_crossdev(u, v, a, b, ma, mb, k - 1); } }

// the definitions of the property (C08): rows are variables, columns are observations
pub open spec fn cov_def<A: Float>(m: Mat<A>, i: int, j: int, ddof: real) -> real {
    crossdev(row(m, i), row(m, j), mean_def(row(m, i)), mean_def(row(m, j)), m.ncols() as int) / (m.ncols() as real - ddof)
}
pub open spec fn sigma_def<A: Float>(m: Mat<A>, i: int, ddof: real) -> real { sqrt_r(cov_def(m, i, i, ddof)) }

impl<A: Float> Mat<A> {
    pub uninterp spec fn nrows(&self) -> nat;
    pub uninterp spec fn ncols(&self) -> nat;
    pub uninterp spec fn at(&self, i: int, j: int) -> A;

    #[verifier::external_body]
    pub fn len_of(&self, axis: Axis) -> (n: usize)
        requires axis.0 <= 1
        ensures axis.0 == 0 ==> n == self.nrows(), axis.0 == 1 ==> n == self.ncols()
    { unimplemented!() }
    #[verifier::external_body]
    pub fn dim(&self) -> (d: (usize, usize))
        ensures d.0 == self.nrows(), d.1 == self.ncols()
    { unimplemented!() }
    // `mean_axis(axis)`: the mean of every lane along `axis`; None when that axis has length zero
    #[verifier::external_body]
    pub fn mean_axis(&self, axis: Axis) -> (r: Option<Arr1<A>>)
        where A: FromPrimitive
        requires real_model::<A>(), axis.0 <= 1
        ensures
            axis.0 == 1 ==> (self.ncols() == 0 <==> r.is_none()),
            axis.0 == 1 ==> (r matches Some(v) ==> v.len() == self.nrows() && forall|i: int| 0 <= i < self.nrows() ==> (#[trigger] v.at(i)).val() == mean_def(row(*self, i))),
            axis.0 == 0 ==> (self.nrows() == 0 <==> r.is_none()),
            axis.0 == 0 ==> (r matches Some(v) ==> v.len() == self.ncols() && forall|j: int| 0 <= j < self.ncols() ==> (#[trigger] v.at(j)).val() == mean_def(col(*self, j))),
    { unimplemented!() }
    // `std_axis(axis, ddof)`: the standard deviation of every lane along `axis` (panics for an empty lane or ddof out of range)
    #[verifier::external_body]
    pub fn std_axis(&self, axis: Axis, ddof: A) -> (v: Arr1<A>)
        where A: FromPrimitive
        requires real_model::<A>(), axis.0 <= 1, axis.0 == 1 ==> self.ncols() > 0, axis.0 == 0 ==> self.nrows() > 0, 0real <= ddof.val(),
            axis.0 == 1 ==> ddof.val() < self.ncols() as real, axis.0 == 0 ==> ddof.val() < self.nrows() as real,
        ensures
            axis.0 == 1 ==> v.len() == self.nrows() && forall|i: int| 0 <= i < self.nrows() ==> (#[trigger] v.at(i)).val() == sigma_def(*self, i, ddof.val()),
            axis.0 == 0 ==> v.len() == self.ncols(),
    { unimplemented!() }
    // `.t()`: the transposed view
    pub uninterp spec fn t_spec(&self) -> Mat<A>;
    #[verifier::external_body]
    pub fn t(&self) -> (r: Mat<A>)
        ensures r == self.t_spec()
    { unimplemented!() }
    // matrix product (panics unless the inner dimensions agree)
    #[verifier::external_body]
    pub fn dot(&self, rhs: &Mat<A>) -> (r: Mat<A>)
        requires real_model::<A>(), self.ncols() == rhs.nrows()
        ensures r.nrows() == self.nrows(), r.ncols() == rhs.ncols(),
            forall|i: int, j: int| 0 <= i < r.nrows() && 0 <= j < r.ncols() ==> (#[trigger] r.at(i, j)).val() == dotp(row(*self, i), col(*rhs, j), self.ncols() as int)
    { unimplemented!() }
    #[verifier::external_body]
    pub fn mapv_into<F: FnMut(A) -> A>(self, f: F) -> (r: Mat<A>)
        requires forall|i: int, j: int| 0 <= i < self.nrows() && 0 <= j < self.ncols() ==> call_requires(f, (#[trigger] self.at(i, j),))
        ensures r.nrows() == self.nrows(), r.ncols() == self.ncols(),
            forall|i: int, j: int| 0 <= i < r.nrows() && 0 <= j < r.ncols() ==> call_ensures(f, (self.at(i, j),), #[trigger] r.at(i, j))
    { unimplemented!() }
}

#[verifier::external_body]
pub broadcast proof fn axiom_transpose<A: Float>(m: Mat<A>)
    ensures (#[trigger] m.t_spec()).nrows() == m.ncols(), m.t_spec().ncols() == m.nrows(),
        forall|i: int, j: int| 0 <= i < m.ncols() && 0 <= j < m.nrows() ==> #[trigger] m.t_spec().at(i, j) == m.at(j, i)
{ }
// `&a - &b` with broadcasting of a column (n x 1) or a row (1 x m) or an equally shaped matrix; anything else panics
pub open spec fn bcast_ok<A: Float>(a: Mat<A>, b: Mat<A>) -> bool {
    (b.nrows() == a.nrows() || b.nrows() == 1) && (b.ncols() == a.ncols() || b.ncols() == 1)
}
pub uninterp spec fn mat_div<A: Float>(a: Mat<A>, b: Mat<A>) -> Mat<A>;
// R16: `&a - &b` (the operator on references trips an internal error of the installed Verus, so the extractor calls this)
#[verifier::external_body]
pub fn verif_mat_sub<A: Float>(a: &Mat<A>, b: &Mat<A>) -> (r: Mat<A>)
    requires real_model::<A>(), bcast_ok(*a, *b)
    ensures
        r.nrows() == a.nrows(), r.ncols() == a.ncols(),
        forall|i: int, j: int| 0 <= i < a.nrows() && 0 <= j < a.ncols() ==>
            (#[trigger] r.at(i, j)).val() == a.at(i, j).val() - b.at(if b.nrows() == 1 && a.nrows() != 1 { 0 } else { i }, if b.ncols() == 1 && a.ncols() != 1 { 0 } else { j }).val(),
{ unimplemented!() }
// element-wise `a / b` of equally shaped matrices
impl<A: Float> DivSpecImpl<Mat<A>> for Mat<A> {
    open spec fn obeys_div_spec() -> bool { true }
    open spec fn div_req(self, rhs: Mat<A>) -> bool { self.nrows() == rhs.nrows() && self.ncols() == rhs.ncols() }
    open spec fn div_spec(self, rhs: Mat<A>) -> Mat<A> { mat_div(self, rhs) }
}
impl<A: Float> Div<Mat<A>> for Mat<A> {
    type Output = Mat<A>;
    #[verifier::external_body]
    fn div(self, rhs: Mat<A>) -> Mat<A> { unimplemented!() }
}
#[verifier::external_body]
pub broadcast proof fn axiom_mat_div<A: Float>(a: Mat<A>, b: Mat<A>)
    requires real_model::<A>(), a.nrows() == b.nrows(), a.ncols() == b.ncols()
    ensures
        (#[trigger] mat_div(a, b)).nrows() == a.nrows(), mat_div(a, b).ncols() == a.ncols(),
        forall|i: int, j: int| 0 <= i < a.nrows() && 0 <= j < a.ncols() && b.at(i, j).val() != 0real ==> (#[trigger] mat_div(a, b).at(i, j)).val() == a.at(i, j).val() / b.at(i, j).val(),
{ }

// R2: panic! (mode N: must be unreachable)
#[verifier::external_body]
pub fn verif_panic() -> ! requires false { panic!() }
