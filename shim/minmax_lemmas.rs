// ---- induction over the fold trace of `min` / `max` (proved) -----------------------------------------
// d == true: minimum (the accumulator is replaced on Less); d == false: maximum (replaced on Greater)
pub open spec fn hit(d: bool, o: Ordering) -> bool { if d { o == Ordering::Less } else { o == Ordering::Greater } }
pub open spec fn lte_d<A: PartialOrd>(d: bool, a: A, b: A) -> bool { if d { ple(a, b) } else { ple(b, a) } }
pub open spec fn ext_step<A: PartialOrd>(d: bool, acc: Result<&A, MinMaxError>, elem: &A, r: Result<&A, MinMaxError>) -> bool {
    match acc {
        Err(e) => r == Err::<&A, MinMaxError>(e),
        Ok(a) => match pcmp(*elem, *a) {
            None => r == Err::<&A, MinMaxError>(MinMaxError::UndefinedOrder),
            Some(o) => if hit(d, o) { r == Ok::<&A, MinMaxError>(elem) } else { r == Ok::<&A, MinMaxError>(a) },
        },
    }
}
pub open spec fn min_step<A: PartialOrd>(acc: Result<&A, MinMaxError>, elem: &A, r: Result<&A, MinMaxError>) -> bool { ext_step(true, acc, elem, r) }
pub open spec fn max_step<A: PartialOrd>(acc: Result<&A, MinMaxError>, elem: &A, r: Result<&A, MinMaxError>) -> bool { ext_step(false, acc, elem, r) }
pub open spec fn is_ext_at<A: PartialOrd>(d: bool, s: Seq<A>, k: int) -> bool { 0 <= k < s.len() && forall|m: int| 0 <= m < s.len() ==> lte_d(d, s[k], #[trigger] s[m]) }

pub proof fn lemma_lte_facts<A: PartialOrd>(d: bool, e: A, a: A)
    requires float_like_laws::<A>(), pcmp(e, a).is_some()
    ensures
        !is_nan(e), !is_nan(a), lte_d(d, e, e), lte_d(d, a, a),
        hit(d, pcmp(e, a)->Some_0) ==> lte_d(d, e, a),
        !hit(d, pcmp(e, a)->Some_0) ==> lte_d(d, a, e),
{ }
pub proof fn lemma_lte_trans<A: PartialOrd>(d: bool, a: A, b: A, c: A)
    requires float_like_laws::<A>(), lte_d(d, a, b), lte_d(d, b, c)
    ensures lte_d(d, a, c)
{ }

// a NaN has taken part in one of the first k comparisons
pub open spec fn nan_seen<A: PartialOrd>(s: Seq<A>, ord: Seq<int>, k: int) -> bool {
    k >= 1 && (is_nan(s[0]) || exists|j: int| 0 <= j < k && is_nan(#[trigger] s[ord[j]]))
}

pub open spec fn min_inv<A: PartialOrd>(d: bool, s: Seq<A>, ord: Seq<int>, accs: Seq<Result<&A, MinMaxError>>, k: int) -> bool {
    if nan_seen(s, ord, k) {
        accs[k] == Err::<&A, MinMaxError>(MinMaxError::UndefinedOrder)
    } else {
        accs[k] matches Ok(x) && exists|i: int| 0 <= i < s.len() && *x == #[trigger] s[i] && (k == 0 ==> i == 0)
            && (k >= 1 ==> !is_nan(s[i]) && lte_d(d, s[i], s[0]) && forall|j: int| 0 <= j < k ==> lte_d(d, s[i], #[trigger] s[ord[j]]))
    }
}

pub proof fn lemma_min_fold_k<A: PartialOrd>(d: bool, s: Seq<A>, ord: Seq<int>, accs: Seq<Result<&A, MinMaxError>>, first: &A, k: int)
    requires
        float_like_laws::<A>(), s.len() > 0, *first == s[0],
        is_visit_order(ord, s.len() as int), accs.len() == s.len() + 1,
        accs[0] == Ok::<&A, MinMaxError>(first),
        forall|m: int| 0 <= m < s.len() ==> ext_step(d, #[trigger] accs[m], &s[ord[m]], accs[m + 1]),
        0 <= k <= s.len(),
    ensures min_inv(d, s, ord, accs, k)
    decreases k
{
    if k == 0 {
        assert(!nan_seen(s, ord, 0));
        assert(*first == s[0]);
    } else {
        lemma_min_fold_k(d, s, ord, accs, first, k - 1);
        let e = s[ord[k - 1]];
        assert(ext_step(d, accs[k - 1], &s[ord[k - 1]], accs[k]));
        if nan_seen(s, ord, k - 1) {
            assert(nan_seen(s, ord, k)) by {
                if !is_nan(s[0]) {
                    let j = choose|j: int| 0 <= j < k - 1 && is_nan(#[trigger] s[ord[j]]);
                    assert(0 <= j < k && is_nan(s[ord[j]]));
                }
            }
        } else {
            let x = accs[k - 1]->Ok_0;
            let i = choose|i: int| 0 <= i < s.len() && *x == #[trigger] s[i] && (k - 1 == 0 ==> i == 0)
                && (k - 1 >= 1 ==> !is_nan(s[i]) && lte_d(d, s[i], s[0]) && forall|j: int| 0 <= j < k - 1 ==> lte_d(d, s[i], #[trigger] s[ord[j]]));
            if pcmp(e, s[i]).is_none() {
                // one of the operands is NaN; s[i] can only be NaN when it is the untested first element
                assert(is_nan(e) || is_nan(s[i]));
                if is_nan(s[i]) { assert(k - 1 == 0 && i == 0); }
                assert(is_nan(s[0]) || is_nan(s[ord[k - 1]]));
                assert(nan_seen(s, ord, k));
            } else {
                assert(!is_nan(e) && !is_nan(s[i]));
                assert(!nan_seen(s, ord, k)) by {
                    if nan_seen(s, ord, k) {
                        if is_nan(s[0]) { assert(k - 1 >= 1 ==> lte_d(d, s[i], s[0])); if k - 1 == 0 { assert(i == 0); } }
                        else {
                            let j = choose|j: int| 0 <= j < k && is_nan(#[trigger] s[ord[j]]);
                            if j < k - 1 { assert(nan_seen(s, ord, k - 1)); }
                        }
                    }
                }
                lemma_lte_facts(d, e, s[i]);
                if hit(d, pcmp(e, s[i])->Some_0) {
                    let i2 = ord[k - 1];
                    assert(*(accs[k]->Ok_0) == s[i2]);
                    assert(lte_d(d, e, s[i]));
                    assert(lte_d(d, e, e));
                    if k - 1 == 0 { assert(i == 0); } else { assert(lte_d(d, s[i], s[0])); lemma_lte_trans(d, s[i2], s[i], s[0]); }
                    assert(lte_d(d, s[i2], s[0]));
                    assert forall|j: int| 0 <= j < k implies lte_d(d, s[i2], #[trigger] s[ord[j]]) by {
                        if j < k - 1 { assert(lte_d(d, s[i], s[ord[j]])); lemma_lte_trans(d, s[i2], s[i], s[ord[j]]); }
                    }
                } else {
                    assert(accs[k] == accs[k - 1]);
                    assert(lte_d(d, s[i], e));
                    if k - 1 == 0 { assert(i == 0); assert(lte_d(d, s[0], s[0])); }
                    assert forall|j: int| 0 <= j < k implies lte_d(d, s[i], #[trigger] s[ord[j]]) by { }
                }
            }
        }
    }
}

pub proof fn lemma_min_fold<A: PartialOrd>(d: bool, s: Seq<A>, ord: Seq<int>, accs: Seq<Result<&A, MinMaxError>>, first: &A)
    requires
        float_like_laws::<A>(), s.len() > 0, *first == s[0],
        is_visit_order(ord, s.len() as int), accs.len() == s.len() + 1,
        accs[0] == Ok::<&A, MinMaxError>(first),
        forall|m: int| 0 <= m < s.len() ==> ext_step(d, #[trigger] accs[m], &s[ord[m]], accs[m + 1]),
    ensures
        has_nan(s) ==> accs[s.len() as int] == Err::<&A, MinMaxError>(MinMaxError::UndefinedOrder),
        !has_nan(s) ==> (accs[s.len() as int] matches Ok(x) && exists|k: int| is_ext_at(d, s, k) && *x == s[k]),
{
    let n = s.len() as int;
    lemma_min_fold_k(d, s, ord, accs, first, n);
    if has_nan(s) {
        let m = choose|m: int| 0 <= m < s.len() && is_nan(#[trigger] s[m]);
        assert(ord.contains(m));
        let j = choose|j: int| 0 <= j < ord.len() && ord[j] == m;
        assert(is_nan(s[ord[j]]));
        assert(nan_seen(s, ord, n));
    } else {
        assert(!nan_seen(s, ord, n)) by {
            if nan_seen(s, ord, n) {
                if !is_nan(s[0]) { let j = choose|j: int| 0 <= j < n && is_nan(#[trigger] s[ord[j]]); assert(is_nan(s[ord[j]])); }
            }
        }
        let x = accs[n]->Ok_0;
        let i = choose|i: int| 0 <= i < s.len() && *x == #[trigger] s[i] && (n == 0 ==> i == 0)
            && (n >= 1 ==> !is_nan(s[i]) && lte_d(d, s[i], s[0]) && forall|j: int| 0 <= j < n ==> lte_d(d, s[i], #[trigger] s[ord[j]]));
        assert forall|m: int| 0 <= m < s.len() implies lte_d(d, s[i], #[trigger] s[m]) by {
            assert(ord.contains(m));
            let j = choose|j: int| 0 <= j < ord.len() && ord[j] == m;
            assert(lte_d(d, s[i], s[ord[j]]));
        }
        assert(is_ext_at(d, s, i));
    }
}
