// ---- A-REAL: the element type `A: Float` read as exact (real) arithmetic -----------------------------------------
// Every value of `A` denotes a real number `val()`; `+ - * / neg` and the comparison operators are the real
// operations on those numbers (division is only specified for a non-zero divisor, and it never panics).
// This is the "machine arithmetic treated as mathematical" reading: what is proved under it is that the routine
// computes the *formula* of the property; the size of the rounding error is outside this model (it is measured by
// the bounded enumerations against an exact rational oracle).  `ln`, `sqrt`, `exp` are uninterpreted real functions.
pub uninterp spec fn ln_r(x: real) -> real;
pub uninterp spec fn sqrt_r(x: real) -> real;
pub uninterp spec fn exp_r(x: real) -> real;
pub open spec fn rpow(x: real, n: nat) -> real decreases n { if n == 0 { 1real } else { x * rpow(x, (n - 1) as nat) } }

pub trait Zero: Sized {
    spec fn zero_spec() -> Self;
    fn zero() -> (r: Self) ensures r == Self::zero_spec();
}
pub trait One: Sized {
    spec fn one_spec() -> Self;
    fn one() -> (r: Self) ensures r == Self::one_spec();
}
pub trait FromPrimitive: Sized {
    spec fn from_usize_spec(n: usize) -> Option<Self>;
    fn from_usize(n: usize) -> (r: Option<Self>) ensures r == Self::from_usize_spec(n);
}
pub trait Float: Copy + PartialEq + PartialOrd + Zero + One + Add<Output = Self> + Sub<Output = Self> + Mul<Output = Self> + Div<Output = Self> + Neg<Output = Self> {
    spec fn val(self) -> real;
    // `fin()`: the value is an ordinary (finite, non-NaN) number.  Only the unit `entropy` distinguishes it (there the
    // point of the explicit zero branches is that 0 * ln 0 is not a number); the other units read every value as a real.
    spec fn fin(self) -> bool;
    fn ln(self) -> (r: Self) ensures self.fin() && self.val() > 0real ==> r.fin() && r.val() == ln_r(self.val());
    fn sqrt(self) -> (r: Self) ensures r.val() == sqrt_r(self.val());
    fn exp(self) -> (r: Self) ensures r.val() == exp_r(self.val());
    fn recip(self) -> (r: Self) ensures self.val() != 0real ==> r.val() == 1real / self.val();
    fn powi(self, n: i32) -> (r: Self) ensures n >= 0 ==> r.val() == rpow(self.val(), n as nat);
}

pub open spec fn real_ops<A: Float>() -> bool {
    &&& A::obeys_add_spec() && A::obeys_sub_spec() && A::obeys_mul_spec() && A::obeys_div_spec() && A::obeys_neg_spec()
    &&& forall|a: A, b: A| #[trigger] a.add_req(b)
    &&& forall|a: A, b: A| (#[trigger] a.add_spec(b)).val() == a.val() + b.val()
    &&& forall|a: A, b: A| #[trigger] a.sub_req(b)
    &&& forall|a: A, b: A| (#[trigger] a.sub_spec(b)).val() == a.val() - b.val()
    &&& forall|a: A, b: A| #[trigger] a.mul_req(b)
    &&& forall|a: A, b: A| (#[trigger] a.mul_spec(b)).val() == a.val() * b.val()
    &&& forall|a: A, b: A| #[trigger] a.div_req(b)
    &&& forall|a: A, b: A| b.val() != 0real ==> (#[trigger] a.div_spec(b)).val() == a.val() / b.val()
    &&& forall|a: A| #[trigger] a.neg_req()
    &&& forall|a: A| (#[trigger] a.neg_spec()).val() == -a.val()
    &&& A::zero_spec().val() == 0real
    &&& A::one_spec().val() == 1real
}
pub open spec fn real_cmp<A: Float>() -> bool {
    &&& A::obeys_eq_spec()
    &&& forall|a: A, b: A| #[trigger] a.eq_spec(&b) == (a.val() == b.val())
    &&& A::obeys_partial_cmp_spec()
    &&& forall|a: A, b: A| #[trigger] a.partial_cmp_spec(&b) == (if a.val() < b.val() { Some(Ordering::Less) } else if a.val() == b.val() { Some(Ordering::Equal) } else { Some(Ordering::Greater) })
}
pub open spec fn real_add_assign<A: Float + AddAssign>() -> bool {
    &&& A::obeys_add_assign_spec()
    &&& forall|a: A, b: A| #[trigger] a.add_assign_req(b)
    &&& forall|a: A, b: A| (*(#[trigger] a.add_assign_spec(b))).val() == a.val() + b.val()
}
// `A::from_usize(n)` succeeds and is exact
pub open spec fn real_from_usize<A: Float + FromPrimitive>() -> bool {
    forall|n: usize| (#[trigger] A::from_usize_spec(n)) matches Some(v) && v.val() == n as real
}
pub open spec fn real_model<A: Float>() -> bool { real_ops::<A>() && real_cmp::<A>() }
// the same reading restricted to ordinary numbers: an operation on finite operands is the exact real operation and
// gives a finite result (no overflow); nothing is known about an operation with a NaN / infinite operand, about
// division by zero or about ln of a non-positive number
pub open spec fn fin_model<A: Float>() -> bool {
    &&& A::obeys_add_spec() && A::obeys_sub_spec() && A::obeys_mul_spec() && A::obeys_div_spec() && A::obeys_neg_spec()
    &&& forall|a: A, b: A| #[trigger] a.add_req(b)
    &&& forall|a: A, b: A| a.fin() && b.fin() ==> (#[trigger] a.add_spec(b)).fin() && a.add_spec(b).val() == a.val() + b.val()
    &&& forall|a: A, b: A| #[trigger] a.sub_req(b)
    &&& forall|a: A, b: A| a.fin() && b.fin() ==> (#[trigger] a.sub_spec(b)).fin() && a.sub_spec(b).val() == a.val() - b.val()
    &&& forall|a: A, b: A| #[trigger] a.mul_req(b)
    &&& forall|a: A, b: A| a.fin() && b.fin() ==> (#[trigger] a.mul_spec(b)).fin() && a.mul_spec(b).val() == a.val() * b.val()
    &&& forall|a: A, b: A| #[trigger] a.div_req(b)
    &&& forall|a: A, b: A| a.fin() && b.fin() && b.val() != 0real ==> (#[trigger] a.div_spec(b)).fin() && a.div_spec(b).val() == a.val() / b.val()
    &&& forall|a: A| #[trigger] a.neg_req()
    &&& forall|a: A| a.fin() ==> (#[trigger] a.neg_spec()).fin() && a.neg_spec().val() == -a.val()
    &&& A::zero_spec().fin() && A::zero_spec().val() == 0real
    &&& A::obeys_eq_spec()
    &&& forall|a: A, b: A| a.fin() && b.fin() ==> #[trigger] a.eq_spec(&b) == (a.val() == b.val())
}
pub open spec fn all_fin<A: Float>(s: Seq<A>) -> bool { forall|k: int| 0 <= k < s.len() ==> (#[trigger] s[k]).fin() }

// small ring facts over the reals, each proved on its own (the default solver configuration does not expand products)
pub proof fn rl_dist(c: real, u: real, v: real) ensures c * (u + v) == c * u + c * v, c * (u - v) == c * u - c * v, (u + v) * c == u * c + v * c, (u - v) * c == u * c - v * c { assert(c * (u + v) == c * u + c * v && c * (u - v) == c * u - c * v && (u + v) * c == u * c + v * c && (u - v) * c == u * c - v * c) by(nonlinear_arith); }
pub proof fn rl_assoc(a: real, b: real, c: real) ensures (a * b) * c == a * (b * c), a * b == b * a { assert((a * b) * c == a * (b * c) && a * b == b * a) by(nonlinear_arith); }
pub proof fn rl_neg(a: real, b: real) ensures a * (-b) == -(a * b), (-a) * b == -(a * b) { assert(a * (-b) == -(a * b) && (-a) * b == -(a * b)) by(nonlinear_arith); }
pub proof fn rl_div_mul(a: real, b: real) requires b != 0real ensures (a / b) * b == a { assert((a / b) * b == a) by(nonlinear_arith) requires b != 0real; }
pub proof fn rl_div_unique(m: real, b: real, p: real) requires m * b == p, b != 0real ensures m == p / b { assert(m == p / b) by(nonlinear_arith) requires m * b == p, b != 0real; }
pub proof fn rl_sq_nonneg(w: real, d: real) requires w >= 0real ensures w * (d * d) >= 0real { assert(w * (d * d) >= 0real) by(nonlinear_arith) requires w >= 0real; }
pub proof fn rl_div_nonneg(s: real, d: real) requires s >= 0real, d > 0real ensures s / d >= 0real { assert(s / d >= 0real) by(nonlinear_arith) requires s >= 0real, d > 0real; }
pub proof fn rl_sq_diff(x: real, m: real) ensures (x - m) * (x - m) == x * x - 2real * (m * x) + m * m { assert((x - m) * (x - m) == x * x - 2real * (m * x) + m * m) by(nonlinear_arith); }
pub proof fn rl_zero(a: real) ensures 0real * a == 0real, a * 0real == 0real, a != 0real ==> 0real / a == 0real { assert(0real * a == 0real && a * 0real == 0real) by(nonlinear_arith); if a != 0real { assert(0real / a == 0real) by(nonlinear_arith) requires a != 0real; } }
pub proof fn rl_sq_nonzero(a: real) requires a != 0real ensures a * a != 0real { assert(a * a != 0real) by(nonlinear_arith) requires a != 0real; }
pub proof fn rl_div_pos(a: real, b: real) requires a > 0real, b > 0real ensures a / b > 0real { assert(a / b > 0real) by(nonlinear_arith) requires a > 0real, b > 0real; }
pub proof fn rl_congr(a: real, b: real, c: real) requires a == b ensures a * c == b * c, c * a == c * b {}


pub open spec fn vals<A: Float>(s: Seq<A>) -> Seq<real> { Seq::new(s.len(), |k: int| s[k].val()) }

// ---- sums over the first k positions ---------------------------------------------------------------------------
pub open spec fn psum(x: Seq<real>, k: int) -> real decreases k { if k <= 0 { 0real } else { psum(x, k - 1) + x[k - 1] } }
pub open spec fn rsum(x: Seq<real>) -> real { psum(x, x.len() as int) }
// sum of w_i * x_i^p
pub open spec fn wpsum(x: Seq<real>, w: Seq<real>, p: nat, k: int) -> real decreases k { if k <= 0 { 0real } else { wpsum(x, w, p, k - 1) + w[k - 1] * rpow(x[k - 1], p) } }
// sum of w_i * (x_i - m)^2
pub open spec fn wdev2(x: Seq<real>, w: Seq<real>, m: real, k: int) -> real decreases k { if k <= 0 { 0real } else { wdev2(x, w, m, k - 1) + w[k - 1] * ((x[k - 1] - m) * (x[k - 1] - m)) } }
// sum of (x_i - m)^p
pub open spec fn devp(x: Seq<real>, m: real, p: nat, k: int) -> real decreases k { if k <= 0 { 0real } else { devp(x, m, p, k - 1) + rpow(x[k - 1] - m, p) } }

// the definitions of the property (C07)
pub open spec fn wmean_def(x: Seq<real>, w: Seq<real>) -> real { wpsum(x, w, 1, x.len() as int) / wpsum(x, w, 0, x.len() as int) }
pub open spec fn wvar_def(x: Seq<real>, w: Seq<real>, ddof: real) -> real { wdev2(x, w, wmean_def(x, w), x.len() as int) / (wpsum(x, w, 0, x.len() as int) - ddof) }
pub open spec fn mean_def(x: Seq<real>) -> real { rsum(x) / (x.len() as real) }
pub open spec fn cmoment_def(x: Seq<real>, p: nat) -> real { devp(x, mean_def(x), p, x.len() as int) / (x.len() as real) }

pub proof fn lemma_rpow_small(x: real)
    ensures rpow(x, 0) == 1real, rpow(x, 1) == x, rpow(x, 2) == x * x
{
    reveal_with_fuel(rpow, 3);
    assert(x * 1real == x);
}

// sum w (x - m)^2 == sum w x^2 - 2 m sum w x + m^2 sum w
pub proof fn lemma_wdev2_expand(x: Seq<real>, w: Seq<real>, m: real, k: int)
    requires 0 <= k <= x.len(), x.len() == w.len()
    ensures wdev2(x, w, m, k) == wpsum(x, w, 2, k) - 2real * (m * wpsum(x, w, 1, k)) + m * m * wpsum(x, w, 0, k)
    decreases k
{
    if k > 0 {
        lemma_wdev2_expand(x, w, m, k - 1);
        let xi = x[k - 1]; let wi = w[k - 1];
        lemma_rpow_small(xi);
        let a2 = wpsum(x, w, 2, k - 1); let a1 = wpsum(x, w, 1, k - 1); let a0 = wpsum(x, w, 0, k - 1);
        assert(wpsum(x, w, 2, k) == a2 + wi * (xi * xi));
        assert(wpsum(x, w, 1, k) == a1 + wi * xi);
        assert(wpsum(x, w, 0, k) == a0 + wi);
        assert(wdev2(x, w, m, k) == wdev2(x, w, m, k - 1) + wi * ((xi - m) * (xi - m)));
        // wi*(xi-m)^2 == wi*xi^2 - 2*(m*(wi*xi)) + (m*m)*wi
        rl_sq_diff(xi, m);
        rl_dist(wi, xi * xi - 2real * (m * xi), m * m);
        rl_dist(wi, xi * xi, 2real * (m * xi));
        rl_assoc(wi, m, xi); rl_assoc(m, wi, xi); rl_assoc(wi, m, 1real); rl_assoc(wi, m * m, 1real);
        assert(wi * (2real * (m * xi)) == 2real * (wi * (m * xi))) by { rl_dist(wi, m * xi, m * xi); }
        assert(wi * (m * xi) == m * (wi * xi));
        rl_dist(m, a1, wi * xi);
        rl_dist(m * m, a0, wi);
    }
}

pub proof fn lemma_wdev2_nonneg(x: Seq<real>, w: Seq<real>, m: real, k: int)
    requires 0 <= k <= w.len(), x.len() == w.len(), forall|i: int| 0 <= i < w.len() ==> #[trigger] w[i] >= 0real
    ensures wdev2(x, w, m, k) >= 0real
    decreases k
{
    if k > 0 {
        lemma_wdev2_nonneg(x, w, m, k - 1);
        rl_sq_nonneg(w[k - 1], x[k - 1] - m);
    }
}

// the sum of the weights does not depend on the data
pub proof fn lemma_wpsum0_indep(x: Seq<real>, y: Seq<real>, w: Seq<real>, k: int)
    requires 0 <= k <= w.len(), x.len() == w.len(), y.len() == w.len()
    ensures wpsum(x, w, 0, k) == wpsum(y, w, 0, k)
    decreases k
{ if k > 0 { lemma_wpsum0_indep(x, y, w, k - 1); lemma_rpow_small(x[k - 1]); lemma_rpow_small(y[k - 1]); } }

pub proof fn lemma_wpsum0_nonneg(x: Seq<real>, w: Seq<real>, k: int)
    requires 0 <= k <= w.len(), x.len() == w.len(), forall|i: int| 0 <= i < w.len() ==> #[trigger] w[i] >= 0real
    ensures wpsum(x, w, 0, k) >= 0real, k > 0 && w[k - 1] > 0real ==> wpsum(x, w, 0, k) > 0real
    decreases k
{
    if k > 0 {
        lemma_wpsum0_nonneg(x, w, k - 1);
        lemma_rpow_small(x[k - 1]);
    }
}

// ---- the n-D array shim: iteration in logical order --------------------------------------------------------------
pub struct LogicalIter<'a, A> { pub items: Vec<&'a A> }
pub struct ZipIter<'a, A> { pub items: Vec<(&'a A, &'a A)> }
impl<A, D: Dimension> ArrayN<A, D> {
    #[verifier::external_body]
    pub fn iter<'a>(&'a self) -> (r: LogicalIter<'a, A>)
        ensures r.items@.len() == self@.len(), forall|k: int| 0 <= k < self@.len() ==> *#[trigger] r.items@[k] == self@[k]
    { unimplemented!() }
    #[verifier::external_body]
    pub fn is_empty(&self) -> (b: bool) ensures b == (self@.len() == 0)
    { unimplemented!() }
}
impl<'a, A> LogicalIter<'a, A> {
    // Iterator::zip: position by position, as long as both last
    #[verifier::external_body]
    pub fn zip(self, other: LogicalIter<'a, A>) -> (r: ZipIter<'a, A>)
        ensures
            r.items@.len() == (if self.items@.len() <= other.items@.len() { self.items@.len() } else { other.items@.len() }),
            forall|k: int| 0 <= k < r.items@.len() ==> #[trigger] r.items@[k] == (self.items@[k], other.items@[k]),
    { unimplemented!() }
}
// R10h: the iterator a `for` loop consumes, collected into the vector of its items (same items, same order)
#[verifier::external_body]
pub fn verif_hoist<'a, A>(z: ZipIter<'a, A>) -> (r: Vec<(&'a A, &'a A)>)
    ensures r@ == z.items@
{ unimplemented!() }

// R14: a vector consumed back to front
#[verifier::external_body]
pub fn verif_rev_vec<A>(v: Vec<A>) -> (r: Vec<A>)
    ensures r@ == v@.reverse()
{ unimplemented!() }

// Horner's scheme on coefficients c_j, c_j+1, ..: c_j + z * (c_j+1 + z * (...))
pub open spec fn horner_from(c: Seq<real>, j: int, z: real) -> real decreases c.len() - j { if j >= c.len() || j < 0 { 0real } else { c[j] + z * horner_from(c, j + 1, z) } }
// the polynomial it evaluates: sum_{i >= j} c_i z^(i-j)
pub open spec fn poly_from(c: Seq<real>, j: int, z: real, k: int) -> real decreases k - j { if k <= j || j < 0 { 0real } else { poly_from(c, j, z, k - 1) + c[k - 1] * rpow(z, (k - 1 - j) as nat) } }
pub proof fn lemma_horner_is_poly(c: Seq<real>, j: int, z: real)
    requires 0 <= j <= c.len()
    ensures horner_from(c, j, z) == poly_from(c, j, z, c.len() as int)
    decreases c.len() - j
{
    if j < c.len() {
        lemma_horner_is_poly(c, j + 1, z);
        lemma_poly_shift(c, j, z, c.len() as int);
    } else {
        assert(poly_from(c, j, z, c.len() as int) == 0real);
    }
}
// sum_{i in [j, k)} c_i z^(i-j) == c_j + z * sum_{i in [j+1, k)} c_i z^(i-j-1)
pub proof fn lemma_poly_shift(c: Seq<real>, j: int, z: real, k: int)
    requires 0 <= j < k <= c.len()
    ensures poly_from(c, j, z, k) == c[j] + z * poly_from(c, j + 1, z, k)
    decreases k - j
{
    if k == j + 1 {
        assert(poly_from(c, j, z, j) == 0real);
        assert(poly_from(c, j + 1, z, k) == 0real);
        assert(rpow(z, 0) == 1real);
        assert(poly_from(c, j, z, k) == poly_from(c, j, z, j) + c[j] * rpow(z, 0));
        rl_assoc(z, 0real, 1real);
    } else {
        lemma_poly_shift(c, j, z, k - 1);
        let e = (k - 1 - j) as nat;
        assert(rpow(z, e) == z * rpow(z, (e - 1) as nat));
        let a = poly_from(c, j + 1, z, k - 1); let ck = c[k - 1]; let pw = rpow(z, (e - 1) as nat);
        assert(poly_from(c, j + 1, z, k) == a + ck * pw);
        assert(poly_from(c, j, z, k) == poly_from(c, j, z, k - 1) + ck * (z * pw));
        rl_dist(z, a, ck * pw);
        rl_assoc(z, ck, pw); rl_assoc(ck, z, pw); rl_assoc(z, ck, 1real);
        assert(z * (ck * pw) == ck * (z * pw));
    }
}

// R2: assert! (mode N: the routine must not panic, so the condition is an obligation)
#[verifier::external_body]
pub fn verif_assert(c: bool) requires c { }

// ---- more of the n-D array shim (A-ND, A-REAL) ---------------------------------------------------------------------
pub assume_specification[ <i32 as From<u16>>::from ](x: u16) -> (r: i32) ensures r == x as i32;

// sum of x_i^p
pub open spec fn ppsum(x: Seq<real>, p: nat, k: int) -> real decreases k { if k <= 0 { 0real } else { ppsum(x, p, k - 1) + rpow(x[k - 1], p) } }
pub proof fn lemma_psum_pointwise(y: Seq<real>, x: Seq<real>, p: nat, k: int)
    requires 0 <= k <= x.len(), x.len() == y.len(), forall|i: int| 0 <= i < x.len() ==> #[trigger] y[i] == rpow(x[i], p)
    ensures psum(y, k) == ppsum(x, p, k)
    decreases k
{ if k > 0 { lemma_psum_pointwise(y, x, p, k - 1); } }
pub proof fn lemma_psum_is_ppsum1(x: Seq<real>, k: int)
    requires 0 <= k <= x.len()
    ensures psum(x, k) == ppsum(x, 1, k)
    decreases k
{ if k > 0 { lemma_psum_is_ppsum1(x, k - 1); lemma_rpow_small(x[k - 1]); } }
// sum (x_i - m)^p written over the shifted data y_i = x_i - m
pub proof fn lemma_devp_shift(x: Seq<real>, y: Seq<real>, m: real, p: nat, k: int)
    requires 0 <= k <= x.len(), x.len() == y.len(), forall|i: int| 0 <= i < x.len() ==> #[trigger] y[i] == x[i] - m
    ensures devp(x, m, p, k) == ppsum(y, p, k)
    decreases k
{ if k > 0 { lemma_devp_shift(x, y, m, p, k - 1); } }
// sum (x_i - m) == sum x_i - m k
pub proof fn lemma_shift_sum(x: Seq<real>, y: Seq<real>, m: real, k: int)
    requires 0 <= k <= x.len(), x.len() == y.len(), forall|i: int| 0 <= i < x.len() ==> #[trigger] y[i] == x[i] - m
    ensures psum(y, k) == psum(x, k) - m * (k as real)
    decreases k
{
    if k > 0 {
        lemma_shift_sum(x, y, m, k - 1);
        let k1 = (k - 1) as real;
        assert(k as real == k1 + 1real);
        rl_dist(m, k1, 1real);
        assert(m * (k as real) == m * k1 + m);
        assert(y[k - 1] == x[k - 1] - m);
    } else {
        assert(m * 0real == 0real) by(nonlinear_arith);
    }
}

pub proof fn lemma_devp_01(x: Seq<real>, m: real, k: int)
    requires 0 <= k <= x.len()
    ensures devp(x, m, 0, k) == k as real, devp(x, m, 1, k) == psum(x, k) - m * (k as real)
    decreases k
{
    if k > 0 {
        lemma_devp_01(x, m, k - 1);
        lemma_rpow_small(x[k - 1] - m);
        let k1 = (k - 1) as real;
        assert(k as real == k1 + 1real);
        rl_dist(m, k1, 1real);
        assert(m * (k as real) == m * k1 + m);
    } else {
        rl_zero(m);
    }
}
// the central moments of order 0 and 1 are 1 and 0
pub proof fn lemma_cmoment_01(x: Seq<real>)
    requires x.len() > 0
    ensures cmoment_def(x, 0) == 1real, cmoment_def(x, 1) == 0real
{
    let n = x.len() as int; let nr = n as real; let mu = mean_def(x);
    lemma_devp_01(x, mu, n);
    rl_div_mul(rsum(x), nr);
    rl_assoc(mu, nr, 1real);
    rl_zero(nr);
    assert(nr / nr == 1real) by(nonlinear_arith) requires nr != 0real;
}

impl<A, D: Dimension> ArrayN<A, D> {
    // ndarray's own `mean()`: `sum / len`, None for an empty array
    #[verifier::external_body]
    pub fn mean(&self) -> (r: Option<A>)
        where A: Float + FromPrimitive
        requires real_model::<A>()
        ensures self@.len() == 0 <==> r.is_none(), r matches Some(v) ==> v.val() == mean_def(vals(self@))
    { unimplemented!() }
    // ndarray's `sum()`: all elements added up starting from zero (exact arithmetic: order immaterial)
    #[verifier::external_body]
    pub fn sum(&self) -> (r: A)
        where A: Float
        requires real_model::<A>() || fin_model::<A>()
        ensures
            real_model::<A>() ==> r.val() == rsum(vals(self@)),
            // on ordinary numbers: the exact sum, again an ordinary number
            fin_model::<A>() && all_fin(self@) ==> r.fin() && r.val() == rsum(vals(self@)),
    { unimplemented!() }
    // `mapv(f)` / `map(f)`: a new array of the same shape, f applied to every element (each once)
    #[verifier::external_body]
    pub fn mapv<B, F: FnMut(A) -> B>(&self, f: F) -> (r: ArrayN<B, D>)
        where A: Copy
        requires forall|k: int| 0 <= k < self@.len() ==> #[trigger] call_requires(f, (self@[k],))
        ensures r@.len() == self@.len(), r.shape_spec() == self.shape_spec(), forall|k: int| 0 <= k < self@.len() ==> call_ensures(f, (self@[k],), #[trigger] r@[k])
    { unimplemented!() }
    #[verifier::external_body]
    pub fn map<'a, B, F: FnMut(&'a A) -> B>(&'a self, f: F) -> (r: ArrayN<B, D>)
        requires forall|k: int| 0 <= k < self@.len() ==> #[trigger] call_requires(f, (&self@[k],))
        ensures r@.len() == self@.len(), r.shape_spec() == self.shape_spec(), forall|k: int| 0 <= k < self@.len() ==> call_ensures(f, (&self@[k],), #[trigger] r@[k])
    { unimplemented!() }
}

// binomial coefficients (num_integer::IterBinomial)
pub open spec fn binom(n: nat, k: nat) -> nat decreases n { if k == 0 { 1 } else if n == 0 { 0 } else { binom((n - 1) as nat, (k - 1) as nat) + binom((n - 1) as nat, k) } }

// R15: the exclusive end of `a..=b`
pub trait VerifInclEnd: Sized {
    spec fn can_succ(self) -> bool;
    spec fn succ_spec(self) -> Self;
    fn succ(self) -> (r: Self) requires self.can_succ() ensures r == self.succ_spec();
}
impl VerifInclEnd for i32 {
    open spec fn can_succ(self) -> bool { self < i32::MAX }
    open spec fn succ_spec(self) -> Self { (self + 1) as i32 }
    fn succ(self) -> (r: Self) { self + 1 }
}
impl VerifInclEnd for u16 {
    open spec fn can_succ(self) -> bool { self < u16::MAX }
    open spec fn succ_spec(self) -> Self { (self + 1) as u16 }
    fn succ(self) -> (r: Self) { self + 1 }
}
pub fn verif_incl_end<T: VerifInclEnd>(b: T) -> (r: T) requires b.can_succ() ensures r == b.succ_spec() { b.succ() }
