// ---- data declarations of src/histogram/bins.rs (field names as in the source) -----------------
//@ifmode N
pub struct Edges<A: Ord> { pub edges: Vec<A> }
//@endif
//@ifmode P
// must-panic mode: the edge vector is a total-indexing stand-in for Vec (Vec's Index panics out of range)
pub struct TVec<A> { pub v: Vec<A> }
impl<A> TVec<A> {
    pub open spec fn view(&self) -> Seq<A> { self.v@ }
    #[verifier::external_body]
    pub fn len(&self) -> (n: usize) ensures n == self@.len() { self.v.len() }
}
impl<A> std::ops::Index<usize> for TVec<A> {
    type Output = A;
    #[verifier::external_body]
    fn index(&self, i: usize) -> (r: &A)
        ensures i < self@.len(), *r == self@[i as int]
    { &self.v[i] }
}
impl<A> vstd::std_specs::core::IndexSpecImpl<usize> for TVec<A> {
    open spec fn index_req(&self, i: &usize) -> bool { true }
}
pub struct Edges<A: Ord> { pub edges: TVec<A> }
//@endif
pub struct Bins<A: Ord> { pub edges: Edges<A> }

// representation invariant of Edges, established by the constructors only
pub open spec fn edges_wf<A: Ord>(e: Edges<A>) -> bool { strictly_sorted(e.edges@) }

// v lies in the left-closed, right-open bin i
pub open spec fn in_bin<A: Ord>(edges: Seq<A>, i: int, v: A) -> bool {
    0 <= i && i + 1 < edges.len() && le(edges[i], v) && lt(v, edges[i + 1])
}

pub open spec fn no_bin<A: Ord>(edges: Seq<A>, v: A) -> bool { forall|i: int| !in_bin(edges, i, v) }

// what the outcomes of a binary search over strictly sorted edges mean for bin membership (proved)
pub proof fn lemma_bins_from_search<A: Ord>(e: Seq<A>, v: A)
    requires lawful_ord::<A>(), strictly_sorted(e)
    ensures
        forall|i: int| 0 <= i && i + 1 < e.len() && eqv(#[trigger] e[i], v) ==> in_bin(e, i, v),
        (e.len() > 0 && eqv(e[e.len() - 1], v)) ==> no_bin(e, v),
        (forall|k: int| 0 <= k < e.len() ==> lt(v, #[trigger] e[k])) ==> no_bin(e, v),
        (forall|k: int| 0 <= k < e.len() ==> lt(#[trigger] e[k], v)) ==> no_bin(e, v),
        forall|j: int| 0 < j < e.len() && lt(e[j - 1], v) && lt(v, #[trigger] e[j]) ==> in_bin(e, j - 1, v),
{
    reveal(lawful_ord);
    reveal(strictly_sorted);
    assert forall|i: int| 0 <= i && i + 1 < e.len() && eqv(#[trigger] e[i], v) implies in_bin(e, i, v) by {
        assert(lt(e[i], e[i + 1]));
        if !lt(v, e[i + 1]) { assert(le(e[i + 1], v)); assert(le(v, e[i])); assert(le(e[i + 1], e[i])); }
    }
    if e.len() > 0 && eqv(e[e.len() - 1], v) {
        let n = e.len() as int;
        assert forall|i: int| !in_bin(e, i, v) by {
            if in_bin(e, i, v) {
                // v < e[i+1] <= e[n-1] ~ v
                if i + 1 < n - 1 { assert(lt(e[i + 1], e[n - 1])); }
                assert(le(e[i + 1], e[n - 1]));
                assert(le(e[n - 1], v));
                assert(le(e[i + 1], v));
            }
        }
    }
    if forall|k: int| 0 <= k < e.len() ==> lt(v, #[trigger] e[k]) {
        assert forall|i: int| !in_bin(e, i, v) by { if in_bin(e, i, v) { assert(lt(v, e[i])); } }
    }
    if forall|k: int| 0 <= k < e.len() ==> lt(#[trigger] e[k], v) {
        assert forall|i: int| !in_bin(e, i, v) by { if in_bin(e, i, v) { assert(lt(e[i + 1], v)); } }
    }
    assert forall|j: int| 0 < j < e.len() && lt(e[j - 1], v) && lt(v, #[trigger] e[j]) implies in_bin(e, j - 1, v) by { }
}

// a value lies in at most one bin (proved)
pub proof fn lemma_bin_unique<A: Ord>(e: Seq<A>, v: A, i: int, j: int)
    requires lawful_ord::<A>(), strictly_sorted(e), in_bin(e, i, v), in_bin(e, j, v)
    ensures i == j
{
    reveal(lawful_ord);
    reveal(strictly_sorted);
    if i < j {
        if i + 1 < j { assert(lt(e[i + 1], e[j])); }
        assert(le(e[i + 1], e[j]));
        assert(le(e[i + 1], v));
    } else if j < i {
        if j + 1 < i { assert(lt(e[j + 1], e[i])); }
        assert(le(e[j + 1], e[i]));
        assert(le(e[j + 1], v));
    }
}
