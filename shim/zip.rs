// ---- A-ND: `Zip::from(a).and(b).for_each(f)` (rewrite R11) ---------------------------------------------
// ndarray calls the closure exactly once for every index, with the two elements *at that index*, in an
// unspecified order (and panics unless the shapes agree).  Modelled as the vector of element pairs: its multiset
// is the multiset of index-aligned pairs.
pub open spec fn zip_seq<A>(a: Seq<A>, b: Seq<A>) -> Seq<(A, A)> { Seq::new(a.len(), |k: int| (a[k], b[k])) }

#[verifier::external_body]
pub fn verif_zip2<'a, A, D: Dimension>(a: &'a ArrayN<A, D>, b: &'a ArrayN<A, D>) -> (r: Vec<(&'a A, &'a A)>)
    requires a.shape_spec() == b.shape_spec()
    ensures
        a@.len() == b@.len(),
        r@.len() == a@.len(),
        pairs_of(r@).to_multiset() == zip_seq(a@, b@).to_multiset(),
{ unimplemented!() }

pub open spec fn pairs_of<'a, A>(r: Seq<(&'a A, &'a A)>) -> Seq<(A, A)> { Seq::new(r.len(), |k: int| (*r[k].0, *r[k].1)) }

// ---- errors of src/errors.rs used by the deviation family -----------------------------------------------
#[derive(Debug)]
pub struct ShapeMismatch { pub first_shape: Vec<usize>, pub second_shape: Vec<usize> }
#[derive(Debug)]
pub enum MultiInputError { EmptyInput, ShapeMismatch(ShapeMismatch) }
pub mod errors { pub use super::{MultiInputError, ShapeMismatch}; }

// `<[T]>::to_vec()` clones the slice (A-STD)
pub assume_specification<T: Clone>[ <[T]>::to_vec ](s: &[T]) -> (r: Vec<T>)
    ensures
        r@.len() == s@.len(),
        forall|k: int| 0 <= k < s@.len() ==> call_ensures(T::clone, (&s@[k],), #[trigger] r@[k]),
        lawful_clone::<T>() ==> r@ == s@;

// ---- A-NUM: num_traits::Signed as used by the distance routines (uninterpreted, deterministic arithmetic) ----
pub trait Signed: Sized + Sub<Output = Self> + Mul<Output = Self> {
    spec fn zero_spec() -> Self;
    fn zero() -> (r: Self) ensures r == Self::zero_spec();
    spec fn abs_spec(&self) -> Self;
    fn abs(&self) -> (r: Self) ensures r == self.abs_spec();
}
// the arithmetic of the element type follows its vstd operator specs and is defined for all operands
// (for machine integers: a "no overflow" hypothesis; BigInt, wrapping and float types satisfy it outright)
pub open spec fn arith_total<A: Signed + AddAssign>() -> bool {
    &&& A::obeys_sub_spec() && A::obeys_mul_spec() && A::obeys_add_assign_spec()
    &&& forall|a: A, b: A| #[trigger] a.sub_req(b)
    &&& forall|a: A, b: A| #[trigger] a.mul_req(b)
    &&& forall|a: A, b: A| #[trigger] a.add_assign_req(b)
}
