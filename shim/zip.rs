// ---- A-ND: `Zip::from(a).and(b).for_each(f)` (rewrite R11) ---------------------------------------------
// ndarray calls the closure exactly once for every index, with the two elements *at that index*, in an
// unspecified order (and panics unless the shapes agree).  Modelled as the vector of element pairs: its multiset
// is the multiset of index-aligned pairs.
pub open spec fn zip_seq<A>(a: Seq<A>, b: Seq<A>) -> Seq<(A, A)> { Seq::new(a.len(), |k: int| (a[k], b[k])) }

#[verifier::external_body]
pub fn verif_zip2<'a, A, D: Dimension>(a: &'a ArrayN<A, D>, b: &'a ArrayN<A, D>) -> (r: Vec<(&'a A, &'a A)>)
    requires a.shape_spec() == b.shape_spec()
    ensures
        a@.len() == b@.len(),
        r@.len() == a@.len(),
        pairs_of(r@).to_multiset() == zip_seq(a@, b@).to_multiset(),
{ unimplemented!() }

pub open spec fn pairs_of<'a, A>(r: Seq<(&'a A, &'a A)>) -> Seq<(A, A)> { Seq::new(r.len(), |k: int| (*r[k].0, *r[k].1)) }

// ---- errors of src/errors.rs used by the deviation family -----------------------------------------------
#[derive(Debug)]
pub struct ShapeMismatch { pub first_shape: Vec<usize>, pub second_shape: Vec<usize> }
#[derive(Debug)]
pub enum MultiInputError { EmptyInput, ShapeMismatch(ShapeMismatch) }
pub mod errors { pub use super::{MultiInputError, ShapeMismatch}; }
// R12b: `x.into()` with the target type equal to the source type (the guard macro of lib.rs converts a MultiInputError into the
// function's error type, which is MultiInputError itself): std's reflexive `impl<T> From<T> for T` returns its argument (A-STD).
// Verus cannot attach a specification to that blanket impl from outside std, so the call is spelled `verif_into_same()`
pub trait VerifIntoSame<U>: Sized { fn verif_into_same(self) -> (r: U); }
impl VerifIntoSame<MultiInputError> for MultiInputError {
    #[verifier::external_body]
    fn verif_into_same(self) -> (r: MultiInputError) ensures r == self
    { unimplemented!() }
}

// `<[T]>::to_vec()` clones the slice (A-STD)
pub assume_specification<T: Clone>[ <[T]>::to_vec ](s: &[T]) -> (r: Vec<T>)
    ensures
        r@.len() == s@.len(),
        forall|k: int| 0 <= k < s@.len() ==> call_ensures(T::clone, (&s@[k],), #[trigger] r@[k]),
        lawful_clone::<T>() ==> r@ == s@;

// ---- A-NUM: num_traits::Signed as used by the distance routines (uninterpreted, deterministic arithmetic) ----
pub trait Signed: Sized + Sub<Output = Self> + Mul<Output = Self> {
    spec fn zero_spec() -> Self;
    fn zero() -> (r: Self) ensures r == Self::zero_spec();
    spec fn abs_spec(&self) -> Self;
    fn abs(&self) -> (r: Self) ensures r == self.abs_spec();
}
// the arithmetic of the element type follows its vstd operator specs and is defined for all operands
// (for machine integers: a "no overflow" hypothesis; BigInt, wrapping and float types satisfy it outright)
pub open spec fn arith_total<A: Signed + AddAssign>() -> bool {
    &&& A::obeys_sub_spec() && A::obeys_mul_spec() && A::obeys_add_assign_spec()
    &&& forall|a: A, b: A| #[trigger] a.sub_req(b)
    &&& forall|a: A, b: A| #[trigger] a.mul_req(b)
    &&& forall|a: A, b: A| #[trigger] a.add_assign_req(b)
}

// ---- A-NUM: num_traits::ToPrimitive::to_f64 and the f64 operations of the mean-error wrappers (values uninterpreted) ----
pub trait ToPrimitive: Sized {
    spec fn to_f64_spec(&self) -> Option<f64>;
    fn to_f64(&self) -> (r: Option<f64>) ensures r == self.to_f64_spec();
}
// every value of the element type converts to f64 (true of the primitive numeric types; `expect` would panic otherwise)
pub open spec fn to_f64_total<A: ToPrimitive>() -> bool { forall|x: A| (#[trigger] x.to_f64_spec()) is Some }
pub uninterp spec fn usize_as_f64(n: usize) -> f64;
// R18: `self.len() as f64` (Verus has no `as` cast from usize to f64)
#[verifier::external_body]
pub fn verif_usize_as_f64(n: usize) -> (r: f64) ensures r == usize_as_f64(n)
{ unimplemented!() }
// R16: `a / b`, `a * b` on f64 (IEEE-754: defined for all operands; the values are not interpreted)
pub uninterp spec fn f64_div(a: f64, b: f64) -> f64;
pub uninterp spec fn f64_mul(a: f64, b: f64) -> f64;
#[verifier::external_body]
pub fn verif_f64_div(a: f64, b: f64) -> (r: f64) ensures r == f64_div(a, b)
{ unimplemented!() }
#[verifier::external_body]
pub fn verif_f64_mul(a: f64, b: f64) -> (r: f64) ensures r == f64_mul(a, b)
{ unimplemented!() }
pub uninterp spec fn f64_sqrt(a: f64) -> f64;
pub uninterp spec fn f64_log10(a: f64) -> f64;
pub assume_specification [f64::sqrt] (a: f64) -> (r: f64) ensures r == f64_sqrt(a);
pub assume_specification [f64::log10] (a: f64) -> (r: f64) ensures r == f64_log10(a);
