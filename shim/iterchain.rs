// ---- A-ITER: iterator adaptor chains, modelled as vectors of their items -----------------------------------------
// R17 spells `.iter()` as `.verif_iter()` so that arrays, vectors and slices share one (trait) method
pub struct SeqIter<X> { pub items: Vec<X> }
pub struct ZipIter2<X, Y> { pub items: Vec<(X, Y)> }
pub struct MapIter<B> { pub items: Vec<B> }
// what `.zip(..)` accepts: an iterator (already a SeqIter) or a collection that iterates over references to its elements
pub trait IntoSeqIter { type Item; spec fn seq_items(self) -> Seq<Self::Item>; }
impl<Y> IntoSeqIter for SeqIter<Y> { type Item = Y; open spec fn seq_items(self) -> Seq<Y> { self.items@ } }
pub trait VerifIter<'a> {
    type Item;
    spec fn items_spec(&'a self) -> Seq<Self::Item>;
    fn verif_iter(&'a self) -> (r: SeqIter<Self::Item>) ensures r.items@ == self.items_spec();
}
impl<'a, T: 'a> VerifIter<'a> for Vec<T> {
    type Item = &'a T;
    open spec fn items_spec(&'a self) -> Seq<&'a T> { Seq::new(self@.len(), |k: int| &self@[k]) }
    #[verifier::external_body]
    fn verif_iter(&'a self) -> (r: SeqIter<&'a T>) { unimplemented!() }
}
impl<X> SeqIter<X> {
    // Iterator::zip (with any IntoIterator): position by position, as long as both last
    #[verifier::external_body]
    pub fn zip<Z: IntoSeqIter>(self, other: Z) -> (r: ZipIter2<X, Z::Item>)
        ensures
            r.items@.len() == (if self.items@.len() <= other.seq_items().len() { self.items@.len() } else { other.seq_items().len() }),
            forall|k: int| 0 <= k < r.items@.len() ==> #[trigger] r.items@[k] == (self.items@[k], other.seq_items()[k]),
    { unimplemented!() }
    // Iterator::map with a one-argument function
    #[verifier::external_body]
    pub fn map<B, F: FnMut(X) -> B>(self, f: F) -> (r: MapIter<B>)
        requires forall|k: int| 0 <= k < self.items@.len() ==> #[trigger] call_requires(f, (self.items@[k],))
        ensures r.items@.len() == self.items@.len(), forall|k: int| 0 <= k < self.items@.len() ==> call_ensures(f, (self.items@[k],), #[trigger] r.items@[k])
    { unimplemented!() }
}
impl<X, Y> ZipIter2<X, Y> {
    // Iterator::map over pairs; the closure's tuple pattern `|(v, e)|` is written as two parameters (R9)
    #[verifier::external_body]
    pub fn map<B, F: FnMut(X, Y) -> B>(self, f: F) -> (r: MapIter<B>)
        requires forall|k: int| 0 <= k < self.items@.len() ==> #[trigger] call_requires(f, (self.items@[k].0, self.items@[k].1))
        ensures r.items@.len() == self.items@.len(), forall|k: int| 0 <= k < self.items@.len() ==> call_ensures(f, (self.items@[k].0, self.items@[k].1), #[trigger] r.items@[k])
    { unimplemented!() }
}
// `collect()` into a Vec, and into Option<Vec<_>> (None as soon as one item is None)
pub trait VerifCollect<R> { spec fn collect_spec(self, r: R) -> bool; fn collect(self) -> (r: R) where Self: Sized ensures self.collect_spec(r); }
impl<B> VerifCollect<Vec<B>> for MapIter<B> {
    open spec fn collect_spec(self, r: Vec<B>) -> bool { r@ == self.items@ }
    #[verifier::external_body]
    fn collect(self) -> (r: Vec<B>) { unimplemented!() }
}
impl<B> VerifCollect<Option<Vec<B>>> for MapIter<Option<B>> {
    open spec fn collect_spec(self, r: Option<Vec<B>>) -> bool {
        &&& r is None <==> exists|k: int| 0 <= k < self.items@.len() && (#[trigger] self.items@[k]) is None
        &&& r matches Some(v) ==> v@.len() == self.items@.len() && forall|k: int| 0 <= k < v@.len() ==> self.items@[k] == Some(#[trigger] v@[k])
    }
    #[verifier::external_body]
    fn collect(self) -> (r: Option<Vec<B>>) { unimplemented!() }
}
impl<'a, T: 'a> VerifIter<'a> for [T] {
    type Item = &'a T;
    open spec fn items_spec(&'a self) -> Seq<&'a T> { Seq::new(self@.len(), |k: int| &self@[k]) }
    #[verifier::external_body]
    fn verif_iter(&'a self) -> (r: SeqIter<&'a T>) { unimplemented!() }
}
impl<X> SeqIter<X> {
    // Iterator::rev
    #[verifier::external_body]
    pub fn rev(self) -> (r: SeqIter<X>)
        ensures r.items@ == self.items@.reverse()
    { unimplemented!() }
}
impl<X, Y> ZipIter2<X, Y> {
    // Iterator::fold over pairs, left to right; the closure's pattern `|acc, (x, y)|` is written with three parameters (R9)
    #[verifier::external_body]
    pub fn fold<B, F: FnMut(B, X, Y) -> B>(self, init: B, f: F) -> (r: B)
        requires forall|acc: B, k: int| 0 <= k < self.items@.len() ==> #[trigger] call_requires(f, (acc, self.items@[k].0, self.items@[k].1))
        ensures exists|accs: Seq<B>| #[trigger] accs.len() == self.items@.len() + 1 && accs[0] == init && accs[self.items@.len() as int] == r
            && forall|k: int| 0 <= k < self.items@.len() ==> call_ensures(f, (#[trigger] accs[k], self.items@[k].0, self.items@[k].1), accs[k + 1])
    { unimplemented!() }
}
