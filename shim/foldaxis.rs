// ---- A-ND (lanes, R19d): trusted logical contract of `fold_axis` on an n-dimensional array -----------------------------
// ndarray's `fold_axis(axis, init, f)` starts one accumulator per lane from `init` (`Array::from_elem`: clones of it, the last one
// possibly `init` itself) and threads each through the elements of its lane in axis order; across lanes the order is
// unspecified.  The result has one element per lane, at the logical position of the lane.
#[derive(Clone, Copy)]
pub struct Axis(pub usize);
pub trait RemoveAxis: Dimension { type Smaller: Dimension; }
impl<A, D: Dimension> ArrayN<A, D> {
    // the lanes along `axis`, indexed by the logical position of the lane in the (n-1)-dimensional result; each in axis order
    pub uninterp spec fn lanes(&self, axis: int) -> Seq<Seq<A>>;
    #[verifier::external_body]
    pub fn verif_ref(&self) -> (r: &Self) ensures r == self
    { unimplemented!() }
    #[verifier::external_body]
    pub fn verif_lane_items(&self, axis: Axis, j: usize) -> (r: Vec<&A>)
        requires j < self.lanes(axis.0 as int).len()
        ensures r@.len() == self.lanes(axis.0 as int)[j as int].len(), forall|k: int| 0 <= k < r@.len() ==> *(#[trigger] r@[k]) == self.lanes(axis.0 as int)[j as int][k]
    { unimplemented!() }
}
pub open spec fn visits(ord: Seq<usize>, j: int) -> bool { exists|k: int| 0 <= k < ord.len() && #[trigger] ord[k] == j }
#[verifier::external_body]
pub fn verif_lane_order1<A, D: Dimension>(x: &ArrayN<A, D>, ax: Axis) -> (r: Vec<usize>)
    ensures
        r@.len() == x.lanes(ax.0 as int).len(),
        forall|k: int| 0 <= k < r@.len() ==> #[trigger] r@[k] < r@.len(),
        forall|j: int| 0 <= j < r@.len() ==> #[trigger] visits(r@, j),
        forall|k1: int, k2: int| 0 <= k1 < k2 < r@.len() ==> r@[k1] != r@[k2],
{ unimplemented!() }
#[verifier::external_body]
pub fn verif_init_copy<B: Clone>(x: &B) -> (r: B)
    ensures is_init_copy(*x, r)
{ unimplemented!() }
pub open spec fn is_init_copy<B: Clone>(x: B, r: B) -> bool { cloned(x, r) || r == x }
// the result array under construction: one slot per lane
#[verifier::external_body]
#[verifier::reject_recursive_types(B)]
pub struct LaneResults<B> { _b: core::marker::PhantomData<B> }
impl<B> LaneResults<B> {
    pub uninterp spec fn slots(&self) -> Seq<Option<B>>;
    #[verifier::external_body]
    pub fn verif_put(&mut self, j: usize, v: B)
        requires j < old(self).slots().len()
        ensures final(self).slots() == old(self).slots().update(j as int, Some(v))
    { unimplemented!() }
    #[verifier::external_body]
    pub fn verif_finish<D2: Dimension>(self) -> (r: ArrayN<B, D2>)
        requires forall|j: int| 0 <= j < self.slots().len() ==> (#[trigger] self.slots()[j]) is Some
        ensures r@.len() == self.slots().len(), forall|j: int| 0 <= j < r@.len() ==> self.slots()[j] == Some(#[trigger] r@[j])
    { unimplemented!() }
}
#[verifier::external_body]
pub fn verif_lane_results<A, D: Dimension, B>(x: &ArrayN<A, D>, ax: Axis) -> (r: LaneResults<B>)
    ensures r.slots().len() == x.lanes(ax.0 as int).len(), forall|j: int| 0 <= j < r.slots().len() ==> (#[trigger] r.slots()[j]) is None
{ unimplemented!() }

// one step of the per-lane skip-NaN fold: a missing element clones the accumulator, any other is handed to f with the accumulator
pub open spec fn skip_step_ref<A: MaybeNan, B: Clone, F: FnMut(&B, &A::NotNan) -> B>(f: F, acc: B, e: A, out: B) -> bool {
    if e.is_nan_spec() { cloned(acc, out) } else { exists|x: &A::NotNan| *x == e.not_nan_spec() && call_ensures(f, (&acc, x), out) }
}
pub open spec fn lane_fold<A: MaybeNan, B: Clone, F: FnMut(&B, &A::NotNan) -> B>(f: F, init: B, lane: Seq<A>, out: B) -> bool {
    exists|accs: Seq<B>| #![auto] accs.len() == lane.len() + 1 && is_init_copy(init, accs[0]) && accs[lane.len() as int] == out
        && forall|k: int| 0 <= k < lane.len() ==> skip_step_ref::<A, B, F>(f, accs[k], lane[k], accs[k + 1])
}
