// ---- A-ND (n-D): trusted logical contract of an n-dimensional ndarray ---------------------------
// `ArrayN<A, D>` stands for `ArrayBase<S, D>` of any storage, layout and ownership.  Only the sequence of
// elements in *logical* (row-major index) order and the index pattern of each position are visible.
pub trait Dimension: Sized {
    type Pattern;
    spec fn is_zeros(&self) -> bool;
    spec fn zero_pattern() -> Self::Pattern;
    // `D::zeros(ndim)`: the all-zero index
    fn zeros(ndim: usize) -> (r: Self)
        ensures r.is_zeros();
    fn into_pattern(self) -> (p: Self::Pattern)
        ensures self.is_zeros() ==> p == Self::zero_pattern();
}

pub struct ArrayN<A, D> { pub elems: Vec<A>, pub _d: core::marker::PhantomData<D> }

impl<A, D: Dimension> ArrayN<A, D> {
    pub open spec fn view(&self) -> Seq<A> { self.elems@ }
    // index pattern of the k-th element in logical order (injective; the first one is the all-zero index)
    pub uninterp spec fn idx(&self, k: int) -> D::Pattern;

    #[verifier::external_body]
    pub fn len(&self) -> (n: usize) ensures n == self@.len()
    { unimplemented!() }

    #[verifier::external_body]
    pub fn ndim(&self) -> (n: usize)
    { unimplemented!() }

    // layout-revealing methods: deliberately weak contracts (memory order is *some* permutation of the logical order;
    // whether the array is contiguous is unknown), so that code which starts to depend on layout fails its postcondition
    #[verifier::external_body]
    pub fn as_slice(&self) -> (r: Option<&[A]>)
        ensures r matches Some(s) ==> s@ == self@
    { unimplemented!() }
    #[verifier::external_body]
    pub fn as_slice_memory_order(&self) -> (r: Option<&[A]>)
        ensures r matches Some(s) ==> s@.to_multiset() == self@.to_multiset()
    { unimplemented!() }
    #[verifier::external_body]
    pub fn is_standard_layout(&self) -> (b: bool)
    { unimplemented!() }

    // the shape (axis lengths); arrays of equal shape have equally many elements
    pub uninterp spec fn shape_spec(&self) -> Seq<usize>;
    #[verifier::external_body]
    pub fn shape(&self) -> (r: &[usize])
        ensures r@ == self.shape_spec()
    { unimplemented!() }

    #[verifier::external_body]
    pub fn first(&self) -> (r: Option<&A>)
        ensures
            self@.len() == 0 <==> r.is_none(),
            r matches Some(x) ==> *x == self@[0] && self.idx(0) == D::zero_pattern(),
    { unimplemented!() }

    // `indexed_iter()` yields every (index, element) pair exactly once, in logical order.  It is modelled as
    // the vector of those pairs so that Verus' own Vec iteration protocol applies to the `for` loop.
    #[verifier::external_body]
    pub fn indexed_iter(&self) -> (r: Vec<(D::Pattern, &A)>)
        ensures
            r@.len() == self@.len(),
            forall|k: int| 0 <= k < self@.len() ==> #[trigger] r@[k] == (self.idx(k), &self@[k]),
    { unimplemented!() }

    // `fold(init, f)`: ndarray applies f to every element exactly once, in an unspecified order
    #[verifier::external_body]
    pub fn fold<'a, F, B>(&'a self, init: B, f: F) -> (r: B)
        where F: FnMut(B, &'a A) -> B
        requires forall|acc: B, k: int| 0 <= k < self@.len() ==> call_requires(f, (acc, &#[trigger] self@[k])),
        ensures exists|ord: Seq<int>, accs: Seq<B>| fold_trace(self@, f, init, ord, accs, r),
    { unimplemented!() }
}

pub open spec fn is_visit_order(ord: Seq<int>, n: int) -> bool {
    &&& ord.len() == n
    &&& forall|j: int| 0 <= j < n ==> 0 <= #[trigger] ord[j] < n
    &&& forall|k: int| 0 <= k < n ==> #[trigger] ord.contains(k)
}
pub open spec fn fold_trace<'a, A: 'a, B, F: FnMut(B, &'a A) -> B>(s: Seq<A>, f: F, init: B, ord: Seq<int>, accs: Seq<B>, r: B) -> bool {
    &&& is_visit_order(ord, s.len() as int)
    &&& accs.len() == s.len() + 1
    &&& accs[0] == init
    &&& accs[s.len() as int] == r
    &&& forall|k: int| 0 <= k < s.len() ==> call_ensures(f, (#[trigger] accs[k], &s[ord[k]]), accs[k + 1])
}

// A-ND: the number of elements is the product of the shape, so arrays of equal shape have equally many elements
#[verifier::external_body]
pub proof fn axiom_len_of_shape<A, D: Dimension>(a: &ArrayN<A, D>, b: &ArrayN<A, D>)
    requires a.shape_spec() == b.shape_spec()
    ensures a@.len() == b@.len()
{ }

// ---- errors of src/errors.rs used by the min/max family ------------------------------------------------
// Verus does not connect `?` with a user `From` conversion, so the unit struct `EmptyInput` of the source is
// modelled as the value it converts to (`impl From<EmptyInput> for MinMaxError`, errors.rs:36-40, maps it to
// `MinMaxError::EmptyInput`; that mapping is exercised on the real crate by enum:errors and enum:minmax).
#[derive(Debug)]
pub enum MinMaxError { EmptyInput, UndefinedOrder }
use MinMaxError::UndefinedOrder;
#[allow(non_upper_case_globals)]
pub const EmptyInput: MinMaxError = MinMaxError::EmptyInput;

// derived PartialEq of the field-less enum core::cmp::Ordering is structural equality (A-STD)
pub assume_specification[ <Ordering as PartialEq>::eq ](a: &Ordering, b: &Ordering) -> (r: bool)
    ensures r == (*a == *b);

// ---- float-like partial orders: incomparable exactly when a NaN is involved, lawful otherwise ---------
pub open spec fn pcmp<A: PartialOrd>(a: A, b: A) -> Option<Ordering> { a.partial_cmp_spec(&b) }
pub open spec fn is_nan<A: PartialOrd>(a: A) -> bool { pcmp(a, a).is_none() }
pub open spec fn ple<A: PartialOrd>(a: A, b: A) -> bool { pcmp(a, b) == Some(Ordering::Less) || pcmp(a, b) == Some(Ordering::Equal) }
pub open spec fn pge<A: PartialOrd>(a: A, b: A) -> bool { pcmp(a, b) == Some(Ordering::Greater) || pcmp(a, b) == Some(Ordering::Equal) }

pub open spec fn float_like_laws<A: PartialOrd>() -> bool {
    &&& A::obeys_partial_cmp_spec()
    &&& forall|a: A, b: A| (#[trigger] pcmp(a, b)).is_none() <==> (is_nan(a) || is_nan(b))
    &&& forall|a: A| !is_nan(a) ==> #[trigger] pcmp(a, a) == Some(Ordering::Equal)
    &&& forall|a: A, b: A| (#[trigger] pcmp(a, b) == Some(Ordering::Less)) <==> (pcmp(b, a) == Some(Ordering::Greater))
    &&& forall|a: A, b: A| (#[trigger] pcmp(a, b) == Some(Ordering::Equal)) ==> (pcmp(b, a) == Some(Ordering::Equal))
    &&& forall|a: A, b: A, c: A| #[trigger] ple(a, b) && #[trigger] ple(b, c) ==> ple(a, c)
}
#[verifier::opaque]
pub open spec fn float_like<A: PartialOrd>() -> bool { float_like_laws::<A>() }

// non-vacuity: the laws hold for the machine integers (no NaN at all)
pub proof fn lemma_float_like_i32() ensures float_like::<i32>() { reveal(float_like); }
pub proof fn lemma_float_like_u64() ensures float_like::<u64>() { reveal(float_like); }

pub open spec fn has_nan<A: PartialOrd>(s: Seq<A>) -> bool { exists|k: int| 0 <= k < s.len() && is_nan(#[trigger] s[k]) }
pub open spec fn is_min_at<A: PartialOrd>(s: Seq<A>, k: int) -> bool { 0 <= k < s.len() && forall|m: int| 0 <= m < s.len() ==> ple(s[k], #[trigger] s[m]) }
pub open spec fn is_max_le_at<A: PartialOrd>(s: Seq<A>, k: int) -> bool { 0 <= k < s.len() && forall|m: int| 0 <= m < s.len() ==> ple(#[trigger] s[m], s[k]) }
pub open spec fn is_max_at<A: PartialOrd>(s: Seq<A>, k: int) -> bool { 0 <= k < s.len() && forall|m: int| 0 <= m < s.len() ==> pge(s[k], #[trigger] s[m]) }
