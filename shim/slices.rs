// ---- A-STD: contracts of the std slice functions used by sort.rs ------------------------------
// both predicates are opaque: their pairwise quantifier is instantiated only inside the lemmas below
#[verifier::opaque]
pub open spec fn strictly_increasing(s: Seq<usize>) -> bool {
    forall|a: int, b: int| 0 <= a < b < s.len() ==> s[a] < s[b]
}
#[verifier::opaque]
pub open spec fn strictly_sorted<T: Ord>(s: Seq<T>) -> bool {
    forall|a: int, b: int| 0 <= a < b < s.len() ==> lt(s[a], s[b])
}

pub assume_specification<T: Ord>[ <[T]>::binary_search ](s: &[T], x: &T) -> (r: Result<usize, usize>)
    ensures
        match r { Ok(i) => i < s@.len(), Err(i) => i <= s@.len() },
        strictly_sorted(s@) ==> match r {
            Ok(i) => s@[i as int].cmp_spec(x) == Ordering::Equal,
            Err(i) => (forall|k: int| 0 <= k < i ==> lt(#[trigger] s@[k], *x))
                && (forall|k: int| i <= k < s@.len() ==> lt(*x, #[trigger] s@[k])),
        };

pub proof fn lemma_si_pair(s: Seq<usize>, a: int, b: int)
    requires strictly_increasing(s), 0 <= a < b < s.len()
    ensures s[a] < s[b]
{ reveal(strictly_increasing); }

pub proof fn lemma_si_sorted(s: Seq<usize>)
    requires strictly_increasing(s)
    ensures strictly_sorted(s)
{ reveal(strictly_increasing); reveal(strictly_sorted); }

pub proof fn lemma_si_sub(s: Seq<usize>, a: int, b: int)
    requires strictly_increasing(s), 0 <= a <= b <= s.len()
    ensures strictly_increasing(s.subrange(a, b))
{ reveal(strictly_increasing); }

pub proof fn lemma_si_shift(s: Seq<usize>, t: Seq<usize>, e: int)
    requires strictly_increasing(s), t.len() == s.len(), forall|k: int| 0 <= k < s.len() ==> #[trigger] t[k] == s[k] - e
    ensures strictly_increasing(t)
{ reveal(strictly_increasing); }

pub proof fn lemma_si_lower(s: Seq<usize>, k: int)
    requires strictly_increasing(s), 0 <= k < s.len()
    ensures s[k] >= k
    decreases k
{
    if k > 0 { lemma_si_lower(s, k - 1); lemma_si_pair(s, k - 1, k); }
}

// <[T]>::split_at_mut: vstd's own specification (std_specs/slice.rs) is used.

// R3: `X.iter_mut().for_each(|x| *x -= E)`
#[verifier::external_body]
pub fn verif_sub_assign_all(x: &mut [usize], e: usize)
//@ifmode N
    requires forall|k: int| 0 <= k < old(x)@.len() ==> old(x)@[k] >= e
//@endif
    ensures
        final(x)@.len() == old(x)@.len(),
        forall|k: int| 0 <= k < old(x)@.len() ==> #[trigger] final(x)@[k] == old(x)@[k] - e,
{ unimplemented!() }

// ---- A-STD: sort_unstable / dedup (generic, real semantics) ---------------------------------------
pub open spec fn sorted_usize(s: Seq<usize>) -> bool {
    forall|a: int, b: int| 0 <= a <= b < s.len() ==> s[a] <= s[b]
}

pub assume_specification<T: Ord>[ <[T]>::sort_unstable ](s: &mut [T])
    ensures
        final(s)@.len() == old(s)@.len(),
        final(s)@.to_multiset() == old(s)@.to_multiset(),
        forall|a: int, b: int| 0 <= a <= b < final(s)@.len() ==> le(#[trigger] final(s)@[a], #[trigger] final(s)@[b]);

pub open spec fn structural_eq<T: PartialEq>() -> bool {
    &&& T::obeys_eq_spec()
    &&& forall|a: T, b: T| #[trigger] a.eq_spec(&b) <==> a == b
}

// what Vec::dedup does: remove consecutive repeated elements
pub open spec fn dedup_spec<T>(s: Seq<T>) -> Seq<T>
    decreases s.len()
{
    if s.len() <= 1 { s }
    else if s[s.len() - 2] == s[s.len() - 1] { dedup_spec(s.drop_last()) }
    else { dedup_spec(s.drop_last()).push(s.last()) }
}

pub assume_specification<T: PartialEq, A: Allocator>[ Vec::<T, A>::dedup ](v: &mut Vec<T, A>)
    ensures structural_eq::<T>() ==> final(v)@ == dedup_spec(old(v)@);

pub proof fn lemma_structural_eq_usize() ensures structural_eq::<usize>() {}

// proved: on a sorted index vector dedup yields a strictly increasing vector with the same elements
pub proof fn lemma_dedup_sorted(s: Seq<usize>)
    requires sorted_usize(s)
    ensures
        strictly_increasing(dedup_spec(s)),
        forall|x: usize| s.contains(x) <==> dedup_spec(s).contains(x),
        s.len() > 0 ==> dedup_spec(s).len() > 0 && dedup_spec(s).last() == s.last(),
    decreases s.len()
{
    reveal(strictly_increasing);
    if s.len() <= 1 {
    } else {
        let t = s.drop_last();
        let x = s.last();
        let y = t.last();
        assert(y == s[s.len() - 2]);
        assert(sorted_usize(t)) by {
            assert forall|a: int, b: int| 0 <= a <= b < t.len() implies t[a] <= t[b] by { assert(t[a] == s[a] && t[b] == s[b]); }
        }
        lemma_dedup_sorted(t);
        let d = dedup_spec(t);
        assert(s =~= t.push(x));
        assert forall|z: usize| s.contains(z) <==> (t.contains(z) || z == x) by {
            if s.contains(z) {
                let j = choose|j: int| 0 <= j < s.len() && s[j] == z;
                if j < t.len() { assert(t[j] == z); }
            }
            if t.contains(z) {
                let j = choose|j: int| 0 <= j < t.len() && t[j] == z;
                assert(s[j] == z);
            }
            if z == x { assert(s[s.len() - 1] == z); }
        }
        assert(t.contains(y)) by { assert(t[t.len() - 1] == y); }
        if y == x {
            assert(dedup_spec(s) == d);
        } else {
            assert(s[s.len() - 2] <= s[s.len() - 1]);
            assert(y < x);
            let e = d.push(x);
            assert(dedup_spec(s) == e);
            assert forall|k: int| 0 <= k < d.len() implies d[k] <= y by {
                assert(d.contains(d[k]));
                assert(t.contains(d[k]));
                let j = choose|j: int| 0 <= j < t.len() && t[j] == d[k];
                assert(t[j] <= t[t.len() - 1]);
            }
            assert forall|a: int, b: int| 0 <= a < b < e.len() implies e[a] < e[b] by {
                if b < d.len() { assert(e[a] == d[a] && e[b] == d[b]); } else { assert(e[a] == d[a]); assert(e[b] == x); }
            }
            assert forall|z: usize| s.contains(z) <==> e.contains(z) by {
                if e.contains(z) {
                    let j = choose|j: int| 0 <= j < e.len() && e[j] == z;
                    if j < d.len() { assert(d[j] == z); assert(d.contains(z)); }
                }
                if d.contains(z) {
                    let j = choose|j: int| 0 <= j < d.len() && d[j] == z;
                    assert(e[j] == z);
                }
                if z == x { assert(e[e.len() - 1] == z); }
            }
        }
    }
}

pub proof fn lemma_perm_contains_iff<T>(s: Seq<T>, t: Seq<T>, x: T)
    requires perm(s, t)
    ensures s.contains(x) <==> t.contains(x)
{
    broadcast use vstd::seq_lib::group_to_multiset_ensures;
    assert(s.to_multiset().count(x) == t.to_multiset().count(x));
}

// `<[T]>::to_owned()` clones the slice into a Vec (only used on index slices: usize clones are equal)
pub assume_specification<T: Clone>[ <[T] as std::borrow::ToOwned>::to_owned ](s: &[T]) -> (r: Vec<T>)
    ensures
        r@.len() == s@.len(),
        forall|k: int| 0 <= k < s@.len() ==> call_ensures(T::clone, (&s@[k],), #[trigger] r@[k]),
        lawful_clone::<T>() ==> r@ == s@;   // consequence of the line above by extensionality

pub proof fn lemma_lawful_clone_usize() ensures lawful_clone::<usize>() {}


// Ord and PartialEq agree with structural equality (holds for the integer types and N64)
pub open spec fn eq_is_ord_equal<A: Ord>() -> bool {
    &&& structural_eq::<A>()
    &&& forall|a: A, b: A| #[trigger] eqv(a, b) <==> a == b
}

pub proof fn lemma_ss_pair<A: Ord>(s: Seq<A>, a: int, b: int)
    requires strictly_sorted(s), 0 <= a < b < s.len()
    ensures lt(s[a], s[b])
{ reveal(strictly_sorted); }

// proved (generic): on a sorted vector dedup yields a strictly sorted vector with the same elements
pub proof fn lemma_dedup_sorted_ord<A: Ord>(s: Seq<A>)
    requires lawful_ord::<A>(), eq_is_ord_equal::<A>(), sorted_le(s)
    ensures
        strictly_sorted(dedup_spec(s)),
        forall|x: A| s.contains(x) <==> dedup_spec(s).contains(x),
        s.len() > 0 ==> dedup_spec(s).len() > 0 && dedup_spec(s).last() == s.last(),
    decreases s.len()
{
    reveal(strictly_sorted);
    reveal(lawful_ord);
    if s.len() <= 1 {
    } else {
        let t = s.drop_last();
        let x = s.last();
        let y = t.last();
        assert(y == s[s.len() - 2]);
        assert(sorted_le(t)) by {
            assert forall|a: int, b: int| 0 <= a <= b < t.len() implies le(#[trigger] t[a], #[trigger] t[b]) by { assert(t[a] == s[a] && t[b] == s[b]); }
        }
        lemma_dedup_sorted_ord(t);
        let d = dedup_spec(t);
        assert(s =~= t.push(x));
        assert forall|z: A| s.contains(z) <==> (t.contains(z) || z == x) by {
            if s.contains(z) {
                let j = choose|j: int| 0 <= j < s.len() && s[j] == z;
                if j < t.len() { assert(t[j] == z); }
            }
            if t.contains(z) {
                let j = choose|j: int| 0 <= j < t.len() && t[j] == z;
                assert(s[j] == z);
            }
            if z == x { assert(s[s.len() - 1] == z); }
        }
        assert(t.contains(y)) by { assert(t[t.len() - 1] == y); }
        if y == x {
            assert(dedup_spec(s) == d);
        } else {
            assert(le(s[s.len() - 2], s[s.len() - 1]));
            assert(!eqv(y, x));
            assert(lt(y, x));
            let e = d.push(x);
            assert(dedup_spec(s) == e);
            assert forall|k: int| 0 <= k < d.len() implies le(#[trigger] d[k], y) by {
                assert(d.contains(d[k]));
                assert(t.contains(d[k]));
                let j = choose|j: int| 0 <= j < t.len() && t[j] == d[k];
                assert(le(t[j], t[t.len() - 1]));
            }
            assert forall|a: int, b: int| 0 <= a < b < e.len() implies lt(e[a], e[b]) by {
                if b < d.len() {
                    assert(e[a] == d[a] && e[b] == d[b]);
                    assert(lt(d[a], d[b]));
                } else {
                    assert(e[a] == d[a]); assert(e[b] == x); assert(le(d[a], y));
                    if !lt(d[a], x) { assert(le(x, d[a])); assert(le(x, y)); }
                }
            }
            assert forall|z: A| s.contains(z) <==> e.contains(z) by {
                if e.contains(z) {
                    let j = choose|j: int| 0 <= j < e.len() && e[j] == z;
                    if j < d.len() { assert(d[j] == z); assert(d.contains(z)); }
                }
                if d.contains(z) {
                    let j = choose|j: int| 0 <= j < d.len() && d[j] == z;
                    assert(e[j] == z);
                }
                if z == x { assert(e[e.len() - 1] == z); }
            }
        }
    }
}

// ---- sorting / dedup leave a strictly sorted vector unchanged (proved) ------------------------------
pub proof fn lemma_multiset_drop_last<A>(s: Seq<A>)
    requires s.len() > 0
    ensures s.to_multiset() == s.drop_last().to_multiset().insert(s.last())
{
    broadcast use vstd::seq_lib::group_to_multiset_ensures;
    assert(s =~= s.drop_last().push(s.last()));
}

pub proof fn lemma_sorted_perm_unique<A: Ord>(v: Seq<A>, t: Seq<A>)
    requires lawful_ord::<A>(), eq_is_ord_equal::<A>(), strictly_sorted(v), sorted_le(t), perm(t, v)
    ensures t == v
    decreases v.len()
{
    lemma_perm_len(t, v);
    if v.len() == 0 {
        assert(t =~= v);
    } else {
        reveal(lawful_ord);
        reveal(strictly_sorted);
        let n = v.len() as int;
        // the last elements coincide: each is >= the other
        lemma_perm_contains(t, v, n - 1);
        let j = choose|j: int| 0 <= j < t.len() && t[j] == v[n - 1];
        assert(le(t[j], t[n - 1]));
        lemma_perm_contains(v, t, n - 1);
        let i = choose|i: int| 0 <= i < v.len() && v[i] == t[n - 1];
        if i < n - 1 { assert(lt(v[i], v[n - 1])); }
        assert(le(t[n - 1], v[n - 1]));
        assert(le(v[n - 1], t[n - 1]));
        assert(eqv(v[n - 1], t[n - 1]));
        assert(v[n - 1] == t[n - 1]);
        // remove them and recurse
        lemma_multiset_drop_last(v);
        lemma_multiset_drop_last(t);
        let (v2, t2) = (v.drop_last(), t.drop_last());
        assert(v2.to_multiset() =~= v.to_multiset().remove(v.last())) by { assert(v2.to_multiset().insert(v.last()).remove(v.last()) =~= v2.to_multiset()); }
        assert(t2.to_multiset() =~= t.to_multiset().remove(t.last())) by { assert(t2.to_multiset().insert(t.last()).remove(t.last()) =~= t2.to_multiset()); }
        assert(perm(t2, v2));
        assert(strictly_sorted(v2)) by { assert forall|a: int, b: int| 0 <= a < b < v2.len() implies lt(v2[a], v2[b]) by { assert(v2[a] == v[a] && v2[b] == v[b]); } }
        assert(sorted_le(t2)) by { assert forall|a: int, b: int| 0 <= a <= b < t2.len() implies le(#[trigger] t2[a], #[trigger] t2[b]) by { assert(t2[a] == t[a] && t2[b] == t[b]); } }
        lemma_sorted_perm_unique(v2, t2);
        assert(t =~= t2.push(t.last()));
        assert(v =~= v2.push(v.last()));
    }
}

pub proof fn lemma_dedup_strict<A: Ord>(s: Seq<A>)
    requires lawful_ord::<A>(), eq_is_ord_equal::<A>(), strictly_sorted(s)
    ensures dedup_spec(s) == s
    decreases s.len()
{
    reveal(lawful_ord);
    reveal(strictly_sorted);
    if s.len() <= 1 {
    } else {
        let t = s.drop_last();
        assert(strictly_sorted(t)) by { assert forall|a: int, b: int| 0 <= a < b < t.len() implies lt(t[a], t[b]) by { assert(t[a] == s[a] && t[b] == s[b]); } }
        lemma_dedup_strict(t);
        assert(lt(s[s.len() - 2], s[s.len() - 1]));
        assert(!eqv(s[s.len() - 2], s[s.len() - 1]));
        assert(s[s.len() - 2] != s[s.len() - 1]);
        assert(s =~= t.push(s.last()));
    }
}
