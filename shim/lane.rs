// ---- A-ND: trusted logical contract of a 1-D ndarray (any storage, any stride/offset) --------
// `Lane<A>` stands for `ArrayBase<S, Ix1>` (S: Data/DataMut) and, behind `&mut`, for `ArrayViewMut1<A>`.
// Only the logical element sequence is visible; nothing here mentions strides.

pub struct Lane<A> { pub v: Vec<A> }

impl<A> Lane<A> {
    pub open spec fn view(&self) -> Seq<A> { self.v@ }

    #[verifier::external_body]
    pub fn len(&self) -> (n: usize)
        ensures n == self@.len()
    { self.v.len() }

    #[verifier::external_body]
    pub fn is_empty(&self) -> (b: bool)
        ensures b == (self@.len() == 0)
    { self.v.is_empty() }

//@ifmode N
    #[verifier::external_body]
    pub fn swap_raw(&mut self, a: usize, b: usize)
        requires a < old(self)@.len(), b < old(self)@.len()
        ensures final(self)@ == old(self)@.update(a as int, old(self)@[b as int]).update(b as int, old(self)@[a as int])
    { self.v.swap(a, b) }

    pub fn swap(&mut self, a: usize, b: usize)
        requires a < old(self)@.len(), b < old(self)@.len()
        ensures final(self)@ == old(self)@.update(a as int, old(self)@[b as int]).update(b as int, old(self)@[a as int]),
            final(self)@.to_multiset() == old(self)@.to_multiset(),
            final(self)@.len() == old(self)@.len(),
    { self.swap_raw(a, b); proof { lemma_swap_multiset(old(self)@, a as int, b as int); } }

    #[verifier::external_body]
    pub fn slice_axis_mut(&mut self, axis: Axis, s: Slice) -> (r: &mut Lane<A>)
        requires axis.0 == 0, s.start <= slice_end(s, old(self)@.len() as int) <= old(self)@.len()
        ensures
            r@ == old(self)@.subrange(s.start as int, slice_end(s, old(self)@.len() as int)),
            final(r)@.len() == r@.len(),
            final(self)@.len() == old(self)@.len(),
            final(self)@.subrange(s.start as int, slice_end(s, old(self)@.len() as int)) == final(r)@,
            forall|k: int| 0 <= k < s.start || slice_end(s, old(self)@.len() as int) <= k < old(self)@.len() ==> #[trigger] final(self)@[k] == old(self)@[k],
    { unimplemented!() }
//@endif
//@ifmode P
    // must-panic mode: the primitives are total; their postconditions state what must have been
    // true if they returned (ndarray panics otherwise).
    #[verifier::external_body]
    pub fn swap_raw(&mut self, a: usize, b: usize)
        ensures a < old(self)@.len(), b < old(self)@.len(),
            final(self)@ == old(self)@.update(a as int, old(self)@[b as int]).update(b as int, old(self)@[a as int]),
    { self.v.swap(a, b) }

    pub fn swap(&mut self, a: usize, b: usize)
        ensures a < old(self)@.len(), b < old(self)@.len(),
            final(self)@ == old(self)@.update(a as int, old(self)@[b as int]).update(b as int, old(self)@[a as int]),
            final(self)@.to_multiset() == old(self)@.to_multiset(),
            final(self)@.len() == old(self)@.len(),
    { self.swap_raw(a, b); proof { lemma_swap_multiset(old(self)@, a as int, b as int); } }

    #[verifier::external_body]
    pub fn slice_axis_mut(&mut self, axis: Axis, s: Slice) -> (r: &mut Lane<A>)
        ensures
            axis.0 == 0, s.start <= slice_end(s, old(self)@.len() as int) <= old(self)@.len(),
            r@ == old(self)@.subrange(s.start as int, slice_end(s, old(self)@.len() as int)),
            final(r)@.len() == r@.len(),
            final(self)@.len() == old(self)@.len(),
    { unimplemented!() }
//@endif

    #[verifier::external_body]
    pub fn to_vec(&self) -> (r: Vec<A>)
        ensures r@ == self@
    { unimplemented!() }

    // ---- layout-revealing methods: deliberately weak (nondeterministic) contracts --------------------
    // Code that starts to depend on the memory layout can only use these facts, so it fails its
    // postcondition instead of falling outside the shim.
    // `as_slice()` is Some only for standard (logical-order, contiguous) layout; whether it is Some is unknown.
    #[verifier::external_body]
    pub fn as_slice(&self) -> (r: Option<&[A]>)
        ensures r matches Some(s) ==> s@ == self@
    { unimplemented!() }

    // memory order is *some* permutation of the logical order
    #[verifier::external_body]
    pub fn as_slice_memory_order(&self) -> (r: Option<&[A]>)
        ensures r matches Some(s) ==> s@.to_multiset() == self@.to_multiset()
    { unimplemented!() }

    // the backing allocation of an owned array may be larger than, and ordered differently from, the array
    #[verifier::external_body]
    pub fn into_raw_vec_and_offset(self) -> (r: (Vec<A>, Option<usize>))
    { unimplemented!() }

    #[verifier::external_body]
    pub fn into_raw_vec(self) -> (r: Vec<A>)
    { unimplemented!() }

    // `view_mut()`: a mutable view of the whole array
    #[verifier::external_body]
    pub fn view_mut(&mut self) -> (r: &mut Lane<A>)
        ensures r@ == old(self)@, final(r)@.len() == r@.len(), final(self)@ == final(r)@
    { unimplemented!() }
}

impl<A> std::ops::Index<usize> for Lane<A> {
    type Output = A;
    #[verifier::external_body]
    fn index(&self, i: usize) -> (r: &A)
//@ifmode N
        ensures *r == self@[i as int]
//@endif
//@ifmode P
        ensures i < self@.len(), *r == self@[i as int]
//@endif
    { &self.v[i] }
}
impl<A> vstd::std_specs::core::IndexSpecImpl<usize> for Lane<A> {
//@ifmode N
    open spec fn index_req(&self, i: &usize) -> bool { *i < self@.len() }
//@endif
//@ifmode P
    open spec fn index_req(&self, i: &usize) -> bool { true }
//@endif
}

// element assignment `view[i] = x`: offered with its real contract so that code which overwrites
// elements is checked against the permutation postconditions instead of falling outside the shim
impl<A> std::ops::IndexMut<usize> for Lane<A> {
    #[verifier::external_body]
    fn index_mut(&mut self, i: usize) -> (r: &mut A)
//@ifmode N
        ensures *r == old(self)@[i as int], final(self)@ == old(self)@.update(i as int, *final(r))
//@endif
//@ifmode P
        ensures i < old(self)@.len(), *r == old(self)@[i as int], final(self)@ == old(self)@.update(i as int, *final(r))
//@endif
    { &mut self.v[i] }
}

#[derive(Clone, Copy)]
pub struct Axis(pub usize);
pub struct Slice { pub start: usize, pub end: Option<usize> }
impl From<std::ops::RangeTo<usize>> for Slice {
    #[verifier::external_body]
    fn from(r: std::ops::RangeTo<usize>) -> (s: Slice)
        ensures s.start == 0, s.end == Some(r.end)
    { unimplemented!() }
}
impl From<std::ops::RangeFrom<usize>> for Slice {
    #[verifier::external_body]
    fn from(r: std::ops::RangeFrom<usize>) -> (s: Slice)
        ensures s.start == r.start, s.end == None::<usize>
    { unimplemented!() }
}
impl From<std::ops::RangeToInclusive<usize>> for Slice {
    #[verifier::external_body]
    fn from(r: std::ops::RangeToInclusive<usize>) -> (s: Slice)
        ensures s.start == 0, s.end == Some((r.end + 1) as usize), r.end < usize::MAX
    { unimplemented!() }
}
impl From<std::ops::Range<usize>> for Slice {
    #[verifier::external_body]
    fn from(r: std::ops::Range<usize>) -> (s: Slice)
        ensures s.start == r.start, s.end == Some(r.end)
    { unimplemented!() }
}
pub open spec fn slice_end(s: Slice, n: int) -> int { match s.end { Some(e) => e as int, None => n } }

// ---- A-RNG: rand::thread_rng().gen_range(lo..hi) returns *some* value in the range -------------
pub struct ThreadRng {}
#[verifier::external_body]
pub fn thread_rng() -> ThreadRng { unimplemented!() }
impl ThreadRng {
    #[verifier::external_body]
    pub fn gen_range(&mut self, r: std::ops::Range<usize>) -> (x: usize)
//@ifmode N
        requires r.start < r.end
        ensures r.start <= x < r.end
//@endif
//@ifmode P
        ensures r.start < r.end, r.start <= x < r.end   // rand panics on an empty range
//@endif
    { unimplemented!() }
}

// ---- R2: assert!/debug_assert! ---------------------------------------------------------------
//@ifmode N
#[verifier::external_body]
pub fn verif_assert(c: bool) requires c { }
#[verifier::external_body]
pub fn verif_debug_assert(c: bool) requires c { }
//@endif
//@ifmode P
#[verifier::external_body]
pub fn verif_assert(c: bool) ensures c { }          // returns only if the condition held
#[verifier::external_body]
pub fn verif_debug_assert(c: bool) { }              // release semantics: no-op
//@endif
