// ---- shim for src/summary_statistics/means.rs: mean, weighted_sum, weighted_mean ---------------------
// A-NUM: generic Add/Mul/Div (vstd operator specs), num_traits::{Zero, FromPrimitive}
pub trait Zero: Sized {
    spec fn zero_spec() -> Self;
    fn zero() -> (r: Self) ensures r == Self::zero_spec();
}
pub trait FromPrimitive: Sized {
    spec fn from_usize_spec(n: usize) -> Option<Self>;
    fn from_usize(n: usize) -> (r: Option<Self>) ensures r == Self::from_usize_spec(n);
}
pub open spec fn arith_ok<A: Add<Output = A> + Mul<Output = A> + Div<Output = A>>() -> bool {
    &&& A::obeys_add_spec() && A::obeys_mul_spec() && A::obeys_div_spec()
    &&& forall|a: A, b: A| #[trigger] a.add_req(b)
    &&& forall|a: A, b: A| #[trigger] a.mul_req(b)
}

pub struct EmptyInputErr;

// `a.iter()`: the elements in logical order; `.zip(b)`: paired position by position with the *logical* order of b
pub struct LogicalIter<'a, A> { pub items: Vec<&'a A> }
pub struct ZipIter<'a, A> { pub items: Vec<(&'a A, &'a A)> }
impl<A, D: Dimension> ArrayN<A, D> {
    #[verifier::external_body]
    pub fn iter<'a>(&'a self) -> (r: LogicalIter<'a, A>)
        ensures r.items@.len() == self@.len(), forall|k: int| 0 <= k < self@.len() ==> *#[trigger] r.items@[k] == self@[k]
    { unimplemented!() }

    // `sum()`: ndarray adds all elements starting from zero, in an unspecified order
    #[verifier::external_body]
    pub fn sum(&self) -> (r: A)
        where A: Clone + Add<Output = A> + Zero
        requires A::obeys_add_spec(), forall|a: A, b: A| #[trigger] a.add_req(b)
        ensures exists|ps: Seq<A>| #[trigger] ps.to_multiset() == self@.to_multiset() && r == ps.fold_left(A::zero_spec(), |acc: A, x: A| acc.add_spec(x))
    { unimplemented!() }
}
impl<'a, A> LogicalIter<'a, A> {
    #[verifier::external_body]
    pub fn zip<D: Dimension>(self, other: &'a ArrayN<A, D>) -> (r: ZipIter<'a, A>)
        ensures
            r.items@.len() == (if self.items@.len() <= other@.len() { self.items@.len() } else { other@.len() }),
            forall|k: int| 0 <= k < r.items@.len() ==> #[trigger] r.items@[k] == (self.items@[k], &other@[k]),
    { unimplemented!() }
}
impl<'a, A> ZipIter<'a, A> {
    // Iterator::fold: left to right
    #[verifier::external_body]
    pub fn fold<B, F: FnMut(B, (&'a A, &'a A)) -> B>(self, init: B, f: F) -> (r: B)
        requires forall|acc: B, k: int| 0 <= k < self.items@.len() ==> #[trigger] call_requires(f, (acc, self.items@[k]))
        ensures exists|accs: Seq<B>| #[trigger] accs.len() == self.items@.len() + 1 && accs[0] == init && accs[self.items@.len() as int] == r
            && forall|k: int| 0 <= k < self.items@.len() ==> call_ensures(f, (#[trigger] accs[k], self.items@[k]), accs[k + 1])
    { unimplemented!() }
}

// a trace whose steps are a function g of (accumulator, item) is the left fold of g (proved)
pub proof fn lemma_trace_is_fold<B, P>(accs: Seq<B>, ps: Seq<P>, g: spec_fn(B, P) -> B)
    requires accs.len() == ps.len() + 1, forall|k: int| 0 <= k < ps.len() ==> #[trigger] accs[k + 1] == g(accs[k], ps[k])
    ensures accs[ps.len() as int] == ps.fold_left(accs[0], g)
    decreases ps.len()
{
    if ps.len() > 0 {
        let n = ps.len() as int;
        lemma_trace_is_fold(accs.subrange(0, n), ps.drop_last(), g);
        assert(accs.subrange(0, n)[n - 1] == accs[n - 1]);
        assert(accs[n] == g(accs[n - 1], ps[n - 1]));
    }
}
