// ---- shim for the quantile glue of src/quantile/mod.rs (inner fn quantiles_axis_mut) -----------------------------------
// N64 (noisy_float): only "is a valid quantile (0 <= q <= 1)" is visible
#[derive(Clone, Copy, Debug)]
pub struct N64 { pub bits: u64 }
impl N64 {
    pub uninterp spec fn valid_q(self) -> bool;
    // R18: the source text `(q >= 0.) && (q <= 1.)`
    #[verifier::external_body]
    pub fn verif_in_unit(self) -> (b: bool) ensures b == self.valid_q()
    { unimplemented!() }
}
#[derive(Debug)]
pub enum QuantileError { InvalidQuantile(N64), EmptyInput }

// the list of requested quantiles (ArrayView1<N64>: Copy)
#[derive(Clone, Copy)]
pub struct QView<'a> { pub a: &'a Vec<N64> }
impl<'a> QView<'a> {
    pub open spec fn view(&self) -> Seq<N64> { self.a@ }
    #[verifier::external_body]
    pub fn len(&self) -> (n: usize) ensures n == self@.len()
    { unimplemented!() }
}
// R10h: iteration over the list, by value and by reference: the items in index order
pub trait Hoistable { type Item; spec fn hitems(self) -> Seq<Self::Item>; }
impl<'a> Hoistable for QView<'a> { type Item = &'a N64; open spec fn hitems(self) -> Seq<&'a N64> { Seq::new(self@.len(), |k: int| &self@[k]) } }
impl<'a, 'b> Hoistable for &'b QView<'a> { type Item = &'a N64; open spec fn hitems(self) -> Seq<&'a N64> { Seq::new(self@.len(), |k: int| &self@[k]) } }
#[verifier::external_body]
pub fn verif_hoist<H: Hoistable>(h: H) -> (r: Vec<H::Item>)
    ensures r@ == h.hitems()
{ unimplemented!() }
// R11d: `x.iter_mut().zip(qs)`: positions 0, 1, .. (as long as both last) with the matching item of qs
#[verifier::external_body]
pub fn verif_zip_mut_idx<'a, A>(x: &Lane<A>, qs: QView<'a>) -> (r: Vec<(usize, &'a N64)>)
    ensures
        r@.len() == (if x@.len() <= qs@.len() { x@.len() } else { qs@.len() }),
        forall|k: int| 0 <= k < r@.len() ==> (#[trigger] r@[k]).0 == k && *r@[k].1 == qs@[k],
{ unimplemented!() }

// interpolation strategies (src/quantile/interpolate.rs): what each strategy needs and computes is left abstract here
// (the kernels are proved by the complete Kani harnesses); the glue must call them as specified
pub trait Interpolate<T> {
    spec fn needs_lower_spec(q: N64, len: usize) -> bool;
    spec fn needs_higher_spec(q: N64, len: usize) -> bool;
    spec fn interpolate_spec(lower: Option<T>, higher: Option<T>, q: N64, len: usize) -> T;
    fn needs_lower(q: N64, len: usize) -> (b: bool) ensures b == Self::needs_lower_spec(q, len);
    fn needs_higher(q: N64, len: usize) -> (b: bool) ensures b == Self::needs_higher_spec(q, len);
    // panics if a needed value is missing
    fn interpolate(lower: Option<T>, higher: Option<T>, q: N64, len: usize) -> (r: T)
        requires Self::needs_lower_spec(q, len) ==> lower is Some, Self::needs_higher_spec(q, len) ==> higher is Some
        ensures r == Self::interpolate_spec(lower, higher, q, len);
}
pub uninterp spec fn lower_index_spec(q: N64, len: usize) -> usize;
pub uninterp spec fn higher_index_spec(q: N64, len: usize) -> usize;
// floor / ceil of q (len - 1): inside 0..len for a valid q and a non-empty axis (bounded Kani harnesses bounded_index_*);
// for an invalid q or len == 0 the conversion panics
#[verifier::external_body]
pub fn lower_index(q: N64, len: usize) -> (r: usize)
    requires q.valid_q(), len > 0
    ensures r == lower_index_spec(q, len), r < len
{ unimplemented!() }
#[verifier::external_body]
pub fn higher_index(q: N64, len: usize) -> (r: usize)
    requires q.valid_q(), len > 0
    ensures r == higher_index_spec(q, len), r < len
{ unimplemented!() }

// `index_map[&key]` (panics when the key is absent)
pub open spec fn has_key<V>(m: Seq<(usize, V)>, key: usize) -> bool { exists|k: int| 0 <= k < m.len() && (#[trigger] m[k]).0 == key }
impl<V> std::ops::Index<&usize> for IndexMap<usize, V> {
    type Output = V;
    #[verifier::external_body]
    fn index(&self, key: &usize) -> (r: &V)
        ensures exists|k: int| 0 <= k < self@.len() && (#[trigger] self@[k]).0 == *key && *r == self@[k].1
    { unimplemented!() }
}
impl<V> vstd::std_specs::core::IndexSpecImpl<&usize> for IndexMap<usize, V> {
    open spec fn index_req(&self, key: &&usize) -> bool { has_key(self@, **key) }
}

// `<[T]>::sort` (stable sort; same contract as sort_unstable for the purposes here)
pub assume_specification<T: Ord>[ <[T]>::sort ](s: &mut [T])
    ensures
        final(s)@.len() == old(s)@.len(),
        final(s)@.to_multiset() == old(s)@.to_multiset(),
        forall|a: int, b: int| 0 <= a <= b < final(s)@.len() ==> le(#[trigger] final(s)@[a], #[trigger] final(s)@[b]);

// ---- A-ND (n-D with lanes): an array seen through the lanes along one axis ------------------------------------------
pub struct DimL { pub d: Vec<usize> }
pub uninterp spec fn nlanes_of(d: Seq<usize>, ax: int) -> nat;
pub uninterp spec fn size_of(d: Seq<usize>) -> nat;
// the number of lanes along an axis does not depend on the length of that axis; the size is zero iff the axis is empty
// or there is no lane
#[verifier::external_body]
pub broadcast proof fn axiom_dims(d: Seq<usize>, ax: int, m: usize)
    requires 0 <= ax < d.len()
    ensures #[trigger] nlanes_of(d.update(ax, m), ax) == nlanes_of(d, ax),
        size_of(d) == 0 <==> (d[ax] == 0 || nlanes_of(d, ax) == 0),
{ }
impl DimL {
    pub open spec fn view(&self) -> Seq<usize> { self.d@ }
    #[verifier::external_body]
    pub fn size(&self) -> (n: usize) ensures n == size_of(self@)
    { unimplemented!() }
}
impl std::ops::Index<usize> for DimL {
    type Output = usize;
    #[verifier::external_body]
    fn index(&self, i: usize) -> (r: &usize) ensures *r == self@[i as int]
    { unimplemented!() }
}
impl std::ops::IndexMut<usize> for DimL {
    #[verifier::external_body]
    fn index_mut(&mut self, i: usize) -> (r: &mut usize)
        ensures *r == old(self)@[i as int], final(self)@ == old(self)@.update(i as int, *final(r))
    { unimplemented!() }
}
impl vstd::std_specs::core::IndexSpecImpl<usize> for DimL {
    open spec fn index_req(&self, i: &usize) -> bool { *i < self@.len() }
}
impl Axis { pub fn index(&self) -> (r: usize) ensures r == self.0 { self.0 } }

#[verifier::external_body]
#[verifier::reject_recursive_types(A)]
pub struct ArrL<A> { _a: core::marker::PhantomData<A> }
#[derive(Debug)]
pub struct ShapeError { pub _p: () }
impl<A> ArrL<A> {
    pub uninterp spec fn dims(&self) -> Seq<usize>;
    pub uninterp spec fn lanes(&self, ax: int) -> Seq<Seq<A>>;
    pub uninterp spec fn count(&self) -> nat;
    // well-formedness of the lane view along `ax`
    pub open spec fn wf(&self, ax: int) -> bool {
        &&& 0 <= ax < self.dims().len()
        &&& self.lanes(ax).len() == nlanes_of(self.dims(), ax)
        &&& forall|j: int| 0 <= j < self.lanes(ax).len() ==> (#[trigger] self.lanes(ax)[j]).len() == self.dims()[ax]
        &&& self.count() == size_of(self.dims())
    }
    #[verifier::external_body]
    pub fn len_of(&self, axis: Axis) -> (n: usize)
        requires axis.0 < self.dims().len()
        ensures n == self.dims()[axis.0 as int]
    { unimplemented!() }
    #[verifier::external_body]
    pub fn raw_dim(&self) -> (r: DimL) ensures r@ == self.dims()
    { unimplemented!() }
    #[verifier::external_body]
    pub fn first(&self) -> (r: Option<&A>) ensures r is None <==> self.count() == 0
    { unimplemented!() }
    pub fn verif_ref(&self) -> (r: &ArrL<A>) ensures *r == *self { self }
    // R11c: the position of a pair of lanes, in the order in which Zip visits them (every position once)
    #[verifier::external_body]
    pub fn verif_take_lane(&self, axis: Axis, j: usize) -> (r: Lane<A>)
        requires j < self.lanes(axis.0 as int).len()
        ensures r@ == self.lanes(axis.0 as int)[j as int]
    { unimplemented!() }
    #[verifier::external_body]
    pub fn verif_put_lane(&mut self, axis: Axis, j: usize, lane: Lane<A>)
        requires j < old(self).lanes(axis.0 as int).len(), lane@.len() == old(self).lanes(axis.0 as int)[j as int].len()
        ensures final(self).lanes(axis.0 as int) == old(self).lanes(axis.0 as int).update(j as int, lane@), final(self).dims() == old(self).dims(), final(self).count() == old(self).count()
    { unimplemented!() }
}
#[verifier::external_body]
pub fn verif_lane_order<A>(x: &ArrL<A>, ax: Axis, y: &ArrL<A>, ay: Axis) -> (r: Vec<usize>)
    requires x.lanes(ax.0 as int).len() == y.lanes(ay.0 as int).len()   // Zip panics on operands of different shape
    ensures
        r@.len() == x.lanes(ax.0 as int).len(),
        forall|k: int| 0 <= k < r@.len() ==> #[trigger] r@[k] < r@.len(),
        forall|j: int| 0 <= j < r@.len() ==> #[trigger] visits(r@, j),
        forall|k1: int, k2: int| 0 <= k1 < k2 < r@.len() ==> r@[k1] != r@[k2],
{ unimplemented!() }
pub open spec fn visits(r: Seq<usize>, j: int) -> bool { exists|k: int| 0 <= k < r.len() && #[trigger] r[k] == j }

pub struct Array { pub _p: () }
impl Array {
    // `Array::from_shape_vec(dim, vec)`: Err unless the vector has exactly the size of the shape
    #[verifier::external_body]
    pub fn from_shape_vec<A>(d: DimL, v: Vec<A>) -> (r: Result<ArrL<A>, ShapeError>)
        ensures v@.len() == size_of(d@) ==> (r matches Ok(a) && a.dims() == d@ && a.count() == size_of(d@) && forall|ax: int| 0 <= ax < d@.len() ==> #[trigger] a.wf(ax))
    { unimplemented!() }
    // `Array::from_elem(dim, x)`: every element is (a clone of) x
    #[verifier::external_body]
    pub fn from_elem<A: Clone>(d: DimL, x: A) -> (r: ArrL<A>)
        ensures r.dims() == d@, r.count() == size_of(d@), forall|ax: int| 0 <= ax < d@.len() ==> #[trigger] r.wf(ax)
    { unimplemented!() }
}

// callee contract of get_many_from_sorted_mut_unchecked: proved in unit `sort` on the extracted body
#[verifier::external_body]
pub fn get_many_from_sorted_mut_unchecked<A>(
    array: &mut Lane<A>,
    indexes: &[usize],
) -> (r: IndexMap<usize, A>)
where
    A: Ord + Clone,
    requires
        lawful_ord::<A>(), lawful_clone::<A>(),
        strictly_increasing(indexes@),
        forall|k: int| 0 <= k < indexes@.len() ==> indexes@[k] < old(array)@.len(),
    ensures
        final(array)@.len() == old(array)@.len(),
        perm(final(array)@, old(array)@),
        r@.len() == indexes@.len(),
        forall|k: int| 0 <= k < indexes@.len() ==> (#[trigger] r@[k]).0 == indexes@[k]
            && selected_at(final(array)@, indexes@[k] as int, r@[k].1),
{ unimplemented!() }

// ---- the thin public wrappers around the inner function ------------------------------------------------------------
// an owned / borrowed 1-D array of quantiles (`&ArrayBase<S2, Ix1>`), `.view()` (R17: verif_view) and `aview1(&[q])`
pub struct QArr { pub a: Vec<N64> }
impl QArr {
    pub open spec fn view(&self) -> Seq<N64> { self.a@ }
    #[verifier::external_body]
    pub fn verif_view<'a>(&'a self) -> (r: QView<'a>) ensures r@ == self@
    { unimplemented!() }
}
#[verifier::external_body]
pub fn aview1(s: &[N64]) -> (r: QArr) ensures r@ == s@
{ unimplemented!() }
// the result of `index_axis_move(axis, i)`: the axis removed, one element per lane (in lane order)
#[verifier::external_body]
#[verifier::reject_recursive_types(A)]
pub struct ArrS<A> { _a: core::marker::PhantomData<A> }
impl<A> ArrS<A> {
    pub uninterp spec fn elems(&self) -> Seq<A>;
    // `into_scalar()` of a zero-dimensional array
    #[verifier::external_body]
    pub fn into_scalar(self) -> (r: A)
        requires self.elems().len() == 1
        ensures r == self.elems()[0]
    { unimplemented!() }
}
impl<A> ArrL<A> {
    // `view_mut()`: a mutable view of the whole array
    #[verifier::external_body]
    pub fn view_mut(&mut self) -> (r: &mut ArrL<A>)
        ensures *r == *old(self), *final(self) == *final(r)
    { unimplemented!() }
    #[verifier::external_body]
    pub fn index_axis_move(self, axis: Axis, i: usize) -> (r: ArrS<A>)
        requires axis.0 < self.dims().len(), i < self.dims()[axis.0 as int]   // panics otherwise
        ensures r.elems().len() == self.lanes(axis.0 as int).len(), forall|j: int| 0 <= j < r.elems().len() ==> #[trigger] r.elems()[j] == self.lanes(axis.0 as int)[j][i as int]
    { unimplemented!() }
}
// a one-dimensional array has exactly one lane along its only axis
#[verifier::external_body]
pub proof fn axiom_dims_1d(d: Seq<usize>)
    requires d.len() == 1
    ensures nlanes_of(d, 0) == 1
{ }

// ---- the skip-NaN quantile (quantile_axis_skipnan_mut) --------------------------------------------------------------
pub trait MaybeNan: Sized {
    type NotNan;
    spec fn is_nan_spec(&self) -> bool;
    spec fn not_nan_spec(&self) -> Self::NotNan;
    // the missing value for None, otherwise the value that carries the given not-NaN value
    fn from_not_nan_opt(v: Option<Self::NotNan>) -> (r: Self)
        ensures v is None ==> r.is_nan_spec(), v matches Some(x) ==> !r.is_nan_spec() && r.not_nan_spec() == x;
}
pub open spec fn filter_not_nan<A: MaybeNan>(s: Seq<A>) -> Seq<A::NotNan>
    decreases s.len()
{
    if s.len() == 0 { Seq::empty() } else if s.last().is_nan_spec() { filter_not_nan(s.drop_last()) } else { filter_not_nan(s.drop_last()).push(s.last().not_nan_spec()) }
}
// R18: `A::remove_nan_mut(lane)`.  Callee contract: the generic compaction is proved in unit `nan` (the typed wrappers'
// pointer casts are covered by the Kani harnesses of C04): a 1-D view of exactly the not-missing values of the lane, in
// some order (a trait method cannot state this here: its contract would refer to a function over the trait itself)
#[verifier::external_body]
pub fn verif_remove_nan_mut<A: MaybeNan>(lane: Lane<A>) -> (r: ArrL<A::NotNan>)
    ensures is_compaction::<A>(r, lane@), r.count() == filter_not_nan(lane@).len()
{ unimplemented!() }
impl<A> ArrL<A> {
    #[verifier::external_body]
    pub fn is_empty(&self) -> (b: bool) ensures b == (self.count() == 0)
    { unimplemented!() }
    // `map_axis_mut(axis, f)`: f applied to (a mutable view of) every lane along `axis`, each once; one result per lane.
    // What the closure does to the lane is not tracked here (the lane is handed over by value in this shim): the state
    // of the array after the call is left unspecified
    #[verifier::external_body]
    pub fn map_axis_mut<B, F: FnMut(Lane<A>) -> B>(&mut self, axis: Axis, f: F) -> (r: ArrS<B>)
        requires
            axis.0 < old(self).dims().len(),
            forall|lane: Lane<A>| is_lane_of(lane@, old(self).lanes(axis.0 as int)) ==> #[trigger] call_requires(f, (lane,)),
        ensures
            r.elems().len() == old(self).lanes(axis.0 as int).len(),
            forall|j: int| 0 <= j < r.elems().len() ==> lane_result(old(self).lanes(axis.0 as int)[j], f, #[trigger] r.elems()[j]),
    { unimplemented!() }
}
pub open spec fn is_lane_of<A>(s: Seq<A>, ls: Seq<Seq<A>>) -> bool { exists|j: int| 0 <= j < ls.len() && #[trigger] ls[j] == s }
pub open spec fn lane_result<A, B, F: FnMut(Lane<A>) -> B>(lane: Seq<A>, f: F, out: B) -> bool {
    exists|l: Lane<A>| #[trigger] l@ == lane && call_ensures(f, (l,), out)
}
// what the skip-NaN quantile must return for one lane
pub open spec fn skipq_entry<A: MaybeNan, I: Interpolate<A::NotNan>>(lane: Seq<A>, q: N64, out: A) -> bool where A::NotNan: Ord {
    let f = filter_not_nan(lane);
    if f.len() == 0 { out.is_nan_spec() }
    else { !out.is_nan_spec() && exists|arr: Seq<A::NotNan>| #[trigger] perm(arr, f) && lane_entry::<A::NotNan, I>(arr, q, f.len() as usize, out.not_nan_spec()) }
}

// ---- R19c: `map_axis_mut` as a loop (used where the closure calls a captured FnMut) ----------------------------------
#[verifier::external_body]
pub fn verif_lane_order1<A>(x: &ArrL<A>, ax: Axis) -> (r: Vec<usize>)
    requires ax.0 < x.dims().len()
    ensures
        r@.len() == x.lanes(ax.0 as int).len(),
        forall|k: int| 0 <= k < r@.len() ==> #[trigger] r@[k] < r@.len(),
        forall|j: int| 0 <= j < r@.len() ==> #[trigger] visits(r@, j),
        forall|k1: int, k2: int| 0 <= k1 < k2 < r@.len() ==> r@[k1] != r@[k2],
{ unimplemented!() }
// the result array under construction: one slot per lane
#[verifier::external_body]
#[verifier::reject_recursive_types(B)]
pub struct LaneResults<B> { _b: core::marker::PhantomData<B> }
impl<B> LaneResults<B> {
    pub uninterp spec fn slots(&self) -> Seq<Option<B>>;
    #[verifier::external_body]
    pub fn verif_put(&mut self, j: usize, v: B)
        requires j < old(self).slots().len()
        ensures final(self).slots() == old(self).slots().update(j as int, Some(v))
    { unimplemented!() }
    #[verifier::external_body]
    pub fn verif_finish(self) -> (r: ArrS<B>)
        requires forall|j: int| 0 <= j < self.slots().len() ==> (#[trigger] self.slots()[j]) is Some
        ensures r.elems().len() == self.slots().len(), forall|j: int| 0 <= j < r.elems().len() ==> self.slots()[j] == Some(#[trigger] r.elems()[j])
    { unimplemented!() }
}
#[verifier::external_body]
pub fn verif_lane_results<A, B>(x: &ArrL<A>, ax: Axis) -> (r: LaneResults<B>)
    requires ax.0 < x.dims().len()
    ensures r.slots().len() == x.lanes(ax.0 as int).len(), forall|j: int| 0 <= j < r.slots().len() ==> (#[trigger] r.slots()[j]) is None
{ unimplemented!() }
// the compacted lane handed to the mapping: a 1-D view of exactly the not-missing values of the lane, in some order
pub open spec fn is_compaction<A: MaybeNan>(l: ArrL<A::NotNan>, lane: Seq<A>) -> bool {
    l.dims().len() == 1 && l.wf(0) && l.dims()[0] == filter_not_nan(lane).len() && perm(l.lanes(0)[0], filter_not_nan(lane))
}
pub open spec fn mapped_lane<A: MaybeNan, B, F: FnMut(ArrL<A::NotNan>) -> B>(f: F, lane: Seq<A>, out: B) -> bool {
    exists|l: ArrL<A::NotNan>| #[trigger] is_compaction::<A>(l, lane) && call_ensures(f, (l,), out)
}
