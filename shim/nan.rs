// ---- shim for the MaybeNan trait (only `is_nan` is used by the generic compaction) -------------
pub trait MaybeNan: Sized {
    spec fn is_nan_spec(&self) -> bool;
    fn is_nan(&self) -> (b: bool)
        ensures b == self.is_nan_spec();
}

pub open spec fn all_nan<A: MaybeNan>(s: Seq<A>) -> bool { forall|k: int| 0 <= k < s.len() ==> (#[trigger] s[k]).is_nan_spec() }
pub open spec fn none_nan<A: MaybeNan>(s: Seq<A>) -> bool { forall|k: int| 0 <= k < s.len() ==> !(#[trigger] s[k]).is_nan_spec() }

// R4: ndarray's `s![..e]`
pub struct SliceTo { pub end: usize }
pub fn verif_slice_to(e: usize) -> (s: SliceTo) ensures s.end == e { SliceTo { end: e } }

impl<A> Lane<A> {
    // A-ND: `slice_move(s![..e])` on a 1-D mutable view keeps the first e logical elements; the rest
    // of the parent view is untouched by anything done through the result.
    #[verifier::external_body]
    pub fn slice_move(&mut self, s: SliceTo) -> (r: &mut Lane<A>)
        requires s.end <= old(self)@.len()
        ensures
            r@ == old(self)@.subrange(0, s.end as int),
            final(r)@.len() == r@.len(),
            final(self)@ == final(r)@ + old(self)@.subrange(s.end as int, old(self)@.len() as int),
    { unimplemented!() }
}
