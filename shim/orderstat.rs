// ---- order statistics are determined by the multiset (all proved) ----------------------------------------------------------
// number of elements of s strictly below y
pub open spec fn cnt_lt<A: Ord>(s: Seq<A>, y: A) -> int
    decreases s.len()
{
    if s.len() == 0 { 0 } else { cnt_lt(s.drop_last(), y) + if lt(s.last(), y) { 1int } else { 0int } }
}
pub proof fn lemma_cnt_bounds<A: Ord>(s: Seq<A>, y: A)
    ensures 0 <= cnt_lt(s, y) <= s.len()
    decreases s.len()
{
    if s.len() > 0 { lemma_cnt_bounds(s.drop_last(), y); }
}
// removing position k removes its contribution
pub proof fn lemma_cnt_remove<A: Ord>(s: Seq<A>, k: int, y: A)
    requires 0 <= k < s.len()
    ensures cnt_lt(s, y) == cnt_lt(s.remove(k), y) + if lt(s[k], y) { 1int } else { 0int }
    decreases s.len()
{
    if k == s.len() - 1 {
        assert(s.remove(k) =~= s.drop_last());
    } else {
        lemma_cnt_remove(s.drop_last(), k, y);
        assert(s.remove(k).drop_last() =~= s.drop_last().remove(k));
        assert(s.remove(k).last() == s.last());
    }
}
pub proof fn lemma_cnt_perm<A: Ord>(s: Seq<A>, t: Seq<A>, y: A)
    requires perm(s, t)
    ensures cnt_lt(s, y) == cnt_lt(t, y)
    decreases s.len()
{
    broadcast use vstd::seq_lib::group_to_multiset_ensures;
    lemma_perm_len(s, t);
    if s.len() > 0 {
        let x = s.last();
        lemma_perm_contains(t, s, s.len() - 1);
        let k = choose|m: int| 0 <= m < t.len() && t[m] == x;
        assert(s.drop_last() =~= s.remove(s.len() - 1));
        assert(s.remove(s.len() - 1).to_multiset() == s.to_multiset().remove(x));
        assert(t.remove(k).to_multiset() == t.to_multiset().remove(x));
        lemma_cnt_perm(s.drop_last(), t.remove(k), y);
        lemma_cnt_remove(t, k, y);
    }
}
// a prefix all of whose elements are below y contributes its whole length
pub proof fn lemma_cnt_prefix_all<A: Ord>(s: Seq<A>, m: int, y: A)
    requires 0 <= m <= s.len(), forall|j: int| 0 <= j < m ==> lt(#[trigger] s[j], y)
    ensures cnt_lt(s, y) >= m
    decreases s.len()
{
    if s.len() > 0 {
        if m == s.len() {
            lemma_cnt_prefix_all(s.drop_last(), m - 1, y);
        } else {
            lemma_cnt_prefix_all(s.drop_last(), m, y);
        }
    }
}
// a suffix none of whose elements is below y contributes nothing
pub proof fn lemma_cnt_suffix_none<A: Ord>(s: Seq<A>, m: int, y: A)
    requires 0 <= m <= s.len(), forall|j: int| m <= j < s.len() ==> !lt(#[trigger] s[j], y)
    ensures cnt_lt(s, y) <= m
    decreases s.len()
{
    if s.len() > 0 {
        if m == s.len() {
            lemma_cnt_bounds(s, y);
        } else {
            lemma_cnt_suffix_none(s.drop_last(), m, y);
        }
    }
}
// two arrangements of the same multiset, each partitioned around position i, hold equivalent elements there
pub proof fn lemma_order_statistic_unique<A: Ord>(s: Seq<A>, t: Seq<A>, i: int, x: A, y: A)
    requires lawful_ord::<A>(), perm(s, t), selected_at(s, i, x), selected_at(t, i, y)
    ensures eqv(x, y)
{
    reveal(lawful_ord);
    lemma_perm_len(s, t);
    if lt(x, y) {
        // s: positions 0..=i are <= x < y;  t: positions i.. are >= y
        assert forall|j: int| 0 <= j < i + 1 implies lt(#[trigger] s[j], y) by { assert(le(s[j], x)); if !lt(s[j], y) { assert(le(y, s[j])); assert(le(y, x)); } }
        lemma_cnt_prefix_all(s, i + 1, y);
        assert forall|j: int| i <= j < t.len() implies !lt(#[trigger] t[j], y) by { assert(le(y, t[j])); }
        lemma_cnt_suffix_none(t, i, y);
        lemma_cnt_perm(s, t, y);
    }
    if lt(y, x) {
        assert forall|j: int| 0 <= j < i + 1 implies lt(#[trigger] t[j], x) by { assert(le(t[j], y)); if !lt(t[j], x) { assert(le(x, t[j])); assert(le(x, y)); } }
        lemma_cnt_prefix_all(t, i + 1, x);
        assert forall|j: int| i <= j < s.len() implies !lt(#[trigger] s[j], x) by { assert(le(x, s[j])); }
        lemma_cnt_suffix_none(s, i, x);
        lemma_cnt_perm(s, t, x);
    }
}
