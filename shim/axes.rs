// ---- A-ND (n-D): lanes along an axis, `map_axis` (used by the per-axis variance) -----------------------------------
#[derive(Clone, Copy)]
pub struct AxisN(pub usize);
pub type Axis = AxisN;
impl AxisN {
    pub fn index(&self) -> (r: usize) ensures r == self.0 { self.0 }
}
pub struct Ix1 { pub _p: () }
impl Dimension for Ix1 {
    type Pattern = usize;
    uninterp spec fn is_zeros(&self) -> bool;
    uninterp spec fn zero_pattern() -> usize;
    #[verifier::external_body]
    fn zeros(ndim: usize) -> (r: Self) { unimplemented!() }
    #[verifier::external_body]
    fn into_pattern(self) -> (p: usize) { unimplemented!() }
}
pub trait RemoveAxis: Dimension { type Smaller: Dimension; }

impl<A, D: Dimension> ArrayN<A, D> {
    // the 1-D lanes along `axis` (all of length shape[axis]), in the logical order of the remaining axes
    pub uninterp spec fn lanes(&self, axis: int) -> Seq<Seq<A>>;
    // a view of the whole array
    #[verifier::external_body]
    pub fn verif_view(&self) -> (r: ArrayN<A, D>)
        ensures r@ == self@, r.shape_spec() == self.shape_spec()
    { unimplemented!() }
    // `map_axis(axis, f)`: f applied to every lane along `axis` (each once), results in the logical order of the lanes
    #[verifier::external_body]
    pub fn map_axis<B, F: FnMut(ArrayN<A, Ix1>) -> B>(&self, axis: AxisN, f: F) -> (r: ArrayN<B, D::Smaller>)
        where D: RemoveAxis
        requires
            axis.0 < self.shape_spec().len(),
            forall|lane: ArrayN<A, Ix1>| is_lane_of(lane@, self.lanes(axis.0 as int)) ==> #[trigger] call_requires(f, (lane,)),
        ensures
            r@.len() == self.lanes(axis.0 as int).len(),
            forall|j: int| 0 <= j < r@.len() ==> lane_result(self.lanes(axis.0 as int)[j], f, #[trigger] r@[j]),
    { unimplemented!() }
    #[verifier::external_body]
    pub fn mapv_into<F: FnMut(A) -> A>(self, f: F) -> (r: ArrayN<A, D>)
        requires forall|k: int| 0 <= k < self@.len() ==> #[trigger] call_requires(f, (self@[k],))
        ensures r@.len() == self@.len(), r.shape_spec() == self.shape_spec(), forall|k: int| 0 <= k < self@.len() ==> call_ensures(f, (self@[k],), #[trigger] r@[k])
    { unimplemented!() }
}
pub open spec fn is_lane_of<A>(s: Seq<A>, ls: Seq<Seq<A>>) -> bool { exists|j: int| 0 <= j < ls.len() && #[trigger] ls[j] == s }
// the closure was applied to (a view of) that lane and returned `out`
pub open spec fn lane_result<A, B, F: FnMut(ArrayN<A, Ix1>) -> B>(lane: Seq<A>, f: F, out: B) -> bool {
    exists|l: ArrayN<A, Ix1>| #[trigger] l@ == lane && call_ensures(f, (l,), out)
}
// every lane along an axis has the length of that axis
#[verifier::external_body]
pub proof fn axiom_lane_len<A, D: Dimension>(a: &ArrayN<A, D>, axis: int)
    requires 0 <= axis < a.shape_spec().len()
    ensures forall|j: int| 0 <= j < a.lanes(axis).len() ==> (#[trigger] a.lanes(axis)[j]).len() == a.shape_spec()[axis]
{ }
