// ---- A-ND (n-D): lanes along an axis, `map_axis` (used by the per-axis variance) -----------------------------------
#[derive(Clone, Copy)]
pub struct AxisN(pub usize);
pub type Axis = AxisN;
impl AxisN {
    pub fn index(&self) -> (r: usize) ensures r == self.0 { self.0 }
}
pub struct Ix1 { pub _p: () }
impl Dimension for Ix1 {
    type Pattern = usize;
    uninterp spec fn is_zeros(&self) -> bool;
    uninterp spec fn zero_pattern() -> usize;
    #[verifier::external_body]
    fn zeros(ndim: usize) -> (r: Self) { unimplemented!() }
    #[verifier::external_body]
    fn into_pattern(self) -> (p: usize) { unimplemented!() }
}
pub trait RemoveAxis: Dimension { type Smaller: Dimension; }

impl<A, D: Dimension> ArrayN<A, D> {
    // the 1-D lanes along `axis` (all of length shape[axis]), in the logical order of the remaining axes
    pub uninterp spec fn lanes(&self, axis: int) -> Seq<Seq<A>>;
    // a view of the whole array
    #[verifier::external_body]
    pub fn verif_view(&self) -> (r: ArrayN<A, D>)
        ensures r@ == self@, r.shape_spec() == self.shape_spec()
    { unimplemented!() }
    // `map_axis(axis, f)`: f applied to every lane along `axis` (each once), results in the logical order of the lanes
    #[verifier::external_body]
    pub fn map_axis<B, F: FnMut(ArrayN<A, Ix1>) -> B>(&self, axis: AxisN, f: F) -> (r: ArrayN<B, D::Smaller>)
        where D: RemoveAxis
        requires
            axis.0 < self.shape_spec().len(),
            forall|lane: ArrayN<A, Ix1>| is_lane_of(lane@, self.lanes(axis.0 as int)) ==> #[trigger] call_requires(f, (lane,)),
        ensures
            r@.len() == self.lanes(axis.0 as int).len(),
            forall|j: int| 0 <= j < r@.len() ==> lane_result(self.lanes(axis.0 as int)[j], f, #[trigger] r@[j]),
    { unimplemented!() }
    // `mapv_inplace(f)`: every element replaced by f of itself
    #[verifier::external_body]
    pub fn mapv_inplace<F: FnMut(A) -> A>(&mut self, f: F)
        where A: Copy
        requires forall|k: int| 0 <= k < old(self)@.len() ==> #[trigger] call_requires(f, (old(self)@[k],))
        ensures final(self)@.len() == old(self)@.len(), final(self).shape_spec() == old(self).shape_spec(), forall|k: int| 0 <= k < old(self)@.len() ==> call_ensures(f, (old(self)@[k],), #[trigger] final(self)@[k])
    { unimplemented!() }
    #[verifier::external_body]
    pub fn mapv_into<F: FnMut(A) -> A>(self, f: F) -> (r: ArrayN<A, D>)
        requires forall|k: int| 0 <= k < self@.len() ==> #[trigger] call_requires(f, (self@[k],))
        ensures r@.len() == self@.len(), r.shape_spec() == self.shape_spec(), forall|k: int| 0 <= k < self@.len() ==> call_ensures(f, (self@[k],), #[trigger] r@[k])
    { unimplemented!() }
}
pub open spec fn is_lane_of<A>(s: Seq<A>, ls: Seq<Seq<A>>) -> bool { exists|j: int| 0 <= j < ls.len() && #[trigger] ls[j] == s }
// the closure was applied to (a view of) that lane and returned `out`
pub open spec fn lane_result<A, B, F: FnMut(ArrayN<A, Ix1>) -> B>(lane: Seq<A>, f: F, out: B) -> bool {
    exists|l: ArrayN<A, Ix1>| #[trigger] l@ == lane && call_ensures(f, (l,), out)
}
// every lane along an axis has the length of that axis
#[verifier::external_body]
pub proof fn axiom_lane_len<A, D: Dimension>(a: &ArrayN<A, D>, axis: int)
    requires 0 <= axis < a.shape_spec().len()
    ensures forall|j: int| 0 <= j < a.lanes(axis).len() ==> (#[trigger] a.lanes(axis)[j]).len() == a.shape_spec()[axis]
{ }

// a reference to an n-D array iterates over references to its elements in logical order (A-ND; used by `.zip(weights)`)
impl<'a, A, D: Dimension> IntoSeqIter for &'a ArrayN<A, D> {
    type Item = &'a A;
    open spec fn seq_items(self) -> Seq<&'a A> { Seq::new(self@.len(), |k: int| &self@[k]) }
}
impl<'a, A: 'a, D: Dimension> VerifIter<'a> for ArrayN<A, D> {
    type Item = &'a A;
    open spec fn items_spec(&'a self) -> Seq<&'a A> { Seq::new(self@.len(), |k: int| &self@[k]) }
    #[verifier::external_body]
    fn verif_iter(&'a self) -> (r: SeqIter<&'a A>) { unimplemented!() }
}
// a trace whose steps add d_k * w_k is the weighted sum (exact arithmetic)
pub proof fn lemma_trace_wsum<A: Float>(accs: Seq<A>, xs: Seq<real>, ws: Seq<real>, k: int)
    requires 0 <= k <= xs.len(), xs.len() == ws.len(), accs.len() == xs.len() + 1, accs[0].val() == 0real,
        forall|j: int| 0 <= j < xs.len() ==> (#[trigger] accs[j + 1]).val() == accs[j].val() + xs[j] * ws[j],
    ensures accs[k].val() == wpsum(xs, ws, 1, k)
    decreases k
{
    if k > 0 {
        lemma_trace_wsum(accs, xs, ws, k - 1);
        assert(accs[(k - 1) + 1].val() == accs[k - 1].val() + xs[k - 1] * ws[k - 1]);
        lemma_rpow_small(xs[k - 1]);
        rl_assoc(ws[k - 1], xs[k - 1], 1real);
    }
}
