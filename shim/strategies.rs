// ---- shim for the bin-building strategies of src/histogram/strategies.rs (Sqrt, Rice, Sturges) ------------------------------
// the conversion of src/histogram/errors.rs used by `?` (extracted in the unit; its meaning is declared through FromSpecImpl)
impl vstd::std_specs::convert::FromSpecImpl<MinMaxError> for BinsBuildError {
    open spec fn obeys_from_spec() -> bool { true }
    open spec fn from_spec(v: MinMaxError) -> Self { match v { MinMaxError::EmptyInput => BinsBuildError::EmptyInput, MinMaxError::UndefinedOrder => BinsBuildError::Strategy } }
}
pub struct Ix1 {}
impl Dimension for Ix1 {
    type Pattern = usize;
    uninterp spec fn is_zeros(&self) -> bool;
    uninterp spec fn zero_pattern() -> usize;
    #[verifier::external_body]
    fn zeros(ndim: usize) -> (r: Self) { unimplemented!() }
    #[verifier::external_body]
    fn into_pattern(self) -> (p: usize) { unimplemented!() }
}
// callee contracts of QuantileExt::min / max, as proved for every layout in unit `minmax` (contract_sync)
impl<A: PartialOrd, D: Dimension> ArrayN<A, D> {
    #[verifier::external_body]
    pub fn min(&self) -> (r: Result<&A, MinMaxError>)
        requires float_like::<A>(),
        ensures
            self@.len() == 0 ==> r == Err::<&A, MinMaxError>(MinMaxError::EmptyInput), // [C05,C17]
            self@.len() > 0 && has_nan(self@) ==> r == Err::<&A, MinMaxError>(MinMaxError::UndefinedOrder), // [C05]
            self@.len() > 0 && !has_nan(self@) ==> (r matches Ok(x) && exists|k: int| is_min_at(self@, k) && *x == self@[k]), // [C05,C20] a reference to a minimal element
    { unimplemented!() }
    #[verifier::external_body]
    pub fn max(&self) -> (r: Result<&A, MinMaxError>)
        requires float_like::<A>(),
        ensures
            self@.len() == 0 ==> r == Err::<&A, MinMaxError>(MinMaxError::EmptyInput), // [C05,C17]
            self@.len() > 0 && has_nan(self@) ==> r == Err::<&A, MinMaxError>(MinMaxError::UndefinedOrder), // [C05]
            self@.len() > 0 && !has_nan(self@) ==> (r matches Ok(x) && exists|k: int| is_max_at(self@, k) && *x == self@[k]), // [C05,C20] a reference to a maximal element
    { unimplemented!() }
}
// the strategies hold the equispaced builder they were fitted to
pub struct Sqrt<T> { pub builder: EquiSpaced<T> }
pub struct Rice<T> { pub builder: EquiSpaced<T> }
pub struct Sturges<T> { pub builder: EquiSpaced<T> }
// R18: the floating-point formula for the number of bins is not interpreted (its value only enters the bin width)
pub uninterp spec fn sqrt_bins(n: usize) -> usize;
pub uninterp spec fn rice_bins(n: usize) -> usize;
pub uninterp spec fn sturges_bins(n: usize) -> usize;
#[verifier::external_body]
pub fn verif_sqrt_bins(n: usize) -> (r: usize) ensures r == sqrt_bins(n) { unimplemented!() }
#[verifier::external_body]
pub fn verif_rice_bins(n: usize) -> (r: usize) ensures r == rice_bins(n) { unimplemented!() }
#[verifier::external_body]
pub fn verif_sturges_bins(n: usize) -> (r: usize) ensures r == sturges_bins(n) { unimplemented!() }
// `(max - min) / from_usize(n)` with the element type's own operators
pub open spec fn width_spec<T: NumOps + FromPrimitive>(min: T, max: T, n: usize) -> T { max.sub_spec(min).div_spec(T::from_usize_spec(n).unwrap()) }
// A-NUM: the generic arithmetic is deterministic and defined for the operands
pub open spec fn width_ok<T: NumOps + FromPrimitive>() -> bool {
    &&& T::obeys_sub_spec() && T::obeys_div_spec()
    &&& forall|a: T, b: T| #[trigger] a.sub_req(b)
    &&& forall|a: T, b: T| #[trigger] a.div_req(b)
    &&& forall|n: usize| (#[trigger] T::from_usize_spec(n)) is Some
}
// for a total order whose partial_cmp agrees with cmp nothing is incomparable: no element counts as NaN
pub proof fn lemma_no_nan<T: Ord>(s: Seq<T>)
    requires lawful_ord::<T>()
    ensures !has_nan(s)
{
    reveal(lawful_ord);
}
// the EquiSpaced callee contract, as proved in unit `equispaced` (contract_sync)
impl<T> EquiSpaced<T>
where
    T: Ord + Clone + FromPrimitive + NumOps + Zero,
{
    #[verifier::external_body]
    pub fn new(bin_width: T, min: T, max: T) -> (r: Result<Self, BinsBuildError>)
        requires lawful_ord::<T>(),
        ensures
            r.is_err() <==> (le(bin_width, T::zero_spec()) || le(max, min)), // [C12,C17] constant data / non-positive width are rejected ...
            r.is_err() ==> r == Err::<Self, BinsBuildError>(BinsBuildError::Strategy), // [C12,C17] ... with the Strategy error
            r matches Ok(s) ==> s.bin_width == bin_width && s.min == min && s.max == max, // [C12]
    { unimplemented!() }
}

// ---- FreedmanDiaconis / Auto --------------------------------------------------------------------------------------------------
pub struct FreedmanDiaconis<T> { pub builder: EquiSpaced<T> }
pub enum SturgesOrFD<T> { Sturges(Sturges<T>), FreedmanDiaconis(FreedmanDiaconis<T>) }
pub struct Auto<T> { pub builder: SturgesOrFD<T> }
// what the FreedmanDiaconis front-end uses of the quantile API.  ASSUMED here (stated and proved, in the vocabulary of lanes, in
// unit `qglue`: InvalidQuantile for q outside [0,1], EmptyInput for an empty array, Ok otherwise, the array left a permutation of
// itself): a valid q on a non-empty array gives Ok(nearest_q(multiset, q)); the array keeps its multiset
#[derive(Debug)]
pub struct N64 { pub bits: u64 }
pub struct Nearest;
#[derive(Debug)]
pub enum QuantileError { EmptyInput, InvalidQuantile(N64) }
impl N64 { pub uninterp spec fn valid_q(&self) -> bool; }
// R18: the literals n64(0.25) and n64(0.75) lie in [0, 1]
pub uninterp spec fn q25() -> N64;
pub uninterp spec fn q75() -> N64;
#[verifier::external_body]
pub fn verif_q25() -> (r: N64) ensures r == q25(), r.valid_q() { unimplemented!() }
#[verifier::external_body]
pub fn verif_q75() -> (r: N64) ensures r == q75(), r.valid_q() { unimplemented!() }
// the value quantile_mut(q, &Nearest) returns for a non-empty collection: a function of the multiset of the elements (that the
// result does not depend on the arrangement, hence not on the pivots or on what an earlier call left behind, is proved in unit
// qglue for orders in which equivalent elements are identical: lemma_quantile_determined); its value is not interpreted here
pub uninterp spec fn nearest_q<A>(m: vstd::multiset::Multiset<A>, q: N64) -> A;
impl<A, D: Dimension> ArrayN<A, D> {
    #[verifier::external_body]
    pub fn to_owned(&self) -> (r: ArrayN<A, D>) where A: Clone
        ensures lawful_clone::<A>() ==> r@ == self@, r@.len() == self@.len()
    { unimplemented!() }
    #[verifier::external_body]
    pub fn quantile_mut(&mut self, q: N64, interpolate: &Nearest) -> (r: Result<A, QuantileError>) where A: Ord + Clone
        ensures
            final(self)@.len() == old(self)@.len(), final(self)@.to_multiset() == old(self)@.to_multiset(),
            q.valid_q() && old(self)@.len() > 0 ==> r == Ok::<A, QuantileError>(nearest_q(old(self)@.to_multiset(), q)),
    { unimplemented!() }
}
// R18: `(n_bins as f64).powf(1. / 3.)` - not interpreted
pub uninterp spec fn cbrt_f64(n: usize) -> f64;
#[verifier::external_body]
pub fn verif_cbrt(n: usize) -> (r: f64) ensures r == cbrt_f64(n) { unimplemented!() }
// 2 * iqr / from_f64(n^(1/3)) with the element type's own operators
pub open spec fn fd_width_spec<T: NumOps + FromPrimitive>(n: usize, iqr: T) -> T {
    T::from_usize_spec(2).unwrap().mul_spec(iqr).div_spec(T::from_f64_spec(cbrt_f64(n)).unwrap())
}
pub open spec fn fd_ok<T: NumOps + FromPrimitive>() -> bool {
    &&& width_ok::<T>() && T::obeys_mul_spec()
    &&& forall|a: T, b: T| #[trigger] a.mul_req(b)
    &&& forall|x: f64| (#[trigger] T::from_f64_spec(x)) is Some
}
// bin_width getters of the builders (src/histogram/strategies.rs: clones of the stored width)
impl<T: Clone> EquiSpaced<T> {
    #[verifier::external_body]
    pub fn bin_width(&self) -> (r: T) ensures lawful_clone::<T>() ==> r == self.bin_width
    { unimplemented!() }
}
// R16: order comparisons on values of an `Ord` type (std derives them from `cmp` for a lawful order - A-ORD)
#[verifier::external_body]
pub fn verif_val_gt<T: Ord>(a: T, b: T) -> (r: bool) ensures r == (a.cmp_spec(&b) == Ordering::Greater) { unimplemented!() }
#[verifier::external_body]
pub fn verif_val_lt<T: Ord>(a: T, b: T) -> (r: bool) ensures r == (a.cmp_spec(&b) == Ordering::Less) { unimplemented!() }
#[verifier::external_body]
pub fn verif_val_ge<T: Ord>(a: T, b: T) -> (r: bool) ensures r == (a.cmp_spec(&b) != Ordering::Less) { unimplemented!() }
#[verifier::external_body]
pub fn verif_val_le<T: Ord>(a: T, b: T) -> (r: bool) ensures r == (a.cmp_spec(&b) != Ordering::Greater) { unimplemented!() }
// the interquartile width of FreedmanDiaconis: 2 * (Q3 - Q1) / n^(1/3), quartiles by the Nearest strategy
pub open spec fn fd_width_of<T: NumOps + FromPrimitive>(data: Seq<T>) -> T {
    fd_width_spec(data.len() as usize, nearest_q(data.to_multiset(), q75()).sub_spec(nearest_q(data.to_multiset(), q25())))
}
