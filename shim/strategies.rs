// ---- shim for the bin-building strategies of src/histogram/strategies.rs (Sqrt, Rice, Sturges) ------------------------------
// the conversion of src/histogram/errors.rs used by `?` (extracted in the unit; its meaning is declared through FromSpecImpl)
impl vstd::std_specs::convert::FromSpecImpl<MinMaxError> for BinsBuildError {
    open spec fn obeys_from_spec() -> bool { true }
    open spec fn from_spec(v: MinMaxError) -> Self { match v { MinMaxError::EmptyInput => BinsBuildError::EmptyInput, MinMaxError::UndefinedOrder => BinsBuildError::Strategy } }
}
pub struct Ix1 {}
impl Dimension for Ix1 {
    type Pattern = usize;
    uninterp spec fn is_zeros(&self) -> bool;
    uninterp spec fn zero_pattern() -> usize;
    #[verifier::external_body]
    fn zeros(ndim: usize) -> (r: Self) { unimplemented!() }
    #[verifier::external_body]
    fn into_pattern(self) -> (p: usize) { unimplemented!() }
}
// callee contracts of QuantileExt::min / max, as proved for every layout in unit `minmax` (contract_sync)
impl<A: PartialOrd, D: Dimension> ArrayN<A, D> {
    #[verifier::external_body]
    pub fn min(&self) -> (r: Result<&A, MinMaxError>)
        requires float_like::<A>(),
        ensures
            self@.len() == 0 ==> r == Err::<&A, MinMaxError>(MinMaxError::EmptyInput), // [C05,C17]
            self@.len() > 0 && has_nan(self@) ==> r == Err::<&A, MinMaxError>(MinMaxError::UndefinedOrder), // [C05]
            self@.len() > 0 && !has_nan(self@) ==> (r matches Ok(x) && exists|k: int| is_min_at(self@, k) && *x == self@[k]), // [C05,C20] a reference to a minimal element
    { unimplemented!() }
    #[verifier::external_body]
    pub fn max(&self) -> (r: Result<&A, MinMaxError>)
        requires float_like::<A>(),
        ensures
            self@.len() == 0 ==> r == Err::<&A, MinMaxError>(MinMaxError::EmptyInput), // [C05,C17]
            self@.len() > 0 && has_nan(self@) ==> r == Err::<&A, MinMaxError>(MinMaxError::UndefinedOrder), // [C05]
            self@.len() > 0 && !has_nan(self@) ==> (r matches Ok(x) && exists|k: int| is_max_at(self@, k) && *x == self@[k]), // [C05,C20] a reference to a maximal element
    { unimplemented!() }
}
// the strategies hold the equispaced builder they were fitted to
pub struct Sqrt<T> { pub builder: EquiSpaced<T> }
pub struct Rice<T> { pub builder: EquiSpaced<T> }
pub struct Sturges<T> { pub builder: EquiSpaced<T> }
// R18: the floating-point formula for the number of bins is not interpreted (its value only enters the bin width)
pub uninterp spec fn sqrt_bins(n: usize) -> usize;
pub uninterp spec fn rice_bins(n: usize) -> usize;
pub uninterp spec fn sturges_bins(n: usize) -> usize;
#[verifier::external_body]
pub fn verif_sqrt_bins(n: usize) -> (r: usize) ensures r == sqrt_bins(n) { unimplemented!() }
#[verifier::external_body]
pub fn verif_rice_bins(n: usize) -> (r: usize) ensures r == rice_bins(n) { unimplemented!() }
#[verifier::external_body]
pub fn verif_sturges_bins(n: usize) -> (r: usize) ensures r == sturges_bins(n) { unimplemented!() }
// `(max - min) / from_usize(n)` with the element type's own operators
pub open spec fn width_spec<T: NumOps + FromPrimitive>(min: T, max: T, n: usize) -> T { max.sub_spec(min).div_spec(T::from_usize_spec(n).unwrap()) }
// A-NUM: the generic arithmetic is deterministic and defined for the operands
pub open spec fn width_ok<T: NumOps + FromPrimitive>() -> bool {
    &&& T::obeys_sub_spec() && T::obeys_div_spec()
    &&& forall|a: T, b: T| #[trigger] a.sub_req(b)
    &&& forall|a: T, b: T| #[trigger] a.div_req(b)
    &&& forall|n: usize| (#[trigger] T::from_usize_spec(n)) is Some
}
// for a total order whose partial_cmp agrees with cmp nothing is incomparable: no element counts as NaN
pub proof fn lemma_no_nan<T: Ord>(s: Seq<T>)
    requires lawful_ord::<T>()
    ensures !has_nan(s)
{
    reveal(lawful_ord);
}
// the EquiSpaced callee contract, as proved in unit `equispaced` (contract_sync)
impl<T> EquiSpaced<T>
where
    T: Ord + Clone + FromPrimitive + NumOps + Zero,
{
    #[verifier::external_body]
    pub fn new(bin_width: T, min: T, max: T) -> (r: Result<Self, BinsBuildError>)
        requires lawful_ord::<T>(),
        ensures
            r.is_err() <==> (le(bin_width, T::zero_spec()) || le(max, min)), // [C12,C17] constant data / non-positive width are rejected ...
            r.is_err() ==> r == Err::<Self, BinsBuildError>(BinsBuildError::Strategy), // [C12,C17] ... with the Strategy error
            r matches Ok(s) ==> s.bin_width == bin_width && s.min == min && s.max == max, // [C12]
    { unimplemented!() }
}
