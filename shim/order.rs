// ---- spec library: order laws, permutations (all lemmas proved, none admitted) ----------------

pub open spec fn lt<A: Ord>(a: A, b: A) -> bool { a.cmp_spec(&b) == Ordering::Less }
pub open spec fn le<A: Ord>(a: A, b: A) -> bool { a.cmp_spec(&b) != Ordering::Greater }
pub open spec fn eqv<A: Ord>(a: A, b: A) -> bool { a.cmp_spec(&b) == Ordering::Equal }

// A-ORD: the element type's Ord / PartialOrd implementation is a lawful total (pre)order.
pub open spec fn ord_laws<A: Ord>() -> bool {
    &&& A::obeys_partial_cmp_spec()
    &&& A::obeys_cmp_spec()
    &&& forall|a: A, b: A| #[trigger] a.partial_cmp_spec(&b) == Some(a.cmp_spec(&b))
    &&& forall|a: A| #[trigger] a.cmp_spec(&a) == Ordering::Equal
    &&& forall|a: A, b: A| (#[trigger] a.cmp_spec(&b) == Ordering::Less) <==> (b.cmp_spec(&a) == Ordering::Greater)
    &&& forall|a: A, b: A| (#[trigger] a.cmp_spec(&b) == Ordering::Equal) ==> (b.cmp_spec(&a) == Ordering::Equal)
    &&& forall|a: A, b: A, c: A| #[trigger] le(a, b) && #[trigger] le(b, c) ==> le(a, c)
}

// The form used in contracts: opaque, so that the quantified laws only enter the solver context of the
// functions and lemmas that actually compare elements (they `reveal` it).
#[verifier::opaque]
pub open spec fn lawful_ord<A: Ord>() -> bool { ord_laws::<A>() }

// A-CLONE: clone returns an equal value.
pub open spec fn lawful_clone<A: Clone>() -> bool {
    forall|a: A, b: A| #[trigger] call_ensures(A::clone, (&a,), b) ==> a == b
}

// non-vacuity of A-ORD: it holds for the machine integers
pub proof fn lemma_lawful_ord_u64() ensures lawful_ord::<u64>() { reveal(lawful_ord); }
pub proof fn lemma_lawful_ord_i64() ensures lawful_ord::<i64>() { reveal(lawful_ord); }
pub proof fn lemma_lawful_ord_usize() ensures lawful_ord::<usize>() { reveal(lawful_ord); }

pub open spec fn perm<A>(s: Seq<A>, t: Seq<A>) -> bool { s.to_multiset() == t.to_multiset() }

pub proof fn lemma_swap_multiset<A>(s: Seq<A>, a: int, b: int)
    requires 0 <= a < s.len(), 0 <= b < s.len()
    ensures s.update(a, s[b]).update(b, s[a]).to_multiset() == s.to_multiset()
{
    broadcast use vstd::seq_lib::group_to_multiset_ensures;
    let s1 = s.update(a, s[b]);
    assert(s1.to_multiset() == s.to_multiset().insert(s[b]).remove(s[a]));
    let s2 = s1.update(b, s[a]);
    assert(s1[b] == s[b] || a == b);
    assert(s2.to_multiset() == s1.to_multiset().insert(s[a]).remove(s1[b]));
    assert(s2.to_multiset() =~= s.to_multiset());
}

pub proof fn lemma_perm_contains<A>(s: Seq<A>, t: Seq<A>, k: int)
    requires perm(s, t), 0 <= k < t.len()
    ensures exists|m: int| 0 <= m < s.len() && s[m] == t[k]
{
    broadcast use vstd::seq_lib::group_to_multiset_ensures;
    assert(t.to_multiset().count(t[k]) > 0);
    assert(s.to_multiset().count(t[k]) > 0);
    assert(s.contains(t[k]));
}

pub proof fn lemma_perm_len<A>(s: Seq<A>, t: Seq<A>)
    requires perm(s, t)
    ensures s.len() == t.len()
{
    broadcast use vstd::seq_lib::group_to_multiset_ensures;
    assert(s.to_multiset().len() == t.to_multiset().len());
}

pub proof fn lemma_perm_concat3<A>(a: Seq<A>, m: Seq<A>, m2: Seq<A>, c: Seq<A>)
    requires perm(m, m2)
    ensures perm(a + m + c, a + m2 + c)
{
    vstd::seq_lib::lemma_multiset_commutative(a, m);
    vstd::seq_lib::lemma_multiset_commutative(a + m, c);
    vstd::seq_lib::lemma_multiset_commutative(a, m2);
    vstd::seq_lib::lemma_multiset_commutative(a + m2, c);
}

// `x` is what a full sort puts at position i: partition form (the literal wording of C02)
pub open spec fn selected_at<A: Ord>(s: Seq<A>, i: int, x: A) -> bool {
    &&& 0 <= i < s.len()
    &&& x == s[i]
    &&& forall|k: int| 0 <= k < i ==> le(#[trigger] s[k], x)
    &&& forall|k: int| i <= k < s.len() ==> le(x, #[trigger] s[k])
}

pub open spec fn sorted_le<A: Ord>(s: Seq<A>) -> bool {
    forall|a: int, b: int| 0 <= a <= b < s.len() ==> le(#[trigger] s[a], #[trigger] s[b])
}
