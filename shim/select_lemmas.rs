// ---- lemmas used by the selection proofs (all proved) ----------------------------------------

pub proof fn lemma_all_lt_perm<A: Ord>(s: Seq<A>, t: Seq<A>, pv: A)
    requires perm(s, t), forall|k: int| 0 <= k < s.len() ==> lt(#[trigger] s[k], pv)
    ensures forall|k: int| 0 <= k < t.len() ==> lt(#[trigger] t[k], pv)
{
    assert forall|k: int| 0 <= k < t.len() implies lt(#[trigger] t[k], pv) by {
        lemma_perm_contains(s, t, k);
    }
}

pub proof fn lemma_all_ge_perm<A: Ord>(s: Seq<A>, t: Seq<A>, pv: A)
    requires perm(s, t), forall|k: int| 0 <= k < s.len() ==> !lt(#[trigger] s[k], pv)
    ensures forall|k: int| 0 <= k < t.len() ==> !lt(#[trigger] t[k], pv)
{
    assert forall|k: int| 0 <= k < t.len() implies !lt(#[trigger] t[k], pv) by {
        lemma_perm_contains(s, t, k);
    }
}

// `fin` is partitioned around position p; a selection inside the left part is a selection in `fin`
pub proof fn lemma_select_left<A: Ord>(fin: Seq<A>, p: int, idx: int, v: A)
    requires
        lawful_ord::<A>(),
        0 <= idx < p < fin.len(),
        forall|j: int| 0 <= j < p ==> lt(#[trigger] fin[j], fin[p]),
        forall|j: int| p < j < fin.len() ==> !lt(#[trigger] fin[j], fin[p]),
        selected_at(fin.subrange(0, p), idx, v),
    ensures selected_at(fin, idx, v)
{
    reveal(lawful_ord);
    let l = fin.subrange(0, p);
    let pv = fin[p];
    assert(l[idx] == fin[idx]);
    assert(lt(fin[idx], pv));
    assert forall|k: int| 0 <= k < idx implies le(#[trigger] fin[k], v) by { assert(l[k] == fin[k]); }
    assert forall|k: int| idx <= k < fin.len() implies le(v, #[trigger] fin[k]) by {
        if k < p { assert(l[k] == fin[k]); }
        else if k == p { }
        else { assert(!lt(fin[k], pv)); assert(le(pv, fin[k])); assert(le(v, pv)); }
    }
}

pub proof fn lemma_select_right<A: Ord>(fin: Seq<A>, p: int, idx: int, v: A)
    requires
        lawful_ord::<A>(),
        0 <= p < idx < fin.len(),
        forall|j: int| 0 <= j < p ==> lt(#[trigger] fin[j], fin[p]),
        forall|j: int| p < j < fin.len() ==> !lt(#[trigger] fin[j], fin[p]),
        selected_at(fin.subrange(p + 1, fin.len() as int), idx - (p + 1), v),
    ensures selected_at(fin, idx, v)
{
    reveal(lawful_ord);
    let r = fin.subrange(p + 1, fin.len() as int);
    let pv = fin[p];
    assert(r[idx - (p + 1)] == fin[idx]);
    assert(!lt(fin[idx], pv));
    assert(le(pv, v));
    assert forall|k: int| 0 <= k < idx implies le(#[trigger] fin[k], v) by {
        if k < p { assert(lt(fin[k], pv)); assert(le(fin[k], pv)); }
        else if k == p { }
        else { assert(r[k - (p + 1)] == fin[k]); }
    }
    assert forall|k: int| idx <= k < fin.len() implies le(v, #[trigger] fin[k]) by { assert(r[k - (p + 1)] == fin[k]); }
}

pub proof fn lemma_select_pivot<A: Ord>(fin: Seq<A>, p: int)
    requires
        lawful_ord::<A>(),
        0 <= p < fin.len(),
        forall|j: int| 0 <= j < p ==> lt(#[trigger] fin[j], fin[p]),
        forall|j: int| p < j < fin.len() ==> !lt(#[trigger] fin[j], fin[p]),
    ensures selected_at(fin, p, fin[p])
{
    reveal(lawful_ord);
    assert forall|k: int| 0 <= k < p implies le(#[trigger] fin[k], fin[p]) by { assert(lt(fin[k], fin[p])); }
    assert forall|k: int| p <= k < fin.len() implies le(fin[p], #[trigger] fin[k]) by {
        if k > p { assert(!lt(fin[k], fin[p])); }
    }
}

// replacing the left (resp. right) part of a partitioned sequence by a permutation of itself keeps
// the whole a permutation and keeps it partitioned
pub proof fn lemma_repartition<A: Ord>(mid: Seq<A>, fin: Seq<A>, p: int)
    requires
        0 <= p < mid.len(), fin.len() == mid.len(),
        fin[p] == mid[p],
        perm(fin.subrange(0, p), mid.subrange(0, p)),
        perm(fin.subrange(p + 1, fin.len() as int), mid.subrange(p + 1, mid.len() as int)),
        forall|j: int| 0 <= j < p ==> lt(#[trigger] mid[j], mid[p]),
        forall|j: int| p < j < mid.len() ==> !lt(#[trigger] mid[j], mid[p]),
    ensures
        perm(fin, mid),
        forall|j: int| 0 <= j < p ==> lt(#[trigger] fin[j], fin[p]),
        forall|j: int| p < j < fin.len() ==> !lt(#[trigger] fin[j], fin[p]),
{
    let n = mid.len() as int;
    let pv = mid[p];
    let l = mid.subrange(0, p); let l2 = fin.subrange(0, p);
    let r = mid.subrange(p + 1, n); let r2 = fin.subrange(p + 1, n);
    let c = seq![pv];
    assert(mid =~= l + c + r);
    assert(fin =~= l2 + c + r2);
    // l + c + r  ~  l2 + c + r  ~  l2 + c + r2
    lemma_perm_concat3(Seq::<A>::empty(), l, l2, c + r);
    assert(Seq::<A>::empty() + l + (c + r) =~= l + c + r);
    assert(Seq::<A>::empty() + l2 + (c + r) =~= l2 + c + r);
    lemma_perm_concat3(l2 + c, r, r2, Seq::<A>::empty());
    assert(l2 + c + r + Seq::<A>::empty() =~= l2 + c + r);
    assert(l2 + c + r2 + Seq::<A>::empty() =~= l2 + c + r2);
    assert forall|j: int| 0 <= j < l.len() implies lt(#[trigger] l[j], pv) by { assert(l[j] == mid[j]); }
    lemma_all_lt_perm(l, l2, pv);
    assert forall|j: int| 0 <= j < p implies lt(#[trigger] fin[j], fin[p]) by { assert(l2[j] == fin[j]); }
    assert forall|j: int| 0 <= j < r.len() implies !lt(#[trigger] r[j], pv) by { assert(r[j] == mid[j + p + 1]); }
    lemma_all_ge_perm(r, r2, pv);
    assert forall|j: int| p < j < fin.len() implies !lt(#[trigger] fin[j], fin[p]) by { assert(r2[j - (p + 1)] == fin[j]); }
}
