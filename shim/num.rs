// ---- A-NUM: shim of the num_traits bounds used by EquiSpaced<T> --------------------------------
// Arithmetic on the generic element type is uninterpreted but deterministic: `a + b` is
// `a.add_spec(b)` (vstd AddSpec/MulSpec under `obeys_*_spec`), nothing else is known about it.
pub trait FromPrimitive: Sized {
    spec fn from_usize_spec(n: usize) -> Option<Self>;
    fn from_usize(n: usize) -> (r: Option<Self>)
        ensures r == Self::from_usize_spec(n);
    spec fn from_f64_spec(x: f64) -> Option<Self>;
    fn from_f64(x: f64) -> (r: Option<Self>)
        ensures r == Self::from_f64_spec(x);
}
pub trait Zero: Sized {
    spec fn zero_spec() -> Self;
    fn zero() -> (r: Self)
        ensures r == Self::zero_spec();
}
// num_traits::NumOps = Add + Sub + Mul + Div + Rem (Rem is not used by the crate's code)
pub trait NumOps: Add<Output = Self> + Sub<Output = Self> + Mul<Output = Self> + Div<Output = Self> + Sized {}

pub open spec fn num_ok<T: NumOps>() -> bool {
    &&& T::obeys_add_spec()
    &&& T::obeys_mul_spec()
}

// the arithmetic of the i-th edge is defined (for machine integers: does not overflow)
pub open spec fn edge_defined<T: NumOps + FromPrimitive>(min: T, w: T, i: usize) -> bool {
    &&& T::from_usize_spec(i).is_some()
    &&& T::from_usize_spec(i).unwrap().mul_req(w)
    &&& min.add_req(T::from_usize_spec(i).unwrap().mul_spec(w))
}

// the i-th edge as `build` computes it: min + from_usize(i) * width
pub open spec fn edge_at<T: NumOps + FromPrimitive>(min: T, w: T, i: usize) -> T {
    min.add_spec(T::from_usize_spec(i).unwrap().mul_spec(w))
}

#[derive(Debug)]
pub enum BinsBuildError { EmptyInput, Strategy }

pub struct EquiSpaced<T> { pub bin_width: T, pub min: T, pub max: T }

// ---- coverage lemma (proved): strictly sorted edges with e[0] <= v < e[last] have a bin for v -----
pub proof fn lemma_cover<A: Ord>(e: Seq<A>, v: A)
    requires lawful_ord::<A>(), strictly_sorted(e), e.len() >= 1, le(e[0], v), lt(v, e[e.len() - 1])
    ensures exists|i: int| in_bin(e, i, v)
    decreases e.len()
{
    reveal(lawful_ord);
    reveal(strictly_sorted);
    let n = e.len() as int;
    if n == 1 {
        assert(false);
    } else if le(e[n - 2], v) {
        assert(in_bin(e, n - 2, v));
    } else {
        let t = e.drop_last();
        assert(strictly_sorted(t)) by {
            assert forall|a: int, b: int| 0 <= a < b < t.len() implies lt(t[a], t[b]) by { assert(t[a] == e[a] && t[b] == e[b]); }
        }
        assert(lt(v, t[t.len() - 1]));
        lemma_cover(t, v);
        let i = choose|i: int| in_bin(t, i, v);
        assert(t[i] == e[i] && t[i + 1] == e[i + 1]);
        assert(in_bin(e, i, v));
    }
}

// the first / last element of strictly sorted edges bound every element (proved)
pub proof fn lemma_ss_bounds<A: Ord>(e: Seq<A>, x: A)
    requires lawful_ord::<A>(), strictly_sorted(e), e.contains(x)
    ensures le(e[0], x), le(x, e[e.len() - 1])
{
    reveal(lawful_ord);
    reveal(strictly_sorted);
    let j = choose|j: int| 0 <= j < e.len() && e[j] == x;
    if 0 < j { assert(lt(e[0], e[j])); }
    if j < e.len() - 1 { assert(lt(e[j], e[e.len() - 1])); }
}
