use crate::fw::*;
use crate::lay::shapes;
use ndarray::prelude::*;
use ndarray_stats::errors::*;
use ndarray_stats::interpolate::{Linear, Lower, Midpoint, Nearest};
use ndarray_stats::{CorrelationExt, DeviationExt, EntropyExt, Quantile1dExt, QuantileExt, SummaryStatisticsExt};
use noisy_float::types::n64;
use serde_json::json;

#[derive(Debug, PartialEq, Clone)]
enum Out { Ok, Empty, Shape(Vec<usize>, Vec<usize>), BadQ(f64), Other(String) }

fn mi<T>(r: Result<T, MultiInputError>) -> Out {
    match r { Ok(_) => Out::Ok, Err(MultiInputError::EmptyInput) => Out::Empty, Err(MultiInputError::ShapeMismatch(s)) => Out::Shape(s.first_shape, s.second_shape) }
}
fn em<T>(r: Result<T, EmptyInput>) -> Out { match r { Ok(_) => Out::Ok, Err(EmptyInput) => Out::Empty } }
fn mm<T>(r: Result<T, MinMaxError>) -> Out { match r { Ok(_) => Out::Ok, Err(MinMaxError::EmptyInput) => Out::Empty, Err(e) => Out::Other(format!("{:?}", e)) } }
fn qe<T>(r: Result<T, QuantileError>) -> Out { match r { Ok(_) => Out::Ok, Err(QuantileError::EmptyInput) => Out::Empty, Err(QuantileError::InvalidQuantile(q)) => Out::BadQ(q.raw()) } }

fn check(cfg: &Cfg, rep: &mut Report, case: &str, routine: &str, f: impl FnOnce() -> Out, want: Out, nontrivial: bool) {
    let c = format!("{};routine={}", case, routine);
    if !rep.want(cfg, &c) { return; }
    match guarded(f) {
        Err(m) => rep.fail(cfg, &c, "a documented error condition surfaced as a panic", json!({"panic": m, "expected": format!("{:?}", want)})),
        Ok(got) => if got != want { rep.fail(cfg, &c, "wrong error / Ok decision", json!({"got": format!("{:?}", got), "expected": format!("{:?}", want)})); }
    }
    rep.eval(&c, nontrivial);
}

/// C17: the full decision table of documented errors
pub fn errors(cfg: &mut Cfg, rep: &mut Report) {
    rep.bound = "dimensionalities 1..3 with every axis length in 0..=2 (all shapes, all ordered pairs of shapes of equal rank), q classes {valid, <0, >1, several invalid}, every fallible public routine, f64 / i32 / N64 elements; element values are irrelevant to the error paths (value-independent guards)".to_string();
    for ndim in 1..=3usize {
        let shs = shapes(ndim, 2);
        for sa in &shs {
            let na: usize = sa.iter().product();
            let a = ArrayD::<f64>::from_elem(IxDyn(sa), 0.5);
            let ai = ArrayD::<i32>::from_elem(IxDyn(sa), 3);
            let case = format!("errors;shape={:?}", sa);
            let e1 = if na == 0 { Out::Empty } else { Out::Ok };
            // single-input routines
            check(cfg, rep, &case, "mean", || em(SummaryStatisticsExt::mean(&a)), e1.clone(), true);
            check(cfg, rep, &case, "mean_i32", || em(SummaryStatisticsExt::mean(&ai)), e1.clone(), true);
            check(cfg, rep, &case, "harmonic_mean", || em(a.harmonic_mean()), e1.clone(), true);
            check(cfg, rep, &case, "geometric_mean", || em(a.geometric_mean()), e1.clone(), true);
            check(cfg, rep, &case, "central_moment", || em(a.central_moment(3)), e1.clone(), true);
            check(cfg, rep, &case, "central_moments", || em(a.central_moments(3)), e1.clone(), true);
            check(cfg, rep, &case, "kurtosis", || em(a.kurtosis()), e1.clone(), true);
            check(cfg, rep, &case, "skewness", || em(a.skewness()), e1.clone(), true);
            check(cfg, rep, &case, "entropy", || em(a.entropy()), e1.clone(), true);
            check(cfg, rep, &case, "min", || mm(a.min()), e1.clone(), true);
            check(cfg, rep, &case, "max", || mm(a.max()), e1.clone(), true);
            check(cfg, rep, &case, "argmin", || mm(a.argmin()), e1.clone(), true);
            check(cfg, rep, &case, "argmax", || mm(ai.argmax()), e1.clone(), true);
            check(cfg, rep, &case, "argmin_skipnan", || em(a.argmin_skipnan()), e1.clone(), true);
            check(cfg, rep, &case, "argmax_skipnan", || em(a.argmax_skipnan()), e1.clone(), true);
            // pair-input routines against every shape of the same rank
            for sb in &shs {
                let b = ArrayD::<f64>::from_elem(IxDyn(sb), 0.25);
                let bi = ArrayD::<i32>::from_elem(IxDyn(sb), 4);
                let c2 = format!("{};other={:?}", case, sb);
                let e2 = if na == 0 { Out::Empty } else if sa != sb { Out::Shape(sa.clone(), sb.clone()) } else { Out::Ok };
                let nt = na > 0 && sa != sb;
                check(cfg, rep, &c2, "count_eq", || mi(ai.count_eq(&bi)), e2.clone(), nt);
                check(cfg, rep, &c2, "count_neq", || mi(ai.count_neq(&bi)), e2.clone(), nt);
                check(cfg, rep, &c2, "sq_l2_dist", || mi(ai.sq_l2_dist(&bi)), e2.clone(), nt);
                check(cfg, rep, &c2, "l2_dist", || mi(a.l2_dist(&b)), e2.clone(), nt);
                check(cfg, rep, &c2, "l1_dist", || mi(a.l1_dist(&b)), e2.clone(), nt);
                check(cfg, rep, &c2, "linf_dist", || mi(ai.linf_dist(&bi)), e2.clone(), nt);
                check(cfg, rep, &c2, "mean_abs_err", || mi(a.mean_abs_err(&b)), e2.clone(), nt);
                check(cfg, rep, &c2, "mean_sq_err", || mi(a.mean_sq_err(&b)), e2.clone(), nt);
                check(cfg, rep, &c2, "root_mean_sq_err", || mi(a.root_mean_sq_err(&b)), e2.clone(), nt);
                check(cfg, rep, &c2, "peak_signal_to_noise_ratio", || mi(a.peak_signal_to_noise_ratio(&b, 1.0)), e2.clone(), nt);
                check(cfg, rep, &c2, "kl_divergence", || mi(a.kl_divergence(&b)), e2.clone(), nt);
                check(cfg, rep, &c2, "cross_entropy", || mi(a.cross_entropy(&b)), e2.clone(), nt);
                check(cfg, rep, &c2, "weighted_mean", || mi(a.weighted_mean(&b)), e2.clone(), nt);
                check(cfg, rep, &c2, "weighted_var", || mi(a.weighted_var(&b, 0.0)), e2.clone(), nt);
                check(cfg, rep, &c2, "weighted_std", || mi(a.weighted_std(&b, 0.0)), e2.clone(), nt);
                // the sum-type routine accepts empty input (zero) and only checks the shape
                let es = if sa != sb { Out::Shape(sa.clone(), sb.clone()) } else { Out::Ok };
                check(cfg, rep, &c2, "weighted_sum", || mi(ai.weighted_sum(&bi)), es.clone(), sa != sb);
                if sa == sb && na == 0 {
                    let c3 = format!("{};routine=weighted_sum_zero", c2);
                    if rep.want(cfg, &c3) { if ai.weighted_sum(&bi) != Ok(0) { rep.fail(cfg, &c3, "weighted_sum of empty input is not zero", json!({})); } rep.eval(&c3, true); }
                }
            }
            // per-axis weights
            for ax in 0..ndim { for wl in 0..=3usize {
                let w = Array1::<f64>::from_elem(wl, 1.0).into_dyn();
                let wi = Array1::<i32>::from_elem(wl, 1).into_dyn();
                let w1 = w.clone().into_dimensionality::<Ix1>().unwrap();
                let wi1 = wi.clone().into_dimensionality::<Ix1>().unwrap();
                let c2 = format!("{};axis={};weights_len={}", case, ax, wl);
                let mism = sa[ax] != wl;
                let es = if mism { Out::Shape(sa.clone(), vec![wl]) } else { Out::Ok };
                let e2 = if na == 0 { Out::Empty } else { es.clone() };
                // storage type of the weights must equal the data's: use the dyn arrays converted back
                check(cfg, rep, &c2, "weighted_sum_axis", || mi(ai.weighted_sum_axis(Axis(ax), &wi1)), es.clone(), mism);
                check(cfg, rep, &c2, "weighted_mean_axis", || mi(a.weighted_mean_axis(Axis(ax), &w1)), e2.clone(), mism && na > 0);
                check(cfg, rep, &c2, "weighted_var_axis", || mi(a.weighted_var_axis(Axis(ax), &w1, 0.0)), e2.clone(), mism && na > 0);
                check(cfg, rep, &c2, "weighted_std_axis", || mi(a.weighted_std_axis(Axis(ax), &w1, 0.0)), e2.clone(), mism && na > 0);
                if !mism && na == 0 && sa.iter().enumerate().all(|(i, d)| i == ax || *d > 0) {
                    let c3 = format!("{};routine=weighted_sum_axis_zero", c2);
                    if rep.want(cfg, &c3) { if let Ok(r) = ai.weighted_sum_axis(Axis(ax), &wi1) { if r.iter().any(|x| *x != 0) { rep.fail(cfg, &c3, "weighted_sum_axis over an empty axis is not zero", json!({})); } } rep.eval(&c3, true); }
                }
            }}
            // quantiles: q validity is checked before emptiness
            let qsets: Vec<(Vec<f64>, Option<f64>)> = vec![(vec![0.5], None), (vec![0.0, 1.0], None), (vec![-0.1], Some(-0.1)), (vec![1.5], Some(1.5)), (vec![0.2, 1.5, -3.0], Some(1.5)), (vec![-2.0, 0.3, 7.0], Some(-2.0)), (vec![], None)];
            for ax in 0..ndim { for (qs, bad) in &qsets {
                let c2 = format!("{};axis={};qs={:?}", case, ax, qs);
                let want = match bad { Some(q) => Out::BadQ(*q), None => if sa[ax] == 0 { Out::Empty } else { Out::Ok } };
                let qa = Array1::from(qs.iter().map(|q| n64(*q)).collect::<Vec<_>>());
                check(cfg, rep, &c2, "quantiles_axis_mut", || { let mut d = ai.clone(); qe(d.quantiles_axis_mut(Axis(ax), &qa, &Lower)) }, want.clone(), bad.is_some() || sa[ax] == 0);
                check(cfg, rep, &c2, "quantiles_axis_mut_linear_f", || { let mut d = a.mapv(n64); qe(d.quantiles_axis_mut(Axis(ax), &qa, &Linear)) }, want.clone(), bad.is_some() || sa[ax] == 0);
                if qs.len() == 1 {
                    check(cfg, rep, &c2, "quantile_axis_mut", || { let mut d = ai.clone(); qe(d.quantile_axis_mut(Axis(ax), n64(qs[0]), &Midpoint)) }, want.clone(), bad.is_some() || sa[ax] == 0);
                    check(cfg, rep, &c2, "quantile_axis_skipnan_mut", || { let mut d = a.clone(); qe(d.quantile_axis_skipnan_mut(Axis(ax), n64(qs[0]), &Nearest)) }, want.clone(), bad.is_some() || sa[ax] == 0);
                }
                if ndim == 1 {
                    check(cfg, rep, &c2, "quantiles_mut", || { let mut d = ai.clone().into_dimensionality::<Ix1>().unwrap(); qe(d.quantiles_mut(&qa, &Lower)) }, want.clone(), bad.is_some() || sa[0] == 0);
                    if qs.len() == 1 { check(cfg, rep, &c2, "quantile_mut", || { let mut d = ai.clone().into_dimensionality::<Ix1>().unwrap(); qe(d.quantile_mut(n64(qs[0]), &Lower)) }, want.clone(), bad.is_some() || sa[0] == 0); }
                }
            }}
            // covariance / correlation: 2-D only
            if ndim == 2 {
                let m = a.clone().into_dimensionality::<Ix2>().unwrap();
                let (nv, no) = (sa[0], sa[1]);
                let want = if nv == 0 || no == 0 { Out::Empty } else { Out::Ok };
                for ddof in [0.0f64, 1.0] {
                    if no > 0 && ddof >= no as f64 { continue; } // documented panic: ddof >= number of observations (non-empty input)
                    let cls = if nv == 0 && no > 0 { ";class=cov_zero_variables" } else { "" };
                    check(cfg, rep, &format!("{};ddof={}{}", case, ddof, cls), "cov", || em(m.cov(ddof)), want.clone(), true);
                }
                check(cfg, rep, &case, "pearson_correlation", || em(m.pearson_correlation()), want.clone(), true);
            }
        }
    }
}
