use crate::fw::*;
use ndarray::prelude::*;
use ndarray_stats::interpolate::{Higher, Interpolate, Linear, Lower, Midpoint, Nearest};
use ndarray_stats::{Quantile1dExt, QuantileExt};
use noisy_float::types::{n64, N64};
use serde_json::json;

/// element types under test
pub trait QElem: Ord + Clone + std::fmt::Debug + 'static + num_traits::NumOps + num_traits::FromPrimitive + num_traits::ToPrimitive {
    const NAME: &'static str;
    fn alphabet() -> Vec<Self>;
    fn guard() -> Self;
    fn as_f(&self) -> f64;        // exact for the alphabets used
    fn as_i(&self) -> Option<i128>; // None for floats
}
macro_rules! qint { ($t:ty, $name:expr, $alpha:expr) => {
    impl QElem for $t {
        const NAME: &'static str = $name;
        fn alphabet() -> Vec<Self> { $alpha.to_vec() }
        fn guard() -> Self { 77 }
        fn as_f(&self) -> f64 { *self as f64 }
        fn as_i(&self) -> Option<i128> { Some(*self as i128) }
    }
}}
qint!(i8, "i8", [i8::MIN, -1, 2, i8::MAX]);
qint!(u8, "u8", [0u8, 1, 200, u8::MAX]);
qint!(i64, "i64", [-(1i64 << 51), -3, 4, (1i64 << 51) + 1]);
qint!(i32, "i32", [-7i32, 0, 1, 10]);
impl QElem for N64 {
    const NAME: &'static str = "N64";
    fn alphabet() -> Vec<Self> { vec![n64(-2.5), n64(-0.0), n64(1.0), n64(1e9)] }
    fn guard() -> Self { n64(77.0) }
    fn as_f(&self) -> f64 { self.raw() }
    fn as_i(&self) -> Option<i128> { None }
}

pub fn q_grid(n: usize) -> Vec<f64> {
    let mut qs = vec![0.0, 1.0, 0.3, 0.77, 0.5];
    if n > 1 {
        for k in 0..n {
            let q = k as f64 / (n - 1) as f64;
            qs.push(q);
            if q > 0.0 { qs.push(f64::from_bits(q.to_bits() - 1)); }
            if q < 1.0 { qs.push(f64::from_bits(q.to_bits() + 1)); }
            let h = (k as f64 + 0.5) / (n - 1) as f64;
            if h <= 1.0 { qs.push(h); }
        }
    }
    qs.sort_by(|a, b| a.partial_cmp(b).unwrap());
    qs.dedup();
    qs
}

/// the documented index computation: position (N-1)q in f64
pub fn idx(q: f64, n: usize) -> (usize, usize, f64) {
    let x = q * ((n - 1) as f64);
    (x.floor() as usize, x.ceil() as usize, x.fract())
}

#[derive(Clone, Copy, Debug, PartialEq)]
pub enum Strat { Lower, Higher, Nearest, Midpoint, Linear }
pub const STRATS: [Strat; 5] = [Strat::Lower, Strat::Higher, Strat::Nearest, Strat::Midpoint, Strat::Linear];

pub fn run_axis<T: QElem>(a: &mut ArrayViewMutD<T>, axis: usize, qs: &[f64], s: Strat) -> Result<ArrayD<T>, String> {
    let qa = Array1::from(qs.iter().map(|q| n64(*q)).collect::<Vec<_>>());
    let r = match s {
        Strat::Lower => a.quantiles_axis_mut(Axis(axis), &qa, &Lower),
        Strat::Higher => a.quantiles_axis_mut(Axis(axis), &qa, &Higher),
        Strat::Nearest => a.quantiles_axis_mut(Axis(axis), &qa, &Nearest),
        Strat::Midpoint => a.quantiles_axis_mut(Axis(axis), &qa, &Midpoint),
        Strat::Linear => a.quantiles_axis_mut(Axis(axis), &qa, &Linear),
    };
    r.map_err(|e| format!("{:?}", e))
}
pub fn run_single_axis<T: QElem>(a: &mut ArrayViewMutD<T>, axis: usize, q: f64, s: Strat) -> Result<ArrayD<T>, String> {
    let q = n64(q);
    let r = match s {
        Strat::Lower => a.quantile_axis_mut(Axis(axis), q, &Lower),
        Strat::Higher => a.quantile_axis_mut(Axis(axis), q, &Higher),
        Strat::Nearest => a.quantile_axis_mut(Axis(axis), q, &Nearest),
        Strat::Midpoint => a.quantile_axis_mut(Axis(axis), q, &Midpoint),
        Strat::Linear => a.quantile_axis_mut(Axis(axis), q, &Linear),
    };
    r.map_err(|e| format!("{:?}", e))
}
pub fn run_1d<T: QElem>(a: &mut ArrayViewMut1<T>, q: f64, s: Strat) -> Result<T, String> {
    let q = n64(q);
    let r = match s {
        Strat::Lower => a.quantile_mut(q, &Lower),
        Strat::Higher => a.quantile_mut(q, &Higher),
        Strat::Nearest => a.quantile_mut(q, &Nearest),
        Strat::Midpoint => a.quantile_mut(q, &Midpoint),
        Strat::Linear => a.quantile_mut(q, &Linear),
    };
    r.map_err(|e| format!("{:?}", e))
}

/// is `got` an acceptable value of strategy `s` on the sorted lane `sl` at q?  Err(description).
/// `class` receives a classification used for known findings.
pub fn oracle<T: QElem>(sl: &[T], q: f64, s: Strat, got: &T, class: &mut String) -> Result<(), String> {
    let n = sl.len();
    let (lo, hi, fr) = idx(q, n);
    let (l, h) = (&sl[lo], &sl[hi]);
    match s {
        Strat::Lower => if got == l { Ok(()) } else { Err(format!("Lower: expected {:?}", l)) },
        Strat::Higher => if got == h { Ok(()) } else { Err(format!("Higher: expected {:?}", h)) },
        Strat::Nearest => { let e = if fr < 0.5 { l } else { h }; if got == e { Ok(()) } else { Err(format!("Nearest: expected {:?}", e)) } }
        Strat::Midpoint | Strat::Linear => {
            if got < l || got > h { return Err(format!("{:?}: result outside [lower={:?}, higher={:?}]", s, l, h)); }
            match (l.as_i(), h.as_i(), got.as_i()) {
                (Some(li), Some(hi_), Some(g)) => {
                    if s == Strat::Midpoint {
                        if (2 * g - (li + hi_)).abs() <= 1 { Ok(()) } else { Err(format!("Midpoint: {} is not within one unit of ({} + {})/2", g, li, hi_)) }
                    } else {
                        let exact = li as f64 + fr * (hi_ - li) as f64;
                        if (g as f64 - exact).abs() <= 1.0 { Ok(()) } else { Err(format!("Linear: {} is not within one unit of {}", g, exact)) }
                    }
                }
                _ => {
                    let (lf, hf, g) = (l.as_f(), h.as_f(), got.as_f());
                    let exact = if s == Strat::Midpoint { lf + (hf - lf) / 2.0 } else { lf + fr * (hf - lf) };
                    let tol = 1e-9 * (lf.abs() + hf.abs() + 1.0);
                    if (g - exact).abs() <= tol { Ok(()) } else { Err(format!("{:?}: {} differs from {}", s, g, exact)) }
                }
            }
        }
    }
    .map_err(|e| { let _ = class; e })
}

/// classification of inputs on which a documented limitation applies
pub fn classify<T: QElem>(sl: &[T], q: f64, s: Strat) -> String {
    let n = sl.len();
    let (lo, hi, _) = idx(q, n);
    let max = match T::NAME { "i8" => i8::MAX as i128, "i32" => i32::MAX as i128, "i64" => i64::MAX as i128, _ => i128::MAX };
    if let (Some(l), Some(h)) = (sl[lo].as_i(), sl[hi].as_i()) {
        // higher - lower is not representable in the (signed) element type
        if s == Strat::Midpoint && h - l > max { return "class=midpoint_signed_spread_overflow".to_string(); }
        // fraction * (higher - lower) is not representable in the (signed) element type
        let (_, _, fr) = idx(q, n);
        if s == Strat::Linear && (fr * (h - l) as f64).trunc() > max as f64 { return "class=linear_signed_spread_overflow".to_string(); }
    }
    String::new()
}

fn lanes_of<T: QElem>(a: &ArrayD<T>, axis: usize) -> Vec<Vec<T>> {
    a.lanes(Axis(axis)).into_iter().map(|l| l.iter().cloned().collect()).collect()
}

fn one_1d<T: QElem>(cfg: &Cfg, rep: &mut Report, maxn: usize) {
    let al = T::alphabet();
    for n in 1..=maxn {
        for_all_arrays(n, al.len(), |pat| {
            let lane: Vec<T> = pat.iter().map(|k| al[*k as usize].clone()).collect();
            let mut sl = lane.clone(); sl.sort();
            for s in STRATS { for q in q_grid(n) {
                let cls = classify(&sl, q, s);
                let case = format!("1d;type={};lane={:?};q={:e};strategy={:?}{}{}", T::NAME, lane, q, s, if cls.is_empty() { "" } else { ";" }, cls);
                if !rep.want(cfg, &case) { continue; }
                let mut results: Vec<String> = vec![];
                for layout in ["c", "s2", "rev"] {
                    for_all_pivot_scripts(if cfg.thorough { 400 } else { 60 }, |script| {
                        let mut parent = Array1::from_elem(2 * n + 3, T::guard());
                        let r = match layout {
                            "c" => { let mut v = Array1::from(lane.clone()); let r = guarded(|| run_1d(&mut v.view_mut(), q, s)); (r, v.to_vec(), true) }
                            "s2" => {
                                for (k, x) in lane.iter().enumerate() { parent[1 + 2 * k] = x.clone(); }
                                let r = { let mut v = parent.slice_mut(s![1..2 * n + 1;2]); guarded(|| run_1d(&mut v, q, s)) };
                                let guards_ok = (0..parent.len()).all(|k| (k >= 1 && (k - 1) % 2 == 0 && k <= 2 * n) || parent[k] == T::guard());
                                (r, parent.slice(s![1..2 * n + 1;2]).to_vec(), guards_ok)
                            }
                            _ => { let mut v = Array1::from(lane.iter().rev().cloned().collect::<Vec<_>>()); let r = { let mut w = v.slice_mut(s![..;-1]); guarded(|| run_1d(&mut w, q, s)) }; (r, v.to_vec(), true) }
                        };
                        let (res, after, guards_ok) = r;
                        let mut af = after.clone(); af.sort();
                        if af != sl || !guards_ok { rep.fail_p(cfg, &case, "C03", "the lane was not merely permuted / memory outside the view changed", json!({"layout": layout, "script": script})); }
                        match res {
                            Err(m) => rep.fail_p(cfg, &case, "C01,C19", "quantile_mut panicked", json!({"layout": layout, "script": script, "panic": m})),
                            Ok(Err(e)) => rep.fail_p(cfg, &case, "C01,C17", "quantile_mut returned an error for a valid request", json!({"error": e})),
                            Ok(Ok(v)) => {
                                let mut c = String::new();
                                if let Err(why) = oracle(&sl, q, s, &v, &mut c) { rep.fail_p(cfg, &case, "C01,C20", "quantile differs from the documented order statistic", json!({"layout": layout, "script": script, "got": format!("{:?}", v), "why": why})); }
                                results.push(format!("{:?}", v));
                            }
                        }
                        rep.eval(&format!("{};layout={};script={:?}", case, layout, script), n >= 2);
                        !rep.stop
                    });
                }
                results.sort(); results.dedup();
                if results.len() > 1 { rep.fail_p(cfg, &case, "C01,C20", "result depends on pivots or layout", json!({"results": results})); }
            }}
            !rep.stop
        });
    }
}

/// longer lanes of distinct, scattered values: the index computation (N-1)q in f64 for every q = k/(N-1), its two f64
/// neighbours and the half-way points - lane lengths the complete enumeration above cannot reach (added for seed Z2:
/// an index expression that is equal in exact arithmetic but rounds differently, first visible at N = 6)
fn long_1d(cfg: &Cfg, rep: &mut Report, maxn: usize) {
    for n in 5..=maxn {
        let mut step = n / 2 + 1;
        while gcd(step, n) != 1 { step += 1; }
        let lane: Vec<i32> = (0..n).map(|i| 10 * ((i * step) % n) as i32 - 20).collect();
        let mut sl = lane.clone(); sl.sort();
        for s in STRATS { for q in q_grid(n) {
            let case = format!("long1d;type=i32;n={};step={};q={:e};strategy={:?}", n, step, q, s);
            if !rep.want(cfg, &case) { continue; }
            let mut v = Array1::from(lane.clone());
            match guarded(|| run_1d(&mut v.view_mut(), q, s)) {
                Err(m) => rep.fail_p(cfg, &case, "C01,C19", "quantile_mut panicked", json!({"panic": m})),
                Ok(Err(e)) => rep.fail_p(cfg, &case, "C01,C17", "quantile_mut returned an error for a valid request", json!({"error": e})),
                Ok(Ok(r)) => {
                    let mut c = String::new();
                    if let Err(why) = oracle(&sl, q, s, &r, &mut c) { rep.fail_p(cfg, &case, "C01,C19", "quantile differs from the documented order statistic", json!({"got": format!("{:?}", r), "why": why})); }
                }
            }
            rep.eval(&case, true);
            if rep.stop { return; }
        }}
    }
}
fn gcd(a: usize, b: usize) -> usize { if b == 0 { a } else { gcd(b, a % b) } }

/// n-D arrays: every axis, several layouts, bulk requests (order, duplicates), bulk == single
fn one_nd<T: QElem>(cfg: &Cfg, rep: &mut Report, shapes: &[Vec<usize>], seed: u64) {
    let al = T::alphabet();
    let mut rng = Lcg(seed.wrapping_mul(77) + 5);
    for shape in shapes {
        let size: usize = shape.iter().product();
        let reps = if cfg.thorough { 12 } else { 4 };
        for rep_i in 0..reps {
            let flat: Vec<T> = (0..size).map(|_| al[rng.below(al.len())].clone()).collect();
            let base = ArrayD::from_shape_vec(IxDyn(shape), flat.clone()).unwrap();
            for axis in 0..shape.len() {
                let n = shape[axis];
                let grid = q_grid(n.max(1));
                let qlists: Vec<Vec<f64>> = vec![vec![grid[rng.below(grid.len())]], vec![0.5, 0.0, 0.5, 1.0], vec![], (0..3).map(|_| grid[rng.below(grid.len())]).collect()];
                for s in STRATS { for qs in &qlists { for layout in ["c", "f", "stepped", "revaxis"] {
                    let clss: Vec<String> = if n == 0 { vec![] } else { lanes_of(&base, axis).iter().flat_map(|l| { let mut sl = l.clone(); sl.sort(); qs.iter().map(|q| classify(&sl, *q, s)).collect::<Vec<_>>() }).filter(|c| !c.is_empty()).collect() };
                    let case = format!("nd;type={};shape={:?};data#{}={:?};axis={};qs={:?};strategy={:?};layout={}{}", T::NAME, shape, rep_i, flat, axis, qs, s, layout, if clss.is_empty() { String::new() } else { format!(";{}", clss[0]) });
                    if !rep.want(cfg, &case) { continue; }
                    // build the layout
                    let mut owner: ArrayD<T> = match layout {
                        "c" => base.clone(),
                        "f" => { let mut t = ArrayD::from_elem(IxDyn(&shape.iter().rev().cloned().collect::<Vec<_>>()), T::guard()); t = t.reversed_axes(); t.assign(&base); t }
                        "stepped" => { ArrayD::from_elem(IxDyn(&shape.iter().map(|d| 2 * d + 1).collect::<Vec<_>>()), T::guard()) }
                        _ => { let mut t = base.clone(); t.invert_axis(Axis(axis)); t }
                    };
                    let expected_lanes: Vec<Vec<T>> = lanes_of(&base, axis).into_iter().map(|mut l| { l.sort(); l }).collect();
                    ndarray_stats::verif_hooks::set_pivot_script(Some((0..64).map(|_| rng.below(1000)).collect()));
                    let (res, after) = {
                        let mut view: ArrayViewMutD<T> = match layout {
                            "stepped" => { let mut v = owner.view_mut(); for ax in 0..shape.len() { v.slice_axis_inplace(Axis(ax), ndarray::Slice::new(1, None, 2)); } v.assign(&base); v }
                            "revaxis" => { let mut v = owner.view_mut(); v.invert_axis(Axis(axis)); v }
                            _ => owner.view_mut(),
                        };
                        let r = guarded(|| run_axis(&mut view, axis, qs, s));
                        (r, view.to_owned())
                    };
                    ndarray_stats::verif_hooks::set_pivot_script(None);
                    // C03: lanes only permuted, guards intact
                    let al_after: Vec<Vec<T>> = lanes_of(&after, axis).into_iter().map(|mut l| { l.sort(); l }).collect();
                    if al_after != expected_lanes { rep.fail_p(cfg, &case, "C03", "a lane no longer holds the multiset it held before", json!({})); }
                    if layout == "stepped" {
                        let ok = owner.indexed_iter().all(|(ix, v)| ix.slice().iter().all(|i| i % 2 == 1) || *v == T::guard());
                        if !ok { rep.fail_p(cfg, &case, "C03", "elements of the parent outside the stepped view were modified", json!({})); }
                    }
                    match res {
                        Err(m) => rep.fail_p(cfg, &case, "C01,C18", "quantiles_axis_mut panicked", json!({"panic": m})),
                        Ok(Err(e)) => { if !(n == 0 && e.contains("EmptyInput")) { rep.fail_p(cfg, &case, "C01,C17", "unexpected error", json!({"error": e})); } }
                        Ok(Ok(out)) => {
                            let mut want_shape = shape.clone(); want_shape[axis] = qs.len();
                            if out.shape() != want_shape.as_slice() { rep.fail_p(cfg, &case, "C01", "result shape", json!({"got": out.shape(), "want": want_shape})); }
                            else if n > 0 {
                                let out_lanes = lanes_of(&out, axis);
                                for (li, ol) in out_lanes.iter().enumerate() { for (j, q) in qs.iter().enumerate() {
                                    let mut c = String::new();
                                    if let Err(why) = oracle(&expected_lanes[li], *q, s, &ol[j], &mut c) { rep.fail_p(cfg, &case, "C01,C20", "bulk quantile differs from the documented order statistic (request order / lane pairing)", json!({"lane": li, "j": j, "why": why})); }
                                }}
                                // C18: j-th slice equals the single-q call
                                for (j, q) in qs.iter().enumerate().take(2) {
                                    let mut b2 = base.clone();
                                    let single = guarded(|| run_single_axis(&mut b2.view_mut(), axis, *q, s));
                                    match single {
                                        Ok(Ok(sv)) => { if sv != out.index_axis(Axis(axis), j) { rep.fail_p(cfg, &case, "C18", "bulk slice differs from the single-q call", json!({"j": j})); } }
                                        other => rep.fail_p(cfg, &case, "C18", "single-q call failed where the bulk call succeeded", json!({"j": j, "single": format!("{:?}", other.map(|r| r.map(|_| ())))})),
                                    }
                                }
                            }
                        }
                    }
                    rep.eval(&case, n >= 2 && !qs.is_empty());
                    if rep.stop { return; }
                }}}
            }
        }
    }
}

pub fn quantiles(cfg: &mut Cfg, rep: &mut Report) {
    let maxn = if cfg.thorough { 5 } else { 4 };
    rep.bound = format!("1-D: every lane of length 1..={} over a 4-letter alphabet incl. type extremes (i8,u8,i64 near 2^51,N64), q grid (k/(N-1), one ulp below/above, .5 fractions, 0, 1), 5 strategies, 3 layouts, pivot scripts by DFS (capped); one lane of distinct scattered i32 values per length 5..=24 (thorough: 64) with the same q grid and strategies; n-D: shapes up to 3-D, every axis, C/F/stepped-in-parent/reversed layouts, random data and pivot scripts (seeded), bulk requests with repeats and empty lists", maxn);
    one_1d::<i8>(cfg, rep, maxn);
    one_1d::<u8>(cfg, rep, maxn.min(3));
    one_1d::<i64>(cfg, rep, maxn.min(3));
    one_1d::<N64>(cfg, rep, maxn.min(3));
    long_1d(cfg, rep, if cfg.thorough { 64 } else { 24 });
    // (axes of length 1 in every position: a lane of one element, several lanes, several quantiles)
    let shapes: Vec<Vec<usize>> = if cfg.thorough { vec![vec![2, 3], vec![3, 2], vec![2, 2, 3], vec![1, 4], vec![3, 1], vec![2, 1, 3], vec![3, 0], vec![2, 1, 2, 2]] } else { vec![vec![2, 3], vec![3, 2], vec![1, 3], vec![2, 1, 2], vec![2, 2, 2], vec![2, 0]] };
    one_nd::<i32>(cfg, rep, &shapes, cfg.seed);
    one_nd::<N64>(cfg, rep, &shapes[..3.min(shapes.len())], cfg.seed + 1);
    one_nd::<i8>(cfg, rep, &shapes[..2.min(shapes.len())], cfg.seed + 2);
}
