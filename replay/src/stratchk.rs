use crate::fw::*;
use ndarray::prelude::*;
use ndarray_stats::errors::*;
use ndarray_stats::histogram::strategies::*;
use ndarray_stats::histogram::{Bins, GridBuilder};
use ndarray_stats::HistogramExt;
use noisy_float::types::{n64, N64};
use serde_json::json;

fn edges_of<T: Ord + Clone>(b: &Bins<T>) -> Vec<T> {
    let n = b.len();
    let mut v = vec![];
    for i in 0..n { let r = b.index(i); if i == 0 { v.push(r.start.clone()); } v.push(r.end.clone()); }
    v
}

trait Num: Ord + Clone + std::fmt::Debug + std::ops::Sub<Output = Self> + 'static {
    const IS_INT: bool;
}
impl Num for i64 { const IS_INT: bool = true; }
impl Num for N64 { const IS_INT: bool = false; }

fn check_one<T, B>(cfg: &Cfg, rep: &mut Report, sname: &str, dname: &str, data: &[T], width_of: impl Fn(&B) -> T)
where
    T: Num + num_traits::FromPrimitive + num_traits::NumOps + num_traits::Zero,
    B: BinsBuildingStrategy<Elem = T>,
{
    let case = format!("strategy={};data={}", sname, dname);
    if !rep.want(cfg, &case) { return; }
    let arr = Array1::from(data.to_vec());
    let r = guarded(|| B::from_array(&arr));
    let constant = data.iter().all(|x| *x == data[0]);
    match r {
        Err(m) => rep.fail_p(cfg, &case, "C12,C17", "strategy construction panicked", json!({"panic": m})),
        Ok(Err(e)) => {
            let is_empty_err = matches!(e, ndarray_stats::histogram::errors::BinsBuildError::EmptyInput);
            if data.is_empty() != is_empty_err { rep.fail_p(cfg, &case, "C12,C17", "EmptyInput must be returned exactly for empty data", json!({"error": format!("{:?}", e)})); }
            // other rejections (constant data, zero width / zero IQR) are the Strategy error: accepted
        }
        Ok(Ok(b)) => {
            if data.is_empty() || constant { rep.fail_p(cfg, &case, "C12,C17", "empty or constant data must be rejected", json!({})); return; }
            let min = data.iter().min().unwrap().clone();
            let max = data.iter().max().unwrap().clone();
            let bins = b.build();
            let w = width_of(&b);
            let e = edges_of(&bins);
            let mut problems: Vec<String> = vec![];
            if e.is_empty() { problems.push("no bins built".into()); }
            else {
                if e[0] != min { problems.push(format!("first edge {:?} is not the data minimum {:?}", e[0], min)); }
                let last = e[e.len() - 1].clone();
                if !(last > max) { problems.push(format!("last edge {:?} is not strictly above the maximum {:?}", last, max)); }
                if T::IS_INT {
                    if !(last.clone() - max.clone() <= w) { problems.push("last edge is more than one width above the maximum".into()); }
                    for k in 0..e.len() - 1 { if e[k + 1].clone() - e[k].clone() != w { problems.push("bins are not equally wide".into()); break; } }
                    if b.n_bins() != bins.len() { problems.push(format!("n_bins() = {} but {} bins were built", b.n_bins(), bins.len())); }
                } else if e.len() >= 2 && !(e[e.len() - 2] <= max) {
                    problems.push("the last bin lies entirely above the maximum (more than one width above)".into());
                }
                for d in data { if bins.index_of(d).is_none() { problems.push(format!("observation {:?} falls into no bin", d)); break; } }
            }
            // histogram over a 1-D grid counts every observation
            let m2 = Array2::from_shape_vec((data.len(), 1), data.to_vec()).unwrap();
            if let Ok(gb) = GridBuilder::<B>::from_array(&m2) {
                let h = m2.histogram(gb.build());
                let total: usize = h.counts().iter().sum();
                if total != data.len() { problems.push(format!("histogram counts {} of {} observations", total, data.len())); }
            } else { problems.push("GridBuilder rejected data the strategy accepted".into()); }
            if !problems.is_empty() { rep.fail_p(cfg, &case, "C12", &problems[0].clone(), json!({"problems": problems, "edges": format!("{:?}", e), "width": format!("{:?}", w)})); }
        }
    }
    rep.eval(&case, data.len() >= 2 && !constant);
}

fn all_strategies<T>(cfg: &Cfg, rep: &mut Report, dname: &str, data: &[T])
where T: Num + num_traits::FromPrimitive + num_traits::NumOps + num_traits::Zero {
    check_one::<T, Sqrt<T>>(cfg, rep, "Sqrt", dname, data, |b| b.bin_width());
    check_one::<T, Rice<T>>(cfg, rep, "Rice", dname, data, |b| b.bin_width());
    check_one::<T, Sturges<T>>(cfg, rep, "Sturges", dname, data, |b| b.bin_width());
    check_one::<T, FreedmanDiaconis<T>>(cfg, rep, "FreedmanDiaconis", dname, data, |b| b.bin_width());
    check_one::<T, Auto<T>>(cfg, rep, "Auto", dname, data, |b| b.bin_width());
    // Auto is the better of Sturges and FreedmanDiaconis: it fails only when both of them fail (documented fallback)
    let case = format!("strategy=Auto;fallback;data={}", dname);
    if rep.want(cfg, &case) {
        let arr = Array1::from(data.to_vec());
        let r = guarded(|| (Auto::<T>::from_array(&arr).is_ok(), FreedmanDiaconis::<T>::from_array(&arr).is_ok(), Sturges::<T>::from_array(&arr).is_ok()));
        match r {
            Err(m) => rep.fail(cfg, &case, "strategy construction panicked", json!({"panic": m})),
            Ok((auto, fd, st)) => if auto != (fd || st) { rep.fail_p(cfg, &case, "C12,C17", "Auto must succeed exactly when FreedmanDiaconis or Sturges does", json!({"auto_ok": auto, "freedman_diaconis_ok": fd, "sturges_ok": st})); }
        }
        rep.eval(&case, data.len() >= 2);
    }
}

/// GridBuilder::from_array fits one strategy per column: it succeeds exactly when every column can be fitted on its own, the grid then
/// has one axis per column, and otherwise the error of a failing column is returned
fn grid_builder_one<B>(cfg: &Cfg, rep: &mut Report, sname: &str, cols: &[Vec<i64>])
where B: BinsBuildingStrategy<Elem = i64> {
    let case = format!("strategy={};gridbuilder;columns={:?}", sname, cols);
    if !rep.want(cfg, &case) { return; }
    let n = cols[0].len();
    let m = Array2::from_shape_fn((n, cols.len()), |(i, j)| cols[j][i]);
    let r = guarded(|| {
        let per_col: Vec<bool> = cols.iter().map(|c| B::from_array(&Array1::from(c.clone())).is_ok()).collect();
        let g = GridBuilder::<B>::from_array(&m).map(|gb| gb.build().ndim());
        (per_col, g.map_err(|e| format!("{:?}", e)))
    });
    match r {
        Err(p) => rep.fail_p(cfg, &case, "C12,C17", "GridBuilder panicked", json!({"panic": p})),
        Ok((per_col, g)) => {
            let all_ok = per_col.iter().all(|b| *b);
            match g {
                Ok(nd) => { if !all_ok { rep.fail_p(cfg, &case, "C12,C17", "GridBuilder::from_array succeeded although a column cannot be fitted", json!({"columns_ok": per_col, "grid_ndim": nd})); }
                            else if nd != cols.len() { rep.fail_p(cfg, &case, "C12", "the grid does not have one axis per column", json!({"grid_ndim": nd})); } }
                Err(e) => { if all_ok { rep.fail_p(cfg, &case, "C12,C17", "GridBuilder::from_array failed although every column can be fitted", json!({"error": e})); } }
            }
        }
    }
    rep.eval(&case, cols.len() >= 2);
}
fn grid_builder_cases(cfg: &Cfg, rep: &mut Report) {
    let varying = vec![3i64, -1, 4, 1, 5, 9, 2, 6];
    let other = vec![10i64, 20, 30, 40, 50, 60, 70, 80];
    let constant = vec![7i64; 8];
    let ties = vec![0i64, 0, 0, 0, 0, 0, 0, 100]; // zero inter-quartile range: FreedmanDiaconis cannot be fitted, Sturges can
    for cols in [vec![varying.clone(), other.clone()], vec![varying.clone(), constant.clone()], vec![constant.clone(), varying.clone()], vec![varying.clone(), constant.clone(), other.clone()],
                 vec![constant.clone()], vec![varying.clone(), ties.clone()], vec![varying.clone(), other.clone(), varying.clone()]] {
        grid_builder_one::<Sqrt<i64>>(cfg, rep, "Sqrt", &cols);
        grid_builder_one::<Rice<i64>>(cfg, rep, "Rice", &cols);
        grid_builder_one::<Sturges<i64>>(cfg, rep, "Sturges", &cols);
        grid_builder_one::<FreedmanDiaconis<i64>>(cfg, rep, "FreedmanDiaconis", &cols);
        grid_builder_one::<Auto<i64>>(cfg, rep, "Auto", &cols);
    }
}

pub fn strategies(cfg: &mut Cfg, rep: &mut Report) {
    let maxn = if cfg.thorough { 6 } else { 5 };
    let maxlin = if cfg.thorough { 400 } else { 120 };
    rep.bound = format!("integer data: every multiset of length 0..={} over 0..4 scaled by 1/7/1000 and shifted by 0/-100/10^9; N64 data: linspace(0,1,n), 0.1*i, 1e6+0.1*i, i/3 for n in 2..={}, and 8 (negative non-dyadic minimum, power-of-two maximum) ranges with 49 / 121 points; five strategies; 1-D GridBuilder + histogram; GridBuilder on 7 multi-column i64 matrices (varying / constant / zero-IQR columns)", maxn, maxlin);
    grid_builder_cases(cfg, rep);
    for n in 0..=maxn {
        for_all_arrays(n, 4, |a| {
            if a.windows(2).any(|w| w[0] > w[1]) { return true; } // multisets: one ordering each, plus its reverse below
            for (scale, shift) in [(1i64, 0i64), (7, -100), (1000, 1_000_000_000)] {
                let d: Vec<i64> = a.iter().rev().map(|x| *x as i64 * scale + shift).collect();
                all_strategies::<i64>(cfg, rep, &format!("i64{:?}", d), &d);
            }
            !rep.stop
        });
    }
    for n in 2..=maxlin {
        let lin: Vec<N64> = (0..n).map(|i| n64(i as f64 / (n - 1) as f64)).collect();
        all_strategies::<N64>(cfg, rep, &format!("linspace(0,1,{})", n), &lin);
        let tenths: Vec<N64> = (0..n).map(|i| n64(0.1 * i as f64)).collect();
        all_strategies::<N64>(cfg, rep, &format!("tenths({})", n), &tenths);
        let off: Vec<N64> = (0..n).map(|i| n64(1e6 + 0.1 * i as f64)).collect();
        all_strategies::<N64>(cfg, rep, &format!("1e6+tenths({})", n), &off);
        let thirds: Vec<N64> = (0..n).map(|i| n64(i as f64 / 3.0)).collect();
        all_strategies::<N64>(cfg, rep, &format!("thirds({})", n), &thirds);
        if rep.stop { break; }
    }
    // a negative, non-dyadic minimum under a maximum that is a power of two (the range lies in a higher binade than the maximum):
    // anything recomputed from the range, e.g. min + (max - min), is then off by an ulp; the maximum must still get a bin
    for (lo, hi) in [(-6.7, 8.0), (-0.92, 1.0), (-1.89, 2.0), (-3.02, 4.0), (-2.1, 4.0), (-0.67, 1.0), (-4.2, 8.0), (-0.46, 0.5)] {
        for n in [49usize, 121] {
            if n > maxlin.max(121) { continue; }
            let d: Vec<N64> = (0..n).map(|i| if i + 1 == n { n64(hi) } else { n64(lo + (hi - lo) * (i as f64) / (n as f64)) }).collect();
            all_strategies::<N64>(cfg, rep, &format!("binade[{},{}]({})", lo, hi, n), &d);
            if rep.stop { return; }
        }
    }
}
