use crate::fw::*;
use ndarray::prelude::*;
use ndarray_stats::histogram::{Bins, Edges, Grid, Histogram};
use ndarray_stats::HistogramExt;
use serde_json::json;

fn spec_bin(edges: &[i32], v: i32) -> Option<usize> {
    if edges.len() < 2 { return None; }
    (0..edges.len() - 1).find(|&i| edges[i] <= v && v < edges[i + 1])
}

/// C11: histogram counts against the definition, after every insert
pub fn histogram(cfg: &mut Cfg, rep: &mut Report) {
    let maxobs = if cfg.thorough { 4 } else { 3 };
    rep.bound = format!("grids of 1..3 axes, each axis one of the edge sets [], [0], [0,2], [0,2,4], [1,5,2,2]; observation sequences of length 0..={} over the points {{-1,0,1,2,3,4,5}}^d (inside, on every edge, outside), single inserts interleaved with rejected ones, matrix form in row- and column-major memory, every permutation of the sequence", maxobs);
    let axes: Vec<Vec<i32>> = vec![vec![], vec![0], vec![0, 2], vec![0, 2, 4], vec![1, 5, 2, 2]];
    let pts1 = [-1, 0, 1, 2, 3, 4, 5];
    let mut rng = Lcg(cfg.seed + 21);
    for ndim in 1..=3usize {
        // choose axis edge sets
        let combos: Vec<Vec<usize>> = { let mut out = vec![vec![]]; for _ in 0..ndim { let mut nx = vec![]; for c in &out { for a in 0..axes.len() { let mut t: Vec<usize> = c.clone(); t.push(a); nx.push(t); } } out = nx; } out };
        for combo in combos {
            if ndim == 3 && !cfg.thorough && rng.below(5) != 0 { continue; }
            let sorted_axes: Vec<Vec<i32>> = combo.iter().map(|a| { let mut e = axes[*a].clone(); e.sort(); e.dedup(); e }).collect();
            let shape: Vec<usize> = sorted_axes.iter().map(|e| e.len().saturating_sub(1)).collect();
            let mk_grid = || Grid::from(combo.iter().map(|a| Bins::new(Edges::from(axes[*a].clone()))).collect::<Vec<_>>());
            // observation sequences
            let nseq = if ndim == 1 { if cfg.thorough { 600 } else { 200 } } else { if cfg.thorough { 120 } else { 40 } };
            for _ in 0..nseq {
                let len = rng.below(maxobs + 1);
                let obs: Vec<Vec<i32>> = (0..len).map(|_| (0..ndim).map(|_| pts1[rng.below(pts1.len())]).collect()).collect();
                let case = format!("histogram;edges={:?};obs={:?}", combo.iter().map(|a| axes[*a].clone()).collect::<Vec<_>>(), obs);
                if !rep.want(cfg, &case) { continue; }
                let r = guarded(|| {
                    let mut bad: Vec<String> = vec![];
                    let mut h = Histogram::new(mk_grid());
                    if h.counts().shape() != shape.as_slice() || h.ndim() != ndim { bad.push(format!("counts shape {:?} != grid shape {:?}", h.counts().shape(), shape)); return bad; }
                    let mut want = ArrayD::<usize>::zeros(IxDyn(&shape));
                    for o in &obs {
                        let idx: Option<Vec<usize>> = o.iter().zip(&sorted_axes).map(|(v, e)| spec_bin(e, *v)).collect();
                        let before = h.counts().to_owned();
                        let res = h.add_observation(&Array1::from(o.clone()));
                        match idx {
                            Some(ix) => { want[IxDyn(&ix)] += 1; if res.is_err() { bad.push(format!("observation {:?} inside the grid was rejected", o)); } }
                            None => { if res.is_ok() { bad.push(format!("observation {:?} outside the grid was accepted", o)); } if h.counts() != before { bad.push("a rejected insert changed the counts".into()); } }
                        }
                        if h.counts() != want { bad.push(format!("counts after inserting {:?} differ from the definition", o)); break; }
                    }
                    // matrix form, row- and column-major
                    if !obs.is_empty() {
                        let flat: Vec<i32> = obs.iter().flatten().copied().collect();
                        let m_c = Array2::from_shape_vec((obs.len(), ndim), flat.clone()).unwrap();
                        let m_f = m_c.t().as_standard_layout().into_owned().reversed_axes();
                        for (nm, m) in [("row-major", &m_c), ("column-major", &m_f)] {
                            let hm = m.histogram(mk_grid());
                            if hm.counts() != want { bad.push(format!("matrix form ({}) differs from the definition", nm)); }
                        }
                        // order independence: reversed and rotated sequences
                        let mut rev = obs.clone(); rev.reverse();
                        let mut rot = obs.clone(); rot.rotate_left(1);
                        for seq in [rev, rot] {
                            let mut h2 = Histogram::new(mk_grid());
                            for o in &seq { let _ = h2.add_observation(&Array1::from(o.clone())); }
                            if h2.counts() != want { bad.push("final counts depend on the order of the observations".into()); }
                        }
                    }
                    bad
                });
                match r { Err(m) => rep.fail(cfg, &case, "histogram panicked", json!({"panic": m})), Ok(bad) => if !bad.is_empty() { rep.fail(cfg, &case, &bad[0].clone(), json!({"problems": bad})); } }
                rep.eval(&case, len >= 1 && shape.iter().all(|d| *d > 0));
                if rep.stop { return; }
            }
        }
    }
}
