//! exact rational arithmetic (arbitrary precision) for the oracles of the float statistics: every finite f64 is a
//! rational number, so the definitions of the properties can be evaluated without any rounding
use num_bigint::{BigInt, Sign};
use num_traits::{One, Signed, ToPrimitive, Zero};

#[derive(Clone, Debug)]
pub struct Q { pub n: BigInt, pub d: BigInt }

fn gcd(a: &BigInt, b: &BigInt) -> BigInt {
    let (mut a, mut b) = (a.abs(), b.abs());
    while !b.is_zero() { let r = &a % &b; a = b; b = r; }
    a
}

impl Q {
    pub fn new(n: BigInt, d: BigInt) -> Q {
        assert!(!d.is_zero(), "exact: division by zero");
        let (n, d) = if d.is_negative() { (-n, -d) } else { (n, d) };
        let g = gcd(&n, &d);
        if g.is_one() || g.is_zero() { Q { n, d } } else { Q { n: n / &g, d: d / &g } }
    }
    pub fn int(i: i64) -> Q { Q { n: BigInt::from(i), d: BigInt::one() } }
    pub fn zero() -> Q { Q::int(0) }
    /// the exact value of a finite f64
    pub fn from_f64(x: f64) -> Q {
        assert!(x.is_finite(), "exact: not finite");
        let bits = x.to_bits();
        let neg = (bits >> 63) != 0;
        let exp = ((bits >> 52) & 0x7ff) as i64;
        let frac = bits & ((1u64 << 52) - 1);
        let (m, e) = if exp == 0 { (frac, -1074i64) } else { (frac | (1u64 << 52), exp - 1075) };
        let mut n = BigInt::from(m);
        if neg { n = -n; }
        if e >= 0 { Q::new(n << (e as usize), BigInt::one()) } else { Q::new(n, BigInt::one() << ((-e) as usize)) }
    }
    pub fn from_f32(x: f32) -> Q { Q::from_f64(x as f64) }
    pub fn add(&self, o: &Q) -> Q { Q::new(&self.n * &o.d + &o.n * &self.d, &self.d * &o.d) }
    pub fn sub(&self, o: &Q) -> Q { Q::new(&self.n * &o.d - &o.n * &self.d, &self.d * &o.d) }
    pub fn mul(&self, o: &Q) -> Q { Q::new(&self.n * &o.n, &self.d * &o.d) }
    pub fn div(&self, o: &Q) -> Q { Q::new(&self.n * &o.d, &self.d * &o.n) }
    pub fn neg(&self) -> Q { Q { n: -&self.n, d: self.d.clone() } }
    pub fn abs(&self) -> Q { Q { n: self.n.abs(), d: self.d.clone() } }
    pub fn is_zero(&self) -> bool { self.n.is_zero() }
    pub fn is_neg(&self) -> bool { self.n.is_negative() }
    pub fn is_pos(&self) -> bool { self.n.is_positive() }
    pub fn pow(&self, p: u32) -> Q { let mut r = Q::int(1); for _ in 0..p { r = r.mul(self); } r }
    pub fn lt(&self, o: &Q) -> bool { self.sub(o).is_neg() }
    pub fn le(&self, o: &Q) -> bool { !o.sub(self).is_neg() }
    pub fn sum<'a>(it: impl Iterator<Item = &'a Q>) -> Q { let mut s = Q::zero(); for x in it { s = s.add(x); } s }
    /// nearest-ish f64 (relative error below 2^-60; 0, +-inf at the extremes)
    pub fn to_f64(&self) -> f64 {
        if self.n.is_zero() { return 0.0; }
        let nb = self.n.bits() as i64;
        let db = self.d.bits() as i64;
        // scale so that the integer quotient has about 64 bits
        let s = 64 - (nb - db);
        let (num, den) = if s >= 0 { (self.n.abs() << (s as usize), self.d.clone()) } else { (self.n.abs(), self.d.clone() << ((-s) as usize)) };
        let q = num / den;
        let mut v = q.to_f64().unwrap_or(f64::INFINITY);
        // v * 2^-s, in two steps to stay in range
        let h = (-s) / 2;
        v *= 2f64.powi(h as i32);
        v *= 2f64.powi((-s - h) as i32);
        if self.n.sign() == Sign::Minus { -v } else { v }
    }
}

/// |x - exact| as f64
pub fn err_of(x: f64, exact: &Q) -> f64 {
    if !x.is_finite() { return f64::INFINITY; }
    Q::from_f64(x).sub(exact).abs().to_f64()
}
