//! replay — runs the real ndarray-stats (path dependency on /repo, hooks enabled) on concrete
//! inputs: replays counterexamples, searches small scopes for a failing input (witness search) and
//! performs the bounded concrete enumerations that stand in where no verifier reaches.
//! Nothing here decides a proof-level claim; every result is labelled bounded.
//!
//! usage: replay <name> [--tier quick|thorough] [--seed N] [--only CASE] [--first-failure]
//! output: one JSON object on stdout.
mod fw;
mod sortchk;
mod nanchk;
mod binschk;
mod stratchk;
mod quantchk;
mod lay;
mod minmaxchk;
mod numchk;
mod histchk;
mod errchk;
mod lawchk;
mod exact;
mod momchk;
mod entchk;
mod covchk;
mod fsumchk;

fn main() {
    let args: Vec<String> = std::env::args().collect();
    if args.len() < 2 {
        eprintln!("usage: replay <name> [--tier quick|thorough] [--seed N] [--only CASE] [--first-failure]");
        std::process::exit(4);
    }
    let mut cfg = fw::Cfg::from_args(&args[2..]);
    // silence panic messages of expected panics
    std::panic::set_hook(Box::new(|_| {}));
    let name = args[1].as_str();
    let mut rep = fw::Report::new(name);
    match name {
        "partition" => sortchk::partition(&mut cfg, &mut rep),
        "select" => sortchk::select(&mut cfg, &mut rep),
        "select_many" => sortchk::select_many(&mut cfg, &mut rep),
        "oob" => sortchk::oob(&mut cfg, &mut rep),
        "bins" => binschk::bins(&mut cfg, &mut rep),
        "strategies" => stratchk::strategies(&mut cfg, &mut rep),
        "quantiles" => quantchk::quantiles(&mut cfg, &mut rep),
        "minmax" => minmaxchk::minmax(&mut cfg, &mut rep),
        "skipnan" => minmaxchk::skipnan(&mut cfg, &mut rep),
        "deviation" => numchk::deviation(&mut cfg, &mut rep),
        "means" => numchk::means(&mut cfg, &mut rep),
        "histogram" => histchk::histogram(&mut cfg, &mut rep),
        "errors" => errchk::errors(&mut cfg, &mut rep),
        "qlaws" => lawchk::qlaws(&mut cfg, &mut rep),
        "layouts" => lawchk::layouts(&mut cfg, &mut rep),
        "nanview" => nanchk::nanview(&mut cfg, &mut rep),
        "moments" => momchk::moments(&mut cfg, &mut rep),
        "entropy" => entchk::entropy(&mut cfg, &mut rep),
        "cov" => covchk::cov(&mut cfg, &mut rep),
        "floatsums" => fsumchk::floatsums(&mut cfg, &mut rep),
        _ => {
            eprintln!("unknown enumeration {}", name);
            std::process::exit(4);
        }
    }
    rep.print();
}
