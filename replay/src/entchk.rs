//! C10 (bounded): entropy, cross_entropy and kl_divergence of the real crate against their definitions: the terms
//! (x ln x, p ln q, p ln(q/p), zero when x / p is zero) are computed in the element type, summed exactly (rational
//! arithmetic) and compared with the returned value within the roundoff of a sum of n terms; identities and NaN rules.
use crate::exact::*;
use crate::fw::*;
use crate::lay::*;
use ndarray::prelude::*;
use ndarray_stats::EntropyExt;
use num_traits::Float;
use serde_json::json;

pub trait Flt: Float + std::fmt::Debug + 'static {
    const NAME: &'static str;
    const U: f64;
    fn of(x: f64) -> Self;
    fn wide(self) -> f64;
}
impl Flt for f64 { const NAME: &'static str = "f64"; const U: f64 = 1.1102230246251565e-16; fn of(x: f64) -> f64 { x } fn wide(self) -> f64 { self } }
impl Flt for f32 { const NAME: &'static str = "f32"; const U: f64 = 5.960464477539063e-8; fn of(x: f64) -> f32 { x as f32 } fn wide(self) -> f64 { self as f64 } }

fn h_term<T: Flt>(x: T) -> T { if x == T::zero() { T::zero() } else { x * x.ln() } }
fn kl_term<T: Flt>(p: T, q: T) -> T { if p == T::zero() { T::zero() } else { p * (q / p).ln() } }
fn ce_term<T: Flt>(p: T, q: T) -> T { if p == T::zero() { T::zero() } else { p * q.ln() } }

/// -(exact sum of the terms), sum of |terms|; None if a term is not finite
fn neg_exact_sum<T: Flt>(terms: &[T]) -> Option<(Q, f64)> {
    let mut s = Q::zero();
    let mut a = 0.0;
    for t in terms { let w = t.wide(); if !w.is_finite() { return None; } s = s.add(&Q::from_f64(w)); a += w.abs(); }
    Some((s.neg(), a))
}

fn check_value<T: Flt>(bad: &mut Vec<String>, what: &str, got: T, terms: &[T], tag: &str) {
    let n0 = bad.len();
    check_value0(bad, what, got, terms, tag);
    // a failure that only shows for a non-canonical pairing of layouts is (also) a layout dependence (C20)
    if tag != "c/c" && !bad[..n0].iter().any(|b| b.contains("[c/c]") && b.starts_with(what)) { for b in bad[n0..].iter_mut() { *b = format!("LAYOUT {}", b); } }
}
fn check_value0<T: Flt>(bad: &mut Vec<String>, what: &str, got: T, terms: &[T], tag: &str) {
    let n = terms.len() as f64;
    match neg_exact_sum(terms) {
        Some((exact, abs)) => {
            // the negated sum is rounded once more into the element type: n additions
            let tol = 2.0 * (n + 1.0) * T::U * abs;
            let err = err_of(got.wide(), &exact);
            if !(err <= tol) { bad.push(format!("{} differs from minus the exactly summed terms | got {:?} exact {} error {:e} bound {:e} [{}]", what, got, exact.to_f64(), err, tol, tag)); }
            if terms.len() == 1 && got.wide().to_bits() != (-terms[0].wide()).to_bits() && !(got.wide() == 0.0 && terms[0].wide() == 0.0) { bad.push(format!("{} of a single element is not minus its term | got {:?} term {:?} [{}]", what, got, terms[0], tag)); }
        }
        None => {
            // a NaN term makes the result NaN; an infinite term makes it non-finite
            if terms.iter().any(|t| t.is_nan()) && !got.is_nan() { bad.push(format!("{}: a NaN in a contributing term did not make the result NaN | got {:?} [{}]", what, got, tag)); }
            if got.is_finite() { bad.push(format!("{}: a non-finite contributing term gave a finite result | got {:?} [{}]", what, got, tag)); }
        }
    }
}

fn run_type<T: Flt>(cfg: &Cfg, rep: &mut Report, rng: &mut Lcg) {
    // values: zeros, dyadic probabilities, numbers above 1, NaN
    let al: Vec<f64> = vec![0.0, 0.125, 0.25, 0.5, 1.0, 3.0, 0.1];
    // sampled cases also draw very small / very large finite values
    let al_wide: Vec<f64> = vec![0.0, 0.125, 0.25, 0.5, 1.0, 3.0, 0.1, 1e-300, 1e-30, 1e30, 1e200];
    let shapes: Vec<Vec<usize>> = if cfg.thorough { vec![vec![1], vec![2], vec![3], vec![5], vec![2, 2], vec![2, 3], vec![3, 1, 2], vec![2, 2, 2]] } else { vec![vec![1], vec![2], vec![3], vec![2, 2], vec![2, 1, 2]] };
    for shape in &shapes {
        let size: usize = shape.iter().product();
        let exhaustive = size <= 2;
        let ncases = if exhaustive { al.len().pow(2 * size as u32) } else if cfg.thorough { 6000 } else { 80 };
        for k in 0..ncases {
            let (cp, cq) = if exhaustive { (k % al.len().pow(size as u32), k / al.len().pow(size as u32)) } else { (rng.next() as usize, rng.next() as usize) };
            let alx: &Vec<f64> = if !exhaustive && k % 4 == 1 { &al_wide } else { &al };
            let mut pv: Vec<f64> = { let mut c = cp; (0..size).map(|_| { let v = alx[c % alx.len()]; c /= alx.len(); v }).collect() };
            let mut qv: Vec<f64> = { let mut c = cq; (0..size).map(|_| { let v = alx[c % alx.len()]; c /= alx.len(); v }).collect() };
            // NaN placements (sampled cases only)
            if !exhaustive && k % 9 == 4 { let i = rng.below(size); pv[i] = f64::NAN; }
            if !exhaustive && k % 9 == 7 { let i = rng.below(size); qv[i] = f64::NAN; }
            let p: ArrayD<T> = ArrayD::from_shape_vec(IxDyn(shape), pv.iter().map(|x| T::of(*x)).collect()).unwrap();
            let q: ArrayD<T> = ArrayD::from_shape_vec(IxDyn(shape), qv.iter().map(|x| T::of(*x)).collect()).unwrap();
            let pt: Vec<T> = p.iter().copied().collect();
            let qt: Vec<T> = q.iter().copied().collect();
            let lays: &[(&'static str, &'static str)] = if shape.len() > 1 { &[("c", "c"), ("c", "f"), ("f", "stepped"), ("rev", "embedded")] } else { &[("c", "c"), ("rev", "stepped")] };
            let case = format!("entropy;type={};shape={:?};p={:?};q={:?}", T::NAME, shape, pv, qv);
            if !rep.want(cfg, &case) { continue; }
            let r = guarded(|| {
                let mut bad: Vec<String> = vec![];
                let ht: Vec<T> = pt.iter().map(|x| h_term(*x)).collect();
                let kt: Vec<T> = pt.iter().zip(&qt).map(|(a, b)| kl_term(*a, *b)).collect();
                let ct: Vec<T> = pt.iter().zip(&qt).map(|(a, b)| ce_term(*a, *b)).collect();
                for (lp, lq) in lays {
                    let (rp, rq) = (Relayout::new(&p, lp, T::of(77.0)), Relayout::new(&q, lq, T::of(55.0)));
                    let (vp, vq) = (rp.view(), rq.view());
                    let tag = format!("{}/{}", lp, lq);
                    match vp.entropy() { Ok(h) => check_value(&mut bad, "entropy", h, &ht, &tag), Err(e) => bad.push(format!("entropy returned an error | {:?} [{}]", e, tag)) }
                    match vp.kl_divergence(&vq) { Ok(v) => check_value(&mut bad, "kl_divergence", v, &kt, &tag), Err(e) => bad.push(format!("kl_divergence returned an error | {:?} [{}]", e, tag)) }
                    match vp.cross_entropy(&vq) { Ok(v) => check_value(&mut bad, "cross_entropy", v, &ct, &tag), Err(e) => bad.push(format!("cross_entropy returned an error | {:?} [{}]", e, tag)) }
                    // KL(p, p) is zero
                    if pt.iter().all(|x| x.is_finite()) {
                        match vp.kl_divergence(&vp) { Ok(v) => if v.wide() != 0.0 { bad.push(format!("kl_divergence(p, p) is not zero | {:?} [{}]", v, tag)); }, Err(e) => bad.push(format!("kl_divergence(p, p) returned an error | {:?}", e)) }
                    }
                }
                // identities on ordinary data: H(p,q) = H(p) + KL(p,q) up to roundoff
                let fin = pt.iter().chain(qt.iter()).all(|x| x.is_finite()) && ht.iter().chain(kt.iter()).chain(ct.iter()).all(|x| x.is_finite());
                if fin {
                    let (h, kl, ce) = (p.entropy().unwrap().wide(), p.kl_divergence(&q).unwrap().wide(), p.cross_entropy(&q).unwrap().wide());
                    let abs: f64 = ht.iter().chain(kt.iter()).chain(ct.iter()).map(|x| x.wide().abs()).sum();
                    // p ln q = p ln p + p ln(q/p) holds per term only up to the rounding of ln and of the products: 4 ulp per term
                    let tol = (2.0 * (pt.len() as f64 + 1.0) + 8.0) * T::U * abs;
                    if !((ce - (h + kl)).abs() <= tol) { bad.push(format!("cross_entropy != entropy + kl_divergence beyond roundoff | H(p,q)={} H(p)={} KL={} bound {:e}", ce, h, kl, tol)); }
                    let sp: f64 = pt.iter().map(|x| x.wide()).sum();
                    let sq: f64 = qt.iter().map(|x| x.wide()).sum();
                    if sp == 1.0 && sq == 1.0 {
                        if !(kl >= -tol) { bad.push(format!("kl_divergence of normalised distributions is negative | {} bound {:e}", kl, tol)); }
                    }
                    if sp == 1.0 {
                        let lnn = (pt.len() as f64).ln();
                        if !(h <= lnn + tol + 4.0 * T::U * lnn) { bad.push(format!("entropy of a normalised {}-vector exceeds ln n | {} > {}", pt.len(), h, lnn)); }
                    }
                }
                bad
            });
            match r { Err(m) => rep.fail_p(cfg, &case, "C10", "entropy family panicked", json!({"panic": m})), Ok(bad) => if !bad.is_empty() { { let lay = bad.iter().find(|b| b.starts_with("LAYOUT ")).cloned(); let other = bad.iter().find(|b| !b.starts_with("LAYOUT ")).cloned(); if let Some(l) = lay { rep.fail_p(cfg, &case, "C10,C20", l.split(" | ").next().unwrap_or(""), json!({"problems": bad})); } if let Some(o) = other { rep.fail_p(cfg, &case, "C10", o.split(" | ").next().unwrap_or(""), json!({"problems": bad})); } }; } }
            rep.eval(&case, size >= 2);
            if rep.stop { return; }
        }
    }
}

pub fn entropy(cfg: &mut Cfg, rep: &mut Report) {
    rep.bound = "f64 and f32 over {0, 1/8, 1/4, 1/2, 1, 3, 0.1} (+ NaN placements in sampled cases): every pair (p, q) of contents for <= 2 elements, sampled pairs for 3..8 elements, shapes 1-D..3-D, 4 pairings of layouts for p and q; result vs minus the exact sum of the element-type terms within 2(n+1)u sum|terms|; KL(p,p) == 0; H(p,q) = H(p) + KL(p,q) within roundoff; KL >= 0 and H <= ln n for exactly normalised vectors; NaN in a contributing term gives NaN".to_string();
    let mut rng = Lcg(cfg.seed + 1010);
    run_type::<f64>(cfg, rep, &mut rng);
    if rep.stop { return; }
    run_type::<f32>(cfg, rep, &mut rng);
}
