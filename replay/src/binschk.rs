use crate::fw::*;
use ndarray::prelude::*;
use ndarray_stats::histogram::{Bins, Edges, Grid};
use serde_json::json;

fn spec_bin(edges: &[i32], v: i32) -> Option<usize> {
    if edges.len() < 2 { return None; }
    (0..edges.len() - 1).find(|&i| edges[i] <= v && v < edges[i + 1])
}

/// C13: Edges / Bins / Grid accessors against their definition
pub fn bins(cfg: &mut Cfg, rep: &mut Report) {
    let maxn = if cfg.thorough { 5 } else { 4 };
    rep.bound = format!("every edge collection of length 0..={} over values 0..n (duplicates, any order), built from Vec and from Array1 (also a stepped view); every probe in -1..=n; grids of 2 axes with <= 3 edges each, every point and index tuple", maxn);
    for n in 0..=maxn {
        for_all_arrays(n, n.max(1), |raw| {
            let raw2: Vec<i32> = raw.iter().map(|x| x * 2).collect(); // even values: odd probes fall strictly inside bins
            let mut want = raw2.clone(); want.sort(); want.dedup();
            let case0 = format!("edges={:?}", raw2);
            let e_vec = Edges::from(raw2.clone());
            let e_arr = Edges::from(Array1::from(raw2.clone()));
            // from a stepped Array1 (layout independence of the constructor)
            let mut wide = Array1::from_elem(2 * n, -9i32);
            for (k, x) in raw2.iter().enumerate() { wide[2 * k] = *x; }
            let e_step = Edges::from(wide.slice(s![..;2]).to_owned());
            // owned arrays that are slices of a larger allocation (stride 2 / trimmed): still owned, not compact
            let mut wide2: Vec<i32> = vec![-9; 2 * n];
            for (k, x) in raw2.iter().enumerate() { wide2[2 * k] = *x; }
            let e_owned_step = Edges::from(Array1::from(wide2).slice_move(s![..;2]));
            let mut pad: Vec<i32> = vec![-7]; pad.extend(raw2.iter().copied()); pad.push(-5);
            let e_owned_trim = Edges::from(Array1::from(pad).slice_move(s![1..n + 1]));
            let e_owned_rev = Edges::from(Array1::from(raw2.iter().rev().copied().collect::<Vec<_>>()).slice_move(s![..;-1]));
            for (nm, e) in [("vec", &e_vec), ("array", &e_arr), ("stepped", &e_step), ("owned_stepped", &e_owned_step), ("owned_trimmed", &e_owned_trim), ("owned_reversed", &e_owned_rev)] {
                let case = format!("{};ctor={}", case0, nm);
                if !rep.want(cfg, &case) { continue; }
                let got: Vec<i32> = e.iter().copied().collect();
                if got != want || e.len() != want.len() || e.is_empty() != want.is_empty() || e.as_array_view().to_vec() != want {
                    rep.fail_p(cfg, &case, "C13,C20", "Edges do not hold exactly the distinct input values in increasing order", json!({"got": got, "want": want}));
                }
                for k in 0..want.len() { if e[k] != want[k] { rep.fail(cfg, &case, "Edges[i] disagrees", json!({"i": k})); } }
                let b = Bins::new(e.clone());
                let nb = if want.is_empty() { 0 } else { want.len() - 1 };
                if b.len() != nb || b.is_empty() != (nb == 0) { rep.fail(cfg, &case, "Bins::len is not max(#edges-1,0)", json!({"len": b.len()})); }
                for v in -1..=(2 * n as i32 + 1) {
                    let c2 = format!("{};probe={}", case, v);
                    let sp = spec_bin(&want, v);
                    let io = e.indices_of(&v);
                    let bi = b.index_of(&v);
                    let br = b.range_of(&v);
                    let okk = io == sp.map(|i| (i, i + 1)) && bi == sp && br == sp.map(|i| want[i]..want[i + 1])
                        && match bi { Some(i) => b.index(i) == br.clone().unwrap(), None => true };
                    if !okk { rep.fail(cfg, &case, "bin lookup is not left-closed/right-open or accessors disagree", json!({"probe": v, "indices_of": io, "index_of": bi, "range_of": format!("{:?}", br), "spec": sp})); }
                    rep.eval(&c2, want.len() >= 2);
                }
            }
            !rep.stop
        });
    }
    // larger collections (8..=24 values): random, sorted, sorted with adjacent duplicates, all equal
    let mut rng = Lcg(cfg.seed + 91);
    for k in 0..(if cfg.thorough { 2000 } else { 300 }) {
        let n = 8 + rng.below(17);
        let mut raw: Vec<i32> = (0..n).map(|_| 2 * rng.below([3usize, n, 3 * n][k % 3]) as i32).collect();
        match k % 4 { 0 => raw.sort(), 1 => { raw.sort(); raw.reverse(); } 2 => { let m = raw[0]; for x in raw.iter_mut() { *x = m; } } _ => {} }
        let case = format!("large;edges={:?}", raw);
        if !rep.want(cfg, &case) { continue; }
        let mut want = raw.clone(); want.sort(); want.dedup();
        for (nm, e) in [("vec", Edges::from(raw.clone())), ("array", Edges::from(Array1::from(raw.clone())))] {
            let got: Vec<i32> = e.iter().copied().collect();
            if got != want { rep.fail_p(cfg, &case, "C13,C20", "Edges do not hold exactly the distinct input values in increasing order", json!({"ctor": nm, "got": got})); }
            let b = Bins::new(e.clone());
            if b.len() != want.len().saturating_sub(1) { rep.fail(cfg, &case, "Bins::len is not max(#edges-1,0)", json!({"ctor": nm})); }
            for v in (want[0] - 1)..=(want[want.len() - 1] + 1) {
                let sp = spec_bin(&want, v);
                if e.indices_of(&v) != sp.map(|i| (i, i + 1)) || b.index_of(&v) != sp || b.range_of(&v) != sp.map(|i| want[i]..want[i + 1]) {
                    rep.fail(cfg, &case, "bin lookup is not left-closed/right-open or accessors disagree", json!({"ctor": nm, "probe": v}));
                }
            }
        }
        rep.eval(&case, true);
    }
    // Grid: 2 axes
    let axes: Vec<Vec<i32>> = vec![vec![], vec![0], vec![0, 2], vec![0, 2, 4], vec![4, 0, 2, 2]];
    for a0 in &axes { for a1 in &axes {
        let g = Grid::from(vec![Bins::new(Edges::from(a0.clone())), Bins::new(Edges::from(a1.clone()))]);
        let (mut s0, mut s1) = (a0.clone(), a1.clone()); s0.sort(); s0.dedup(); s1.sort(); s1.dedup();
        let shape = vec![s0.len().saturating_sub(1), s1.len().saturating_sub(1)];
        let case = format!("grid={:?}x{:?}", a0, a1);
        if !rep.want(cfg, &case) { continue; }
        if g.shape() != shape || g.ndim() != 2 || g.projections().len() != 2 { rep.fail(cfg, &case, "Grid::shape/ndim", json!({"shape": g.shape()})); }
        for x in -1..=5 { for y in -1..=5 {
            let sp = match (spec_bin(&s0, x), spec_bin(&s1, y)) { (Some(i), Some(j)) => Some(vec![i, j]), _ => None };
            let got = g.index_of(&array![x, y]);
            if got != sp { rep.fail(cfg, &case, "Grid::index_of disagrees with the per-axis bins", json!({"point": [x, y], "got": got, "spec": sp})); }
            if let Some(ix) = &got {
                let rg = g.index(ix);
                if rg != vec![s0[ix[0]]..s0[ix[0] + 1], s1[ix[1]]..s1[ix[1] + 1]] { rep.fail(cfg, &case, "Grid::index disagrees with the edges", json!({"index": ix})); }
            }
            rep.eval(&format!("{};point=[{},{}]", case, x, y), shape[0] > 0 && shape[1] > 0);
        }}
        // index_of with the wrong arity must panic
        if guarded(|| g.index_of(&array![0])).is_ok() || guarded(|| g.index_of(&array![0, 0, 0])).is_ok() {
            rep.fail(cfg, &case, "Grid::index_of accepted a point of the wrong dimension", json!({}));
        }
    }}
}
