use crate::fw::*;
use crate::lay::*;
use ndarray::prelude::*;
use ndarray::{ArcArray, CowArray};
use ndarray_stats::{DeviationExt, SummaryStatisticsExt};
use serde_json::json;

fn fill_i<T: Clone>(shape: &[usize], alpha: &[T], code: usize) -> ArrayD<T> {
    let size: usize = shape.iter().product();
    let mut c = code;
    let v: Vec<T> = (0..size).map(|_| { let x = alpha[c % alpha.len()].clone(); c /= alpha.len(); x }).collect();
    ArrayD::from_shape_vec(IxDyn(shape), v).unwrap()
}

/// C09: deviation measures, integers exact; derived float measures bit-for-bit compositions
pub fn deviation(cfg: &mut Cfg, rep: &mut Report) {
    rep.bound = "i32 / i64 over {-7,0,3,1000} (no intermediate overflow): every pair of contents for <= 3 elements, sampled pairs above; shapes 1-D..3-D; every pairing of 5 layouts for the two operands; ownership owned/view/shared/copy-on-write".to_string();
    let al = [-7i64, 0, 3, 1000];
    let shapes: Vec<Vec<usize>> = if cfg.thorough { vec![vec![1], vec![2], vec![3], vec![2, 2], vec![2, 3], vec![2, 1, 2], vec![1, 2, 1, 2]] } else { vec![vec![1], vec![2], vec![3], vec![2, 2], vec![2, 1, 2]] };
    let mut rng = Lcg(cfg.seed + 5);
    for shape in shapes {
        let size: usize = shape.iter().product();
        let npairs = if size <= 2 { al.len().pow(2 * size as u32) } else { if cfg.thorough { 400 } else { 120 } };
        for k in 0..npairs {
            let (ca, cb) = if size <= 2 { (k % al.len().pow(size as u32), k / al.len().pow(size as u32)) } else { (rng.next() as usize, rng.next() as usize) };
            let a = fill_i(&shape, &al, ca);
            let b = if k % 7 == 3 { a.clone() } else { fill_i(&shape, &al, cb) };
            let av: Vec<i64> = a.iter().copied().collect();
            let bv: Vec<i64> = b.iter().copied().collect();
            let n = size;
            let ceq = av.iter().zip(&bv).filter(|(x, y)| x == y).count();
            let sq: i64 = av.iter().zip(&bv).map(|(x, y)| (x - y) * (x - y)).sum();
            let l1: i64 = av.iter().zip(&bv).map(|(x, y)| (x - y).abs()).sum();
            let li: i64 = av.iter().zip(&bv).map(|(x, y)| (x - y).abs()).max().unwrap_or(0);
            let lays: &[&'static str] = if size <= 3 || cfg.thorough { &LAYOUTS } else { &["c", "f", "rev"] };
            for la in lays { for lb in lays {
                let case = format!("deviation;shape={:?};a={:?};b={:?};layouts={}/{}", shape, av, bv, la, lb);
                if !rep.want(cfg, &case) { continue; }
                let (ra, rb) = (Relayout::new(&a, la, 55), Relayout::new(&b, lb, 66));
                let (va, vb) = (ra.view(), rb.view());
                let r = guarded(|| {
                    let mut bad: Vec<String> = vec![];
                    if va.count_eq(&vb) != Ok(ceq) { bad.push(format!("count_eq {:?} != {}", va.count_eq(&vb), ceq)); }
                    if va.count_neq(&vb) != Ok(n - ceq) { bad.push("count_eq + count_neq != number of elements".into()); }
                    if va.sq_l2_dist(&vb) != Ok(sq) { bad.push(format!("sq_l2_dist {:?} != {}", va.sq_l2_dist(&vb), sq)); }
                    if va.l1_dist(&vb) != Ok(l1) { bad.push(format!("l1_dist {:?} != {}", va.l1_dist(&vb), l1)); }
                    if va.linf_dist(&vb) != Ok(li) { bad.push(format!("linf_dist {:?} != {}", va.linf_dist(&vb), li)); }
                    // symmetry (exact for integers)
                    if vb.sq_l2_dist(&va) != Ok(sq) || vb.l1_dist(&va) != Ok(l1) || vb.linf_dist(&va) != Ok(li) || vb.count_eq(&va) != Ok(ceq) { bad.push("not symmetric".into()); }
                    // derived measures: the documented function of the exact ones
                    let bits = |x: Result<f64, _>| x.ok().map(|v: f64| v.to_bits());
                    if bits(va.l2_dist(&vb)) != Some((sq as f64).sqrt().to_bits()) { bad.push("l2_dist != sqrt(sq_l2_dist)".into()); }
                    if bits(va.mean_abs_err(&vb)) != Some((l1 as f64 / n as f64).to_bits()) { bad.push("mean_abs_err != l1/n".into()); }
                    if bits(va.mean_sq_err(&vb)) != Some((sq as f64 / n as f64).to_bits()) { bad.push("mean_sq_err != sq/n".into()); }
                    if bits(va.root_mean_sq_err(&vb)) != Some((sq as f64 / n as f64).sqrt().to_bits()) { bad.push("root_mean_sq_err != sqrt(mse)".into()); }
                    let maxv = 1000i64;
                    let want = 10. * f64::log10((maxv as f64) * (maxv as f64) / (sq as f64 / n as f64));
                    if bits(va.peak_signal_to_noise_ratio(&vb, maxv)) != Some(want.to_bits()) { bad.push("psnr != 10 log10(maxv^2/mse)".into()); }
                    // a narrow element type with a peak value whose square does not fit it (16-bit samples held in i32): maxv is
                    // converted to f64 before it is squared
                    if sq < (1i64 << 30) {
                        let (a32, b32) = (va.mapv(|x| x as i32), vb.mapv(|x| x as i32));
                        let want32 = 10. * f64::log10(65535f64 * 65535f64 / (sq as f64 / n as f64));
                        if bits(a32.peak_signal_to_noise_ratio(&b32, 65535i32)) != Some(want32.to_bits()) { bad.push("psnr (i32, maxv = 65535) != 10 log10(maxv^2/mse)".into()); }
                    }
                    // zero for identical arguments
                    if va.sq_l2_dist(&va) != Ok(0) || va.l1_dist(&va) != Ok(0) || va.linf_dist(&va) != Ok(0) || va.count_eq(&va) != Ok(n) { bad.push("distance of an array to itself is not zero".into()); }
                    bad
                });
                match r {
                    Err(m) => rep.fail(cfg, &case, "deviation routine panicked", json!({"panic": m})),
                    Ok(bad) => if !bad.is_empty() { rep.fail(cfg, &case, &bad[0].clone(), json!({"problems": bad})); }
                }
                rep.eval(&case, n >= 2 && av != bv);
                if rep.stop { return; }
            }}
            // ownership kinds (static dimension 1-D / dyn)
            let case = format!("deviation;ownership;shape={:?};a={:?};b={:?}", shape, av, bv);
            if rep.want(cfg, &case) {
                let sa: ArcArray<i64, IxDyn> = a.clone().into_shared();
                let cb_: CowArray<i64, IxDyn> = CowArray::from(b.view());
                let ok = a.sq_l2_dist(&b) == Ok(sq) && sa.sq_l2_dist(&b.view()) == Ok(sq) && a.view().l1_dist(&cb_) == Ok(l1) && sa.count_eq(&cb_) == Ok(ceq) && cb_.linf_dist(&sa) == Ok(li);
                if !ok { rep.fail(cfg, &case, "result depends on ownership kind", json!({})); }
                // i32 element type as well
                let a32 = a.mapv(|x| x as i32); let b32 = b.mapv(|x| x as i32);
                if a32.sq_l2_dist(&b32) != Ok(sq as i32) || a32.l1_dist(&b32) != Ok(l1 as i32) || a32.linf_dist(&b32) != Ok(li as i32) || a32.count_eq(&b32) != Ok(ceq) { rep.fail(cfg, &case, "i32 deviation measures wrong", json!({})); }
                rep.eval(&case, n >= 2);
            }
        }
    }
}

/// C06: means and weighted sums, integers exact; per-axis forms equal the whole-array routine per lane
pub fn means(cfg: &mut Cfg, rep: &mut Report) {
    rep.bound = "i64 / i32 data over {-9,0,4,100}, weights over {0,1,3}: every content for <= 3 elements, sampled above; shapes 1-D..3-D, every axis; data and weights in different layouts (C/F/rev owned copies); small-integer-valued f64 (exact sums) for the float API".to_string();
    let al = [-9i64, 0, 4, 100];
    let wl = [0i64, 1, 3];
    let shapes: Vec<Vec<usize>> = if cfg.thorough { vec![vec![1], vec![2], vec![3], vec![2, 2], vec![2, 3], vec![3, 2], vec![2, 2, 2]] } else { vec![vec![1], vec![2], vec![3], vec![2, 2], vec![2, 3]] };
    let mut rng = Lcg(cfg.seed + 9);
    // owned arrays with a given memory layout (weights must have the same storage type as the data)
    let own = |base: &ArrayD<i64>, kind: &str| -> ArrayD<i64> {
        match kind {
            "f" => base.t().as_standard_layout().into_owned().reversed_axes(),
            "rev" => { let mut r = base.clone(); for ax in 0..base.ndim() { r.invert_axis(Axis(ax)); } let mut o = r.as_standard_layout().into_owned(); for ax in 0..base.ndim() { o.invert_axis(Axis(ax)); } o }
            _ => base.clone(),
        }
    };
    for shape in shapes {
        let size: usize = shape.iter().product();
        let npairs = if size <= 2 { al.len().pow(size as u32) * wl.len().pow(size as u32) } else { if cfg.thorough { 300 } else { 100 } };
        for k in 0..npairs {
            let (cd, cw) = if size <= 2 { (k % al.len().pow(size as u32), k / al.len().pow(size as u32)) } else { (rng.next() as usize, rng.next() as usize) };
            let d = fill_i(&shape, &al, cd);
            let w = fill_i(&shape, &wl, cw);
            let dv: Vec<i64> = d.iter().copied().collect();
            let wv: Vec<i64> = w.iter().copied().collect();
            let sum: i64 = dv.iter().sum();
            let wsum: i64 = dv.iter().zip(&wv).map(|(x, y)| x * y).sum();
            let wtot: i64 = wv.iter().sum();
            for ld in ["c", "f", "rev"] { for lw in ["c", "f", "rev"] {
                let case = format!("means;shape={:?};data={:?};weights={:?};layouts={}/{}", shape, dv, wv, ld, lw);
                if !rep.want(cfg, &case) { continue; }
                let (dd, ww) = (own(&d, ld), own(&w, lw));
                let r = guarded(|| {
                    let mut bad: Vec<String> = vec![];
                    if SummaryStatisticsExt::mean(&dd) != Ok(sum / size as i64) { bad.push(format!("mean {:?} != {}", SummaryStatisticsExt::mean(&dd), sum / size as i64)); }
                    if dd.weighted_sum(&ww) != Ok(wsum) { bad.push(format!("weighted_sum {:?} != {} (pairing by logical index)", dd.weighted_sum(&ww), wsum)); }
                    if wtot != 0 && dd.weighted_mean(&ww) != Ok(wsum / wtot) { bad.push(format!("weighted_mean {:?} != {}", dd.weighted_mean(&ww), wsum / wtot)); }
                    let d32 = dd.mapv(|x| x as i32); let w32 = ww.mapv(|x| x as i32);
                    if d32.weighted_sum(&w32) != Ok(wsum as i32) || SummaryStatisticsExt::mean(&d32) != Ok((sum / size as i64) as i32) { bad.push("i32 mean / weighted_sum".into()); }
                    // float API on small-integer values: sums are exact
                    let df = dd.mapv(|x| x as f64); let wf = ww.mapv(|x| x as f64);
                    if df.weighted_sum(&wf) != Ok(wsum as f64) { bad.push("f64 weighted_sum of small integers is not exact".into()); }
                    if SummaryStatisticsExt::mean(&df) != Ok(sum as f64 / size as f64) { bad.push("f64 mean".into()); }
                    if wtot != 0 && df.weighted_mean(&wf) != Ok(wsum as f64 / wtot as f64) { bad.push("f64 weighted_mean".into()); }
                    bad
                });
                match r { Err(m) => rep.fail_p(cfg, &case, "C06", "mean family panicked", json!({"panic": m})), Ok(bad) => if !bad.is_empty() { rep.fail_p(cfg, &case, "C06,C20", &bad[0].clone(), json!({"problems": bad})); } }
                rep.eval(&case, size >= 2);
                if rep.stop { return; }
            }}
            // per-axis forms
            for ax in 0..shape.len() {
                let wax_codes = if shape[ax] <= 2 { wl.len().pow(shape[ax] as u32) } else { 6 };
                for wc in 0..wax_codes {
                    let wc = if shape[ax] <= 2 { wc } else { rng.next() as usize };
                    let wax: Array1<i64> = fill_i(&[shape[ax]], &wl, wc).into_dimensionality().unwrap();
                    let case = format!("means;axis={};shape={:?};data={:?};axis_weights={:?}", ax, shape, dv, wax.to_vec());
                    if !rep.want(cfg, &case) { continue; }
                    for ld in ["c", "f", "rev"] {
                        let dd = own(&d, ld);
                        let wdyn = wax.clone().into_dyn();
                        let r = guarded(|| {
                            let mut bad: Vec<String> = vec![];
                            let got = dd.weighted_sum_axis(Axis(ax), &wdyn.clone().into_dimensionality::<Ix1>().unwrap().into_dyn().into_dimensionality::<Ix1>().unwrap());
                            let want: Vec<i64> = dd.lanes(Axis(ax)).into_iter().map(|l| l.iter().zip(wax.iter()).map(|(x, y)| x * y).sum()).collect();
                            match &got { Ok(g) => { if g.iter().copied().collect::<Vec<_>>() != want { bad.push(format!("weighted_sum_axis {:?} != per-lane {:?}", g.iter().collect::<Vec<_>>(), want)); }
                                                   let mut ws = shape.clone(); ws.remove(ax); if g.shape() != ws.as_slice() { bad.push("weighted_sum_axis shape".into()); } }
                                          Err(e) => bad.push(format!("weighted_sum_axis error {:?}", e)) }
                            let wt: i64 = wax.iter().sum();
                            if wt != 0 {
                                match dd.weighted_mean_axis(Axis(ax), &wax) { Ok(g) => { if g.iter().copied().collect::<Vec<_>>() != want.iter().map(|x| x / wt).collect::<Vec<_>>() { bad.push("weighted_mean_axis != per-lane weighted_mean".into()); } }
                                                                             Err(e) => bad.push(format!("weighted_mean_axis error {:?}", e)) }
                            }
                            bad
                        });
                        match r { Err(m) => rep.fail_p(cfg, &case, "C06,C18", "per-axis mean family panicked", json!({"panic": m, "layout": ld})), Ok(bad) => if !bad.is_empty() { rep.fail_p(cfg, &case, "C06,C18,C20", &bad[0].clone(), json!({"problems": bad, "layout": ld})); } }
                    }
                    rep.eval(&case, size >= 2);
                }
            }
        }
    }
    // C18 (bounded): per-axis weighted variance / standard deviation equal the whole-array routine per lane, and
    // central_moments(p)[k] equals central_moment(k), bit for bit (same computation on the same lane)
    let fshapes: Vec<Vec<usize>> = if cfg.thorough { vec![vec![3], vec![2, 3], vec![3, 4], vec![2, 2, 3]] } else { vec![vec![3], vec![2, 3], vec![2, 2, 2]] };
    for shape in fshapes {
        for rep_i in 0..(if cfg.thorough { 12 } else { 4 }) {
            let size: usize = shape.iter().product();
            let data: Vec<f64> = (0..size).map(|_| [0.5, -1.25, 3.0, 7.75, 100.125, 2.0][rng.below(6)]).collect();
            let d = ArrayD::from_shape_vec(IxDyn(&shape), data.clone()).unwrap();
            for ax in 0..shape.len() {
                let w: Array1<f64> = (0..shape[ax]).map(|_| [0.5, 1.0, 2.0, 0.25][rng.below(4)]).collect();
                for ddof in [0.0, 0.5, 1.0] {
                    let case = format!("means;var_axis;shape={:?};data#{}={:?};axis={};weights={:?};ddof={}", shape, rep_i, data, ax, w.to_vec(), ddof);
                    if !rep.want(cfg, &case) { continue; }
                    let r = guarded(|| {
                        let mut bad: Vec<String> = vec![];
                        let va = d.weighted_var_axis(Axis(ax), &w, ddof);
                        let sa = d.weighted_std_axis(Axis(ax), &w, ddof);
                        match (va, sa) {
                            (Ok(va), Ok(sa)) => {
                                for (li, lane) in d.lanes(Axis(ax)).into_iter().enumerate() {
                                    let lo = lane.to_owned();
                                    let (lv, ls) = (lo.weighted_var(&w, ddof), lo.weighted_std(&w, ddof));
                                    let (gv, gs) = (*va.iter().nth(li).unwrap(), *sa.iter().nth(li).unwrap());
                                    if lv.as_ref().ok().map(|x| x.to_bits()) != Some(gv.to_bits()) { bad.push(format!("weighted_var_axis lane {}: {} vs whole-array routine {:?}", li, gv, lv)); }
                                    if ls.as_ref().ok().map(|x| x.to_bits()) != Some(gs.to_bits()) { bad.push(format!("weighted_std_axis lane {}: {} vs whole-array routine {:?}", li, gs, ls)); }
                                }
                            }
                            _ => bad.push("weighted_var_axis / weighted_std_axis returned an error".into()),
                        }
                        bad
                    });
                    match r { Err(m) => rep.fail_p(cfg, &case, "C18", "per-axis variance panicked", json!({"panic": m})), Ok(bad) => if !bad.is_empty() { rep.fail_p(cfg, &case, "C18", &bad[0].clone(), json!({"problems": bad})); } }
                    rep.eval(&case, true);
                }
            }
            let case = format!("means;moments;shape={:?};data#{}={:?}", shape, rep_i, data);
            if rep.want(cfg, &case) {
                for p in 0..=10u16 {
                    let bulk = d.central_moments(p).unwrap();
                    for k in 0..=p {
                        let single = d.central_moment(k).unwrap();
                        if bulk[k as usize].to_bits() != single.to_bits() { rep.fail_p(cfg, &case, "C18", "central_moments(p)[k] differs from central_moment(k)", json!({"p": p, "k": k, "bulk": bulk[k as usize], "single": single})); }
                    }
                }
                rep.eval(&case, true);
            }
        }
    }
    // the same on data with a large offset and a small spread, where the rounding error of the mean is visible in the moments: a single
    // routine that computes an order differently from the bulk routine (e.g. without the correction term) then differs in the last bits
    for (di, data) in [vec![1e9f64 + 0.1, 1e9 + 0.2, 1e9 + 0.4], vec![1e10, 1e10 + 1.0, 1e10 + 3.0], vec![1e8 + 0.3, 1e8 + 0.1, 1e8 + 0.7, 1e8 + 0.2, 1e8 + 0.9], vec![-3e9 - 0.5, -3e9 + 0.25, -3e9 + 0.125, -3e9 - 0.75]].into_iter().enumerate() {
        let case = format!("means;moments;large_offset#{}={:?}", di, data);
        if !rep.want(cfg, &case) { continue; }
        let d: Array1<f64> = Array1::from(data.clone());
        for p in 0..=10u16 {
            let bulk: Vec<f64> = d.central_moments(p).unwrap();
            for k in 0..=p {
                let single: f64 = d.central_moment(k).unwrap();
                if bulk[k as usize].to_bits() != single.to_bits() { rep.fail_p(cfg, &case, "C18", "central_moments(p)[k] differs from central_moment(k)", json!({"p": p, "k": k, "bulk": bulk[k as usize], "single": single})); }
            }
        }
        rep.eval(&case, true);
    }
    // harmonic / geometric mean against their definitions (float: tolerance 1e-12 relative - accuracy itself is not decided here)
    for v in [vec![1.0f64, 2.0, 4.0], vec![0.5, 0.25], vec![3.0], vec![1e-3, 1e3, 7.0, 2.0]] {
        let a = Array1::from(v.clone());
        let n = v.len() as f64;
        let hm = n / v.iter().map(|x| 1.0 / x).sum::<f64>();
        let gm = (v.iter().map(|x| x.ln()).sum::<f64>() / n).exp();
        let case = format!("means;float_means;{:?}", v);
        if !rep.want(cfg, &case) { continue; }
        let (h, g) = (a.harmonic_mean().unwrap(), a.geometric_mean().unwrap());
        if ((h - hm) / hm).abs() > 1e-12 || ((g - gm) / gm).abs() > 1e-12 { rep.fail_p(cfg, &case, "C06", "harmonic/geometric mean differs from its definition", json!({"h": h, "g": g})); }
        rep.eval(&case, true);
    }
}
