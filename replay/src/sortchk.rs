use crate::fw::*;
use ndarray::prelude::*;
use ndarray_stats::Sort1dExt;
use serde_json::json;

fn sorted(a: &[i32]) -> Vec<i32> { let mut s = a.to_vec(); s.sort(); s }

/// elements that are ordered by `key` only but stay distinguishable through `id`: the routines are generic
/// over `Ord + Clone`, so ties between *different* elements are part of their input space
#[derive(Clone, Debug)]
pub struct Rec { pub key: i32, pub id: u32 }
impl PartialEq for Rec { fn eq(&self, o: &Rec) -> bool { self.key == o.key } }
impl Eq for Rec {}
impl PartialOrd for Rec { fn partial_cmp(&self, o: &Rec) -> Option<std::cmp::Ordering> { Some(self.cmp(o)) } }
impl Ord for Rec { fn cmp(&self, o: &Rec) -> std::cmp::Ordering { self.key.cmp(&o.key) } }
fn recs(a: &[i32]) -> Vec<Rec> { a.iter().enumerate().map(|(i, k)| Rec { key: *k, id: i as u32 }).collect() }
fn ident(v: &[Rec]) -> Vec<(i32, u32)> { let mut x: Vec<(i32, u32)> = v.iter().map(|r| (r.key, r.id)).collect(); x.sort(); x }

fn with_layouts_rec(a: &[Rec], mut f: impl FnMut(&str, ArrayViewMut1<Rec>)) -> bool {
    let n = a.len();
    let g = Rec { key: -77, id: 9999 };
    let mut ok = true;
    let mut v = Array1::from(a.to_vec());
    f("c", v.view_mut());
    let mut parent = Array1::from_elem(2 * n + 3, g.clone());
    for (k, x) in a.iter().enumerate() { parent[1 + 2 * k] = x.clone(); }
    f("s2", parent.slice_mut(s![1..2 * n + 1;2]));
    for k in 0..parent.len() { if (k < 1 || (k - 1) % 2 == 1 || k > 2 * n) && (parent[k].key != -77 || parent[k].id != 9999) { ok = false; } }
    let mut rev = Array1::from(a.iter().rev().cloned().collect::<Vec<_>>());
    f("r1", rev.slice_mut(s![..;-1]));
    ok
}

/// embed `a` as a stepped / reversed view inside a larger buffer and run `f` on the 1-D view;
/// returns whether the guard elements of the parent survived.
fn with_layouts(a: &[i32], mut f: impl FnMut(&str, ArrayViewMut1<i32>)) -> bool {
    let n = a.len();
    let mut ok = true;
    // contiguous
    let mut v = Array1::from(a.to_vec());
    f("c", v.view_mut());
    // step 2 inside a parent with guards
    let mut parent = Array1::from_elem(2 * n + 3, -77i32);
    for (k, x) in a.iter().enumerate() { parent[1 + 2 * k] = *x; }
    f("s2", parent.slice_mut(s![1..2 * n + 1;2]));
    for k in 0..parent.len() { if (k < 1 || (k - 1) % 2 == 1 || k > 2 * n) && parent[k] != -77 { ok = false; } }
    // reversed, step -1
    let mut rev = Array1::from(a.iter().rev().copied().collect::<Vec<_>>());
    f("r1", rev.slice_mut(s![..;-1]));
    ok
}

/// seeded random arrays of length 8..=48 with heavy ties (thresholds in "optimised" code paths show up only there)
fn large_arrays(cfg: &Cfg, count: usize, salt: u64, mut f: impl FnMut(&[i32])) {
    let mut rng = Lcg(cfg.seed.wrapping_mul(1315423911).wrapping_add(salt));
    for k in 0..count {
        // mostly 8..=48; every 10th array is "huge" (150..=650) for thresholds such as `if n >= 128`
        let n = if k % 10 == 9 { 150 + rng.below(501) } else { 8 + rng.below(41) };
        let spread = [2usize, 3, 5, n, 4 * n][k % 5];
        let mut a: Vec<i32> = (0..n).map(|_| rng.below(spread) as i32).collect();
        match k % 7 { 0 => a.sort(), 1 => { a.sort(); a.reverse(); } 2 => { let m = a[0]; for x in a.iter_mut().skip(n / 2) { *x = m; } } _ => {} }
        f(&a);
    }
}

pub fn partition(cfg: &mut Cfg, rep: &mut Report) {
    let nlarge = if cfg.thorough { 3000 } else { 400 };
    large_arrays(cfg, nlarge, 1, |a| {
        let n = a.len();
        for p in [0, 1, n / 2, n - 2, n - 1] {
            let case = format!("large;arr={:?};pivot={}", a, p);
            if !rep.want(cfg, &case) { continue; }
            with_layouts_rec(&recs(a), |lay, mut v| {
                let pk = v[p].key;
                match guarded(|| v.partition_mut(p)) {
                    Err(m) => rep.fail_p(cfg, &case, "C15,C16", "partition_mut panicked for an in-range pivot position", json!({"layout": lay, "panic": m})),
                    Ok(k) => {
                        let after: Vec<Rec> = v.iter().cloned().collect();
                        let rank = a.iter().filter(|x| **x < pk).count();
                        if ident(&after) != ident(&recs(a)) { rep.fail_p(cfg, &case, "C03,C15", "partition_mut changed the multiset of the array", json!({"layout": lay})); }
                        if !(k == rank && after[k].key == pk && after[..k].iter().all(|x| x.key < pk) && after[k + 1..].iter().all(|x| x.key >= pk)) {
                            rep.fail_p(cfg, &case, "C15", "partition_mut postcondition", json!({"layout": lay, "returned": k, "rank": rank}));
                        }
                    }
                }
            });
            rep.eval(&case, true);
        }
    });
    let maxn = if cfg.thorough { 7 } else { 5 };
    rep.bound = format!("all arrays over 0..n of length 1..={} (n^n each), every pivot position, layouts contiguous / step 2 in a guarded parent / reversed", maxn);
    for n in 1..=maxn {
        for_all_arrays(n, n, |a| {
            if !is_pattern(a) { return true; }
            for p in 0..n {
                let case = format!("arr={:?};pivot={}", a, p);
                if !rep.want(cfg, &case) { continue; }
                let guards = with_layouts(a, |lay, mut v| {
                    let pv = v[p];
                    let r = guarded(|| v.partition_mut(p));
                    let c2 = format!("{};layout={}", case, lay);
                    match r {
                        Err(m) => rep.fail_p(cfg, &case, "C15,C16", "partition_mut panicked for an in-range pivot position", json!({"layout": lay, "panic": m})),
                        Ok(k) => {
                            let after: Vec<i32> = v.iter().copied().collect();
                            let rank = a.iter().filter(|x| **x < pv).count();
                            if sorted(&after) != sorted(a) { rep.fail_p(cfg, &case, "C03,C15", "partition_mut changed the multiset of the array", json!({"layout": lay, "after": after})); }
                            let okk = k == rank && k < n && after[k] == pv
                                && after[..k].iter().all(|x| *x < pv) && after[k + 1..].iter().all(|x| *x >= pv);
                            if !okk { rep.fail_p(cfg, &case, "C15", "partition_mut postcondition", json!({"layout": lay, "returned": k, "rank": rank, "after": after})); }
                        }
                    }
                    rep.eval(&c2, n >= 2);
                });
                if !guards { rep.fail_p(cfg, &case, "C03", "elements outside the view were modified", json!({})); }
                // the same input as distinguishable records: the view must still hold the same *elements*
                let ra = recs(a);
                with_layouts_rec(&ra, |lay, mut v| {
                    let pk = v[p].key;
                    if let Ok(k) = guarded(|| v.partition_mut(p)) {
                        let after: Vec<Rec> = v.iter().cloned().collect();
                        if ident(&after) != ident(&ra) {
                            rep.fail_p(cfg, &case, "C03", "partition_mut lost or duplicated an element (ties between distinct elements)", json!({"layout": lay, "after": format!("{:?}", after)}));
                        }
                        if after[k].key != pk { rep.fail_p(cfg, &case, "C15", "partition_mut: position k does not hold the pivot value (records)", json!({"layout": lay})); }
                    }
                });
            }
            !rep.stop
        });
    }
}

pub fn select(cfg: &mut Cfg, rep: &mut Report) {
    let nlarge = if cfg.thorough { 2000 } else { 300 };
    let mut prng = Lcg(cfg.seed + 77);
    large_arrays(cfg, nlarge, 2, |a| {
        let n = a.len();
        let s = sorted(a);
        for i in [0, 1, n / 3, n / 2, n - 1] {
            let case = format!("large;arr={:?};i={}", a, i);
            if !rep.want(cfg, &case) { continue; }
            for _ in 0..3 {
                let script: Vec<usize> = (0..64).map(|_| prng.below(1000)).collect();
                with_layouts_rec(&recs(a), |lay, mut v| {
                    ndarray_stats::verif_hooks::set_pivot_script(Some(script.clone()));
                    match guarded(|| v.get_from_sorted_mut(i)) {
                        Err(m) => rep.fail_p(cfg, &case, "C02,C16", "get_from_sorted_mut panicked for an in-range index", json!({"layout": lay, "panic": m})),
                        Ok(x) => {
                            let after: Vec<Rec> = v.iter().cloned().collect();
                            if ident(&after) != ident(&recs(a)) { rep.fail_p(cfg, &case, "C02,C03", "selection changed the multiset of the lane", json!({"layout": lay})); }
                            if !(x.key == s[i] && after[i].key == x.key && after[..i].iter().all(|y| y.key <= x.key) && after[i..].iter().all(|y| y.key >= x.key)) {
                                rep.fail_p(cfg, &case, "C02", "selection postcondition (value / partition around position i)", json!({"layout": lay, "returned": x.key, "expected": s[i]}));
                            }
                        }
                    }
                });
                ndarray_stats::verif_hooks::set_pivot_script(None);
            }
            rep.eval(&case, true);
        }
    });
    let maxn = if cfg.thorough { 6 } else { 4 };
    rep.bound = format!("all weak-order patterns of length 1..={}, every index, every pivot script (DFS over the hooked RNG), 3 layouts", maxn);
    for n in 1..=maxn {
        for_all_arrays(n, n, |a| {
            if !is_pattern(a) { return true; }
            let s = sorted(a);
            for i in 0..n {
                let case = format!("arr={:?};i={}", a, i);
                if !rep.want(cfg, &case) { continue; }
                let mut results = std::collections::BTreeSet::new();
                for_all_pivot_scripts(100_000, |script| {
                    let guards = with_layouts(a, |lay, mut v| {
                        // re-install the same script for each layout
                        ndarray_stats::verif_hooks::set_pivot_script(Some(script.to_vec()));
                        let r = guarded(|| v.get_from_sorted_mut(i));
                        match r {
                            Err(m) => rep.fail_p(cfg, &case, "C02,C16", "get_from_sorted_mut panicked for an in-range index", json!({"layout": lay, "script": script, "panic": m})),
                            Ok(x) => {
                                results.insert(x);
                                let after: Vec<i32> = v.iter().copied().collect();
                                let ok = x == s[i] && after[i] == x && after[..i].iter().all(|y| *y <= x)
                                    && after[i..].iter().all(|y| *y >= x);
                                if !ok { rep.fail_p(cfg, &case, "C02", "selection postcondition (value / partition around position i)", json!({"layout": lay, "script": script, "returned": x, "expected": s[i], "after": after})); }
                                if sorted(&after) != s { rep.fail_p(cfg, &case, "C02,C03", "selection changed the multiset of the lane", json!({"layout": lay, "script": script, "after": after})); }
                            }
                        }
                        rep.eval(&format!("{};script={:?};layout={}", case, script, lay), n >= 2);
                    });
                    if !guards { rep.fail_p(cfg, &case, "C03", "elements outside the view were modified", json!({"script": script})); }
                    !rep.stop
                });
                if results.len() > 1 { rep.fail_p(cfg, &case, "C02", "result depends on the pivot sequence", json!({"results": results})); }
                // distinguishable records: the lane keeps exactly its elements, the result is an element of rank i
                let ra = recs(a);
                for_all_pivot_scripts(100_000, |script| {
                    with_layouts_rec(&ra, |lay, mut v| {
                        ndarray_stats::verif_hooks::set_pivot_script(Some(script.to_vec()));
                        if let Ok(x) = guarded(|| v.get_from_sorted_mut(i)) {
                            let after: Vec<Rec> = v.iter().cloned().collect();
                            if ident(&after) != ident(&ra) {
                                rep.fail_p(cfg, &case, "C02,C03", "selection lost or duplicated an element (ties between distinct elements)", json!({"layout": lay, "script": script, "after": format!("{:?}", after)}));
                            }
                            if x.key != s[i] || after[i].key != x.key {
                                rep.fail_p(cfg, &case, "C02", "selection postcondition on distinguishable records", json!({"layout": lay, "script": script}));
                            }
                        }
                    });
                    !rep.stop
                });
            }
            !rep.stop
        });
    }
}

pub fn select_many(cfg: &mut Cfg, rep: &mut Report) {
    let nlarge = if cfg.thorough { 1500 } else { 250 };
    let mut prng = Lcg(cfg.seed + 78);
    large_arrays(cfg, nlarge, 3, |a| {
        let n = a.len();
        let s = sorted(a);
        let k = 1 + prng.below(9);
        let ix: Vec<usize> = (0..k).map(|_| prng.below(n)).collect();
        let case = format!("large;arr={:?};idx={:?}", a, ix);
        if !rep.want(cfg, &case) { return; }
        let mut want = ix.clone(); want.sort(); want.dedup();
        ndarray_stats::verif_hooks::set_pivot_script(Some((0..128).map(|_| prng.below(1000)).collect()));
        let mut v = Array1::from(a.to_vec());
        match guarded(|| v.get_many_from_sorted_mut(&Array1::from(ix.clone()))) {
            Err(m) => rep.fail_p(cfg, &case, "C02,C16,C18", "get_many_from_sorted_mut panicked for in-range indexes", json!({"panic": m})),
            Ok(map) => {
                let keys: Vec<usize> = map.keys().copied().collect();
                if sorted(&v.to_vec()) != s { rep.fail_p(cfg, &case, "C02,C03", "bulk selection changed the multiset of the array", json!({})); }
                if keys != want || !map.iter().all(|(k, x)| *x == s[*k]) { rep.fail_p(cfg, &case, "C02,C18", "bulk selection postcondition", json!({"keys": keys})); }
            }
        }
        ndarray_stats::verif_hooks::set_pivot_script(None);
        rep.eval(&case, true);
    });
    let maxn = if cfg.thorough { 5 } else { 4 };
    rep.bound = format!("all weak-order patterns of length 1..={}, every index list of length 0..=3 over 0..n (order and repeats kept), every pivot script", maxn);
    for n in 1..=maxn {
        for_all_arrays(n, n, |a| {
            if !is_pattern(a) { return true; }
            let s = sorted(a);
            // index lists: length 0..=3 over 0..n
            let mut lists: Vec<Vec<usize>> = vec![vec![]];
            for l in 1..=3usize {
                for_all_arrays(l, n, |ix| { lists.push(ix.iter().map(|x| *x as usize).collect()); true });
            }
            for ix in &lists {
                let case = format!("arr={:?};idx={:?}", a, ix);
                if !rep.want(cfg, &case) { continue; }
                let mut want: Vec<usize> = ix.clone(); want.sort(); want.dedup();
                for_all_pivot_scripts(20_000, |script| {
                    let mut v = Array1::from(a.to_vec());
                    let r = guarded(|| v.get_many_from_sorted_mut(&Array1::from(ix.clone())));
                    match r {
                        Err(m) => rep.fail_p(cfg, &case, "C02,C16,C18", "get_many_from_sorted_mut panicked for in-range indexes", json!({"script": script, "panic": m})),
                        Ok(map) => {
                            let keys: Vec<usize> = map.keys().copied().collect();
                            let vals_ok = map.iter().all(|(k, x)| *x == s[*k]);
                            let after: Vec<i32> = v.iter().copied().collect();
                            if sorted(&after) != s { rep.fail_p(cfg, &case, "C02,C03", "bulk selection changed the multiset of the array", json!({"script": script})); }
                            if keys != want || !vals_ok {
                                rep.fail_p(cfg, &case, "C02,C18", "bulk selection postcondition", json!({"script": script, "keys": keys, "values": map.values().collect::<Vec<_>>(), "sorted": s}));
                            }
                            // bulk == single (C18)
                            for (k, x) in map.iter() {
                                let mut w = Array1::from(a.to_vec());
                                ndarray_stats::verif_hooks::set_pivot_script(Some(script.to_vec()));
                                if guarded(|| w.get_from_sorted_mut(*k)).ok() != Some(*x) {
                                    rep.fail_p(cfg, &case, "C18,C02", "bulk entry differs from single selection", json!({"script": script, "index": k}));
                                }
                            }
                        }
                    }
                    rep.eval(&format!("{};script={:?}", case, script), n >= 2 && !ix.is_empty());
                    !rep.stop
                });
            }
            !rep.stop
        });
    }
}

pub fn oob(cfg: &mut Cfg, rep: &mut Report) {
    use ndarray_stats::histogram::{Bins, Edges, Grid};
    let maxn = if cfg.thorough { 5 } else { 4 };
    rep.bound = format!("array lengths 0..={}, positions n, n+1, usize::MAX, every pivot script; index sets mixing in- and out-of-range; Bins/Grid with <= 2 axes x <= 3 bins; this binary is built with debug assertions and overflow checks ON (the OFF profile is covered by the must-panic proofs)", maxn);
    for n in 0..=maxn {
        for_all_arrays(n, n.max(1), |a| {
            if !is_pattern(a) { return true; }
            for pos in [n, n + 1, usize::MAX] {
                let case = format!("arr={:?};pos={}", a, pos);
                if !rep.want(cfg, &case) { continue; }
                let mut v = Array1::from(a.to_vec());
                if guarded(|| v.partition_mut(pos)).is_ok() {
                    rep.fail(cfg, &case, "partition_mut returned for an out-of-range pivot position", json!({}));
                }
                rep.eval(&format!("{};partition", case), true);
                for_all_pivot_scripts(5_000, |script| {
                    let mut v = Array1::from(a.to_vec());
                    if let Ok(x) = guarded(|| v.get_from_sorted_mut(pos)) {
                        rep.fail(cfg, &case, "get_from_sorted_mut returned for an out-of-range index", json!({"script": script, "returned": x}));
                    }
                    rep.eval(&format!("{};single;script={:?}", case, script), true);
                    !rep.stop
                });
                // mixed index sets
                let mut sets: Vec<Vec<usize>> = vec![vec![pos]];
                if n > 0 { sets.push(vec![0, pos]); sets.push(vec![pos, n - 1]); sets.push(vec![n - 1, pos, 0]); }
                for ix in sets {
                    for_all_pivot_scripts(5_000, |script| {
                        let mut v = Array1::from(a.to_vec());
                        if let Ok(m) = guarded(|| v.get_many_from_sorted_mut(&Array1::from(ix.clone()))) {
                            rep.fail(cfg, &case, "get_many_from_sorted_mut returned although an index is out of range", json!({"script": script, "indexes": ix, "keys": m.keys().collect::<Vec<_>>()}));
                        }
                        rep.eval(&format!("{};many={:?};script={:?}", case, ix, script), true);
                        !rep.stop
                    });
                }
            }
            !rep.stop
        });
    }
    // Bins / Grid
    for ne in 0..=4usize {
        let edges: Vec<i32> = (0..ne as i32).map(|x| x * 10).collect();
        let bins = Bins::new(Edges::from(edges.clone()));
        let nb = bins.len();
        for idx in [0usize, 1, 2, 3, 4, usize::MAX] {
            let case = format!("bins_edges={:?};index={}", edges, idx);
            if !rep.want(cfg, &case) { continue; }
            let r = guarded(|| bins.index(idx));
            if idx < nb {
                match r { Ok(rg) => if rg != (edges[idx]..edges[idx + 1]) { rep.fail(cfg, &case, "Bins::index wrong range", json!({})) },
                          Err(m) => rep.fail(cfg, &case, "Bins::index panicked for an in-range bin", json!({"panic": m})) }
            } else if r.is_ok() {
                rep.fail(cfg, &case, "Bins::index returned for an out-of-range bin", json!({}));
            }
            rep.eval(&case, true);
        }
        for ne2 in 0..=3usize {
            let edges2: Vec<i32> = (0..ne2 as i32).collect();
            let grid = Grid::from(vec![Bins::new(Edges::from(edges.clone())), Bins::new(Edges::from(edges2.clone()))]);
            let shape = grid.shape();
            for i0 in [0usize, 1, 2, 3, usize::MAX] { for i1 in [0usize, 1, 2, usize::MAX] {
                let case = format!("grid_edges={:?}x{:?};index=[{},{}]", edges, edges2, i0, i1);
                if !rep.want(cfg, &case) { continue; }
                let r = guarded(|| grid.index(&[i0, i1]));
                let inr = i0 < shape[0] && i1 < shape[1];
                if inr != r.is_ok() { rep.fail(cfg, &case, "Grid::index in-range/out-of-range behaviour", json!({"in_range": inr, "returned": r.is_ok()})); }
                rep.eval(&case, true);
            }}
            for bad in [vec![], vec![0usize], vec![0usize, 0, 0]] {
                let case = format!("grid_edges={:?}x{:?};arity={}", edges, edges2, bad.len());
                if !rep.want(cfg, &case) { continue; }
                if guarded(|| grid.index(&bad)).is_ok() { rep.fail(cfg, &case, "Grid::index returned for an index of the wrong arity", json!({})); }
                rep.eval(&case, true);
            }
        }
    }
}
