use serde_json::{json, Value};
use std::collections::HashSet;
use std::panic::{catch_unwind, AssertUnwindSafe};

pub struct Cfg {
    /// when set, the id of the case about to run is written to this file (to identify the case on which the
    /// real crate aborts the process, e.g. a non-unwinding panic from an unsafe-precondition check)
    pub trace: Option<std::cell::RefCell<std::fs::File>>,
    pub thorough: bool,
    pub seed: u64,
    pub only: Option<String>,
    pub first_failure: bool,
}

impl Cfg {
    pub fn from_args(a: &[String]) -> Cfg {
        let mut c = Cfg { trace: None, thorough: false, seed: 0, only: None, first_failure: false };
        let mut i = 0;
        while i < a.len() {
            match a[i].as_str() {
                "--tier" => { c.thorough = a[i + 1] == "thorough"; i += 2; }
                "--seed" => { c.seed = a[i + 1].parse().unwrap_or(0); i += 2; }
                "--only" => { c.only = Some(a[i + 1].clone()); i += 2; }
                "--first-failure" => { c.first_failure = true; i += 1; }
                "--trace" => { c.trace = std::fs::File::create(&a[i + 1]).ok().map(std::cell::RefCell::new); i += 2; }
                _ => { i += 1; }
            }
        }
        c
    }
}

pub struct Report {
    pub name: String,
    pub bound: String,
    pub evaluations: u64,
    pub nontrivial: HashSet<String>,
    pub nontrivial_count: u64,
    pub failures: Vec<Value>,
    pub fail_keys: std::collections::HashMap<String, usize>,
    pub n_failures: u64,
    pub samples: Vec<Value>,
    pub stop: bool,
}

impl Report {
    pub fn new(name: &str) -> Report {
        Report { name: name.to_string(), bound: String::new(), evaluations: 0, nontrivial: HashSet::new(), nontrivial_count: 0, failures: vec![], fail_keys: std::collections::HashMap::new(), n_failures: 0, samples: vec![], stop: false }
    }
    /// should this case run at all (--only filter / early stop)?
    pub fn want(&self, cfg: &Cfg, case: &str) -> bool {
        if self.stop { return false; }
        let w = match &cfg.only { Some(o) => o == case, None => true };
        if w {
            if let Some(f) = &cfg.trace {
                use std::io::{Seek, SeekFrom, Write};
                let mut f = f.borrow_mut();
                let _ = f.seek(SeekFrom::Start(0));
                let _ = f.write_all(case.as_bytes());
                let _ = f.set_len(case.len() as u64);
            }
        }
        w
    }
    /// record one evaluated case; `nontrivial` by the enumeration's stated rule
    pub fn eval(&mut self, case: &str, nontrivial: bool) {
        self.evaluations += 1;
        if nontrivial {
            // distinctness: case ids are unique per enumeration by construction; count, and keep a
            // set only while it is small (memory)
            if self.nontrivial.len() < 200_000 {
                if self.nontrivial.insert(case.to_string()) { self.nontrivial_count += 1; }
            } else {
                self.nontrivial_count += 1;
            }
        }
        if self.samples.len() < 5 && (self.evaluations % 97 == 1) {
            self.samples.push(json!(case));
        }
    }
    pub fn fail(&mut self, cfg: &Cfg, case: &str, what: &str, detail: Value) {
        self.fail_p(cfg, case, "", what, detail)
    }
    /// `props`: comma-separated property ids this failure is relevant to ("" = every property using the enumeration)
    pub fn fail_p(&mut self, cfg: &Cfg, case: &str, props: &str, what: &str, detail: Value) {
        self.n_failures += 1;
        // keep at most 3 failures per (kind, class) so that a frequent known class cannot hide another kind
        let class = case.split(';').find(|p| p.starts_with("class=")).unwrap_or("");
        let key = format!("{}|{}|{}", what, class, props);
        let k = self.fail_keys.entry(key).or_insert(0);
        *k += 1;
        if *k <= 3 && self.failures.len() < 60 {
            self.failures.push(json!({"case": case, "what": what, "props": props, "detail": detail}));
        }
        if cfg.first_failure { self.stop = true; }
    }
    pub fn print(&self) {
        let v = json!({
            "name": self.name, "bound": self.bound, "evaluations": self.evaluations,
            "distinct_nontrivial": self.nontrivial_count, "failures": self.failures, "n_failures": self.n_failures, "samples": self.samples,
        });
        println!("{}", v);
    }
}

/// run `f`, Ok(result) or Err(panic message)
pub fn guarded<T>(f: impl FnOnce() -> T) -> Result<T, String> {
    match catch_unwind(AssertUnwindSafe(f)) {
        Ok(v) => Ok(v),
        Err(e) => {
            let m = if let Some(s) = e.downcast_ref::<&str>() { s.to_string() }
                else if let Some(s) = e.downcast_ref::<String>() { s.clone() } else { "panic".to_string() };
            Err(m)
        }
    }
}

/// call `f` once for every pivot script the hooked RNG can follow (DFS over the draw tree).
/// `f` receives the script that is installed; returns the number of scripts explored.
pub fn for_all_pivot_scripts(max_scripts: usize, mut f: impl FnMut(&[usize]) -> bool) -> usize {
    use ndarray_stats::verif_hooks::{pivot_trace, set_pivot_script};
    let mut script: Vec<usize> = vec![];
    let mut n = 0;
    loop {
        set_pivot_script(Some(script.clone()));
        let go_on = f(&script);
        n += 1;
        let mut t = pivot_trace();
        set_pivot_script(None);
        if !go_on || n >= max_scripts { break; }
        let mut next = None;
        while let Some((c, m)) = t.pop() {
            if c + 1 < m {
                let mut s: Vec<usize> = t.iter().map(|x| x.0).collect();
                s.push(c + 1);
                next = Some(s);
                break;
            }
        }
        match next { Some(s) => script = s, None => break }
    }
    n
}

/// all arrays of length n over values 0..k (k^n), as Vec<i32>
pub fn for_all_arrays(n: usize, k: usize, mut f: impl FnMut(&[i32]) -> bool) {
    let mut a = vec![0i32; n];
    loop {
        if !f(&a) { return; }
        let mut i = 0;
        loop {
            if i == n { return; }
            a[i] += 1;
            if (a[i] as usize) < k { break; }
            a[i] = 0;
            i += 1;
        }
    }
}

/// is `a` a canonical weak-order pattern (values form 0..m and first occurrences are not required
/// to be ordered — we only require the value set to be an initial segment)?
pub fn is_pattern(a: &[i32]) -> bool {
    let mx = a.iter().copied().max().unwrap_or(-1);
    (0..=mx).all(|v| a.contains(&v))
}

pub struct Lcg(pub u64);
impl Lcg {
    pub fn next(&mut self) -> u64 {
        self.0 = self.0.wrapping_mul(6364136223846793005).wrapping_add(1442695040888963407);
        self.0 >> 33
    }
    pub fn below(&mut self, n: usize) -> usize { (self.next() % (n as u64)) as usize }
}
