use crate::fw::*;
use ndarray::prelude::*;
use ndarray_stats::MaybeNan;
use noisy_float::types::{n32, n64, N32, N64};
use serde_json::json;

/// One element type under test: how to make the k-th non-missing value and the missing value, and
/// a printable key for comparisons (bit pattern based, so NaN payloads and -0.0 are kept apart).
trait Elem: MaybeNan + Clone {
    const NAME: &'static str;
    fn val(k: usize) -> Self;
    fn missing() -> Self;
    fn guard() -> Self;
    fn key(&self) -> String;
    /// whether the value is missing, decided WITHOUT the crate's MaybeNan::is_nan (independent oracle)
    fn truly_missing(&self) -> bool;
}
macro_rules! elem_float { ($t:ty, $name:expr) => {
    impl Elem for $t {
        const NAME: &'static str = $name;
        fn val(k: usize) -> Self { [1.5, -0.0, <$t>::INFINITY, -2.25, 7.0, 0.0, 3.0][k % 7] + (k / 7) as $t }
        fn missing() -> Self { <$t>::NAN }
        fn guard() -> Self { -777.0 }
        fn key(&self) -> String { format!("{:x}", self.to_bits()) }
        fn truly_missing(&self) -> bool { self.to_bits() & !(1 << (std::mem::size_of::<$t>() * 8 - 1)) > <$t>::INFINITY.to_bits() }
    }
}}
elem_float!(f32, "f32");
elem_float!(f64, "f64");
macro_rules! elem_opt_int { ($t:ty, $name:expr) => {
    impl Elem for Option<$t> {
        const NAME: &'static str = $name;
        fn val(k: usize) -> Self { Some([<$t>::MAX, <$t>::MIN, 0 as $t, 3 as $t, 5 as $t, 1 as $t, 2 as $t][k % 7]) }
        fn missing() -> Self { None }
        fn guard() -> Self { Some(77 as $t) }
        fn key(&self) -> String { format!("{:?}", self) }
        fn truly_missing(&self) -> bool { matches!(self, None) }
    }
}}
elem_opt_int!(u8, "Option<u8>"); elem_opt_int!(u16, "Option<u16>"); elem_opt_int!(u32, "Option<u32>");
elem_opt_int!(u64, "Option<u64>"); elem_opt_int!(u128, "Option<u128>"); elem_opt_int!(i8, "Option<i8>");
elem_opt_int!(i16, "Option<i16>"); elem_opt_int!(i32, "Option<i32>"); elem_opt_int!(i64, "Option<i64>");
elem_opt_int!(i128, "Option<i128>");
impl Elem for Option<N64> {
    const NAME: &'static str = "Option<N64>";
    fn val(k: usize) -> Self { Some(n64([1.5, -0.0, f64::INFINITY, -2.25, 7.0, 0.0, 3.0][k % 7])) }
    fn missing() -> Self { None }
    fn guard() -> Self { Some(n64(-777.0)) }
    fn key(&self) -> String { format!("{:?}", self.map(|x| x.raw().to_bits())) }
    fn truly_missing(&self) -> bool { matches!(self, None) }
}
impl Elem for Option<N32> {
    const NAME: &'static str = "Option<N32>";
    fn val(k: usize) -> Self { Some(n32([1.5, -0.0, f32::INFINITY, -2.25, 7.0, 0.0, 3.0][k % 7])) }
    fn missing() -> Self { None }
    fn guard() -> Self { Some(n32(-777.0)) }
    fn key(&self) -> String { format!("{:?}", self.map(|x| x.raw().to_bits())) }
    fn truly_missing(&self) -> bool { matches!(self, None) }
}

fn one_type<T: Elem>(cfg: &Cfg, rep: &mut Report, maxlen: usize)
where T::NotNan: Sized {
    assert_eq!(std::mem::size_of::<T>(), std::mem::size_of::<T::NotNan>());
    const PARENT: usize = 26;
    for len in 0..=maxlen {
        for step in [1isize, 2, 3, -1, -2, -3] {
            let span = if len == 0 { 0 } else { (len - 1) * step.unsigned_abs() + 1 };
            for offset in [0usize, 3] {
                if offset + span > PARENT { continue; }
                for pat in 0..(1u32 << len) {
                    let case = format!("type={};len={};step={};offset={};missing={:0w$b}", T::NAME, len, step, offset, pat, w = len.max(1));
                    if !rep.want(cfg, &case) { continue; }
                    let mut parent = Array1::from_elem(PARENT, T::guard());
                    // logical element k of the view
                    let phys = |k: usize| -> usize { if step > 0 { offset + k * step as usize } else { offset + (len - 1 - k) * step.unsigned_abs() } };
                    let mut input = vec![];
                    for k in 0..len {
                        let e = if pat >> k & 1 == 1 { T::missing() } else { T::val(k) };
                        parent[phys(k)] = e.clone();
                        input.push(e);
                    }
                    let before: Vec<String> = parent.iter().map(|x| x.key()).collect();
                    let base = parent.as_ptr() as usize;
                    let esz = std::mem::size_of::<T>();
                    let in_addrs: Vec<usize> = (0..len).map(|k| base + phys(k) * esz).collect();
                    let view = if len == 0 { parent.slice_mut(s![offset..offset]) } else if step > 0 {
                        parent.slice_mut(s![offset..offset + span;step])
                    } else {
                        parent.slice_mut(s![offset..offset + span;step])
                    };
                    debug_assert_eq!(view.len(), len);
                    let res = guarded(move || {
                        let out = T::remove_nan_mut(view);
                        let n = out.len();
                        let st = out.strides()[0];
                        let p0 = out.as_ptr() as usize;
                        let addrs: Vec<usize> = (0..n).map(|k| (p0 as isize + k as isize * st * esz as isize) as usize).collect();
                        (n, addrs)
                    });
                    let nonmissing: Vec<String> = { let mut v: Vec<String> = input.iter().filter(|e| !e.truly_missing()).map(|e| e.key()).collect(); v.sort(); v };
                    match res {
                        Err(m) => rep.fail_p(cfg, &case, "C04,C14", "remove_nan_mut panicked", json!({"panic": m})),
                        Ok((n, addrs)) => {
                            let mut problems = vec![];
                            if n != nonmissing.len() { problems.push(format!("length {} but {} non-missing elements", n, nonmissing.len())); }
                            if !addrs.iter().all(|a| in_addrs.contains(a)) { problems.push("returned view addresses memory outside the input view".to_string()); }
                            let mut d = addrs.clone(); d.sort(); d.dedup();
                            if d.len() != addrs.len() { problems.push("returned view aliases an element twice".to_string()); }
                            // read the returned elements back as the original type (same size, transparent wrappers)
                            let mut got = vec![];
                            for a in &addrs {
                                if in_addrs.contains(a) || (*a >= base && *a < base + PARENT * esz) {
                                    let e: &T = unsafe { &*(*a as *const T) };
                                    if e.truly_missing() { problems.push("a missing value is reachable through the not-NaN view".to_string()); }
                                    got.push(e.key());
                                }
                            }
                            got.sort();
                            if got != nonmissing && problems.is_empty() { problems.push("returned elements are not the non-missing input elements".to_string()); }
                            // frame + permutation inside the view
                            let after: Vec<String> = parent.iter().map(|x| x.key()).collect();
                            let in_phys: Vec<usize> = (0..len).map(phys).collect();
                            for q in 0..PARENT { if !in_phys.contains(&q) && after[q] != before[q] { problems.push(format!("parent element {} outside the view changed", q)); } }
                            let mut b: Vec<&String> = in_phys.iter().map(|q| &before[*q]).collect(); b.sort();
                            let mut a: Vec<&String> = in_phys.iter().map(|q| &after[*q]).collect(); a.sort();
                            if a != b { problems.push("the view no longer holds the multiset it held before".to_string()); }
                            if !problems.is_empty() {
                                // C03 is concerned by frame / multiset / aliasing problems only, C20 by aliasing (layout dependence)
                                let c03 = problems.iter().any(|p| p.contains("outside") || p.contains("multiset") || p.contains("aliases"));
                                let props = if c03 { "C04,C03,C20,C14" } else { "C04,C14,C20" };
                                rep.fail_p(cfg, &case, props, &problems[0], json!({"problems": problems, "input": input.iter().map(|e| e.key()).collect::<Vec<_>>()}));
                            }
                        }
                    }
                    rep.eval(&case, len >= 2 && pat != 0);
                    if rep.stop { return; }
                }
            }
        }
    }
}

/// generic compaction through the hook: determinism and idempotence on the same memory
fn idempotence(cfg: &Cfg, rep: &mut Report, maxlen: usize) {
    for len in 0..=maxlen { for pat in 0..(1u32 << len) {
        let case = format!("idem;len={};missing={:0w$b}", len, pat, w = len.max(1));
        if !rep.want(cfg, &case) { continue; }
        let mk = || Array1::from((0..len).map(|k| if pat >> k & 1 == 1 { f64::NAN } else { k as f64 }).collect::<Vec<_>>());
        let (mut a, mut b) = (mk(), mk());
        let ra: Vec<u64> = ndarray_stats::verif_hooks::remove_nan_mut(a.view_mut()).iter().map(|x| x.to_bits()).collect();
        let rb: Vec<u64> = ndarray_stats::verif_hooks::remove_nan_mut(b.view_mut()).iter().map(|x| x.to_bits()).collect();
        if ra != rb || a.iter().map(|x| x.to_bits()).collect::<Vec<_>>() != b.iter().map(|x| x.to_bits()).collect::<Vec<_>>() {
            rep.fail_p(cfg, &case, "C04", "remove_nan_mut is not deterministic", json!({}));
        }
        let n1 = ra.len();
        let snapshot: Vec<u64> = a.iter().map(|x| x.to_bits()).collect();
        let again: Vec<u64> = ndarray_stats::verif_hooks::remove_nan_mut(a.slice_mut(s![..n1])).iter().map(|x| x.to_bits()).collect();
        if again != ra || a.iter().map(|x| x.to_bits()).collect::<Vec<_>>() != snapshot {
            rep.fail_p(cfg, &case, "C04", "remove_nan_mut is not idempotent", json!({"first": ra, "second": again}));
        }
        rep.eval(&case, len >= 2 && pat != 0);
    }}
}

/// seeded random views of length 8..=90 with long runs of missing values, steps 1, 2, -1
fn large_views(cfg: &Cfg, rep: &mut Report) {
    let count = if cfg.thorough { 3000 } else { 500 };
    let mut rng = Lcg(cfg.seed.wrapping_mul(2654435761).wrapping_add(17));
    for k in 0..count {
        let n = 8 + rng.below(83);
        // runs: alternate blocks of present / missing with random block lengths up to 40
        let mut pat: Vec<bool> = vec![];
        let mut miss = rng.below(2) == 0;
        while pat.len() < n { let l = 1 + rng.below(if k % 3 == 0 { 40 } else { 6 }); for _ in 0..l { if pat.len() < n { pat.push(miss); } } miss = !miss; }
        for step in [1isize, 2, -1] {
            let case = format!("large;len={};step={};missing={}", n, step, pat.iter().map(|b| if *b { '1' } else { '0' }).collect::<String>());
            if !rep.want(cfg, &case) { continue; }
            let span = (n - 1) * step.unsigned_abs() + 1;
            let mut parent = Array1::from_elem(span + 2, -777.0f64);
            let phys = |i: usize| -> usize { if step > 0 { 1 + i * step as usize } else { 1 + (n - 1 - i) * step.unsigned_abs() } };
            for i in 0..n { parent[phys(i)] = if pat[i] { f64::NAN } else { i as f64 + 0.5 }; }
            let before: Vec<u64> = parent.iter().map(|x| x.to_bits()).collect();
            let view = parent.slice_mut(s![1..1 + span;step]);
            let r = guarded(move || <f64 as MaybeNan>::remove_nan_mut(view).iter().map(|x| x.raw()).collect::<Vec<f64>>());
            let mut want: Vec<f64> = (0..n).filter(|i| !pat[*i]).map(|i| i as f64 + 0.5).collect();
            match r {
                Err(m) => rep.fail_p(cfg, &case, "C04,C14", "remove_nan_mut panicked", json!({"panic": m})),
                Ok(mut got) => {
                    got.sort_by(|a, b| a.partial_cmp(b).unwrap_or(std::cmp::Ordering::Equal)); want.sort_by(|a, b| a.partial_cmp(b).unwrap());
                    if got.len() != want.len() || got.iter().zip(&want).any(|(a, b)| a.to_bits() != b.to_bits()) {
                        rep.fail_p(cfg, &case, "C04,C14,C20", "returned elements are not the non-missing input elements", json!({"got_len": got.len(), "want_len": want.len()}));
                    }
                    let after: Vec<u64> = parent.iter().map(|x| x.to_bits()).collect();
                    let inside: Vec<usize> = (0..n).map(phys).collect();
                    if (0..parent.len()).any(|q| !inside.contains(&q) && after[q] != before[q]) { rep.fail_p(cfg, &case, "C03,C04", "parent element outside the view changed", json!({})); }
                    let (mut a, mut b): (Vec<u64>, Vec<u64>) = (inside.iter().map(|q| after[*q]).collect(), inside.iter().map(|q| before[*q]).collect());
                    a.sort(); b.sort();
                    if a != b { rep.fail_p(cfg, &case, "C03,C04", "the view no longer holds the multiset it held before", json!({})); }
                }
            }
            rep.eval(&case, true);
        }
    }
}

pub fn nanview(cfg: &mut Cfg, rep: &mut Report) {
    large_views(cfg, rep);
    let maxlen = if cfg.thorough { 6 } else { 4 };
    rep.bound = format!("views of length 0..={} with steps +-1,+-2,+-3 at offsets 0 and 3 inside a 26-element guarded parent, every missing-value pattern, element types f32 f64 Option<u8..u128,i8..i128,N32,N64>", maxlen);
    one_type::<f64>(cfg, rep, maxlen);
    one_type::<f32>(cfg, rep, maxlen);
    one_type::<Option<i32>>(cfg, rep, maxlen);
    one_type::<Option<u8>>(cfg, rep, maxlen);
    one_type::<Option<N64>>(cfg, rep, maxlen);
    one_type::<Option<u128>>(cfg, rep, maxlen);
    if cfg.thorough {
        one_type::<Option<u16>>(cfg, rep, maxlen); one_type::<Option<u32>>(cfg, rep, maxlen); one_type::<Option<u64>>(cfg, rep, maxlen);
        one_type::<Option<i8>>(cfg, rep, maxlen); one_type::<Option<i16>>(cfg, rep, maxlen); one_type::<Option<i64>>(cfg, rep, maxlen);
        one_type::<Option<i128>>(cfg, rep, maxlen); one_type::<Option<N32>>(cfg, rep, maxlen);
    }
    idempotence(cfg, rep, maxlen + 2);
}
