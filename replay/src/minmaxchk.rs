use crate::fw::*;
use crate::lay::*;
use ndarray::prelude::*;
use ndarray_stats::errors::{EmptyInput, MinMaxError};
use ndarray_stats::interpolate::{Higher, Linear, Lower, Midpoint, Nearest};
use ndarray_stats::{MaybeNan, MaybeNanExt, QuantileExt};
use noisy_float::types::n64;
use serde_json::json;

fn fill<T: Clone>(shape: &[usize], alpha: &[T], code: usize) -> ArrayD<T> {
    let size: usize = shape.iter().product();
    let mut c = code;
    let v: Vec<T> = (0..size).map(|_| { let x = alpha[c % alpha.len()].clone(); c /= alpha.len(); x }).collect();
    ArrayD::from_shape_vec(IxDyn(shape), v).unwrap()
}

fn shapes_for(thorough: bool) -> Vec<Vec<usize>> {
    let mut s: Vec<Vec<usize>> = vec![vec![], vec![0], vec![1], vec![2], vec![3], vec![2, 2], vec![0, 3], vec![3, 0], vec![1, 3], vec![2, 0, 2]];
    if thorough { s.extend(vec![vec![4], vec![2, 3], vec![3, 2], vec![2, 2, 2], vec![1, 2, 1, 2]]); } else { s.push(vec![2, 1, 2]); }
    s
}

/// C05: min / max / argmin / argmax
pub fn minmax(cfg: &mut Cfg, rep: &mut Report) {
    rep.bound = "f64 over {NaN,-0.0,0.0,-inf,inf,1.5} and i32 over {-3,0,0,7}: every content for arrays of <= 4 elements (sampled above), shapes 0-D..4-D incl. zero-length axes, 5 layouts".to_string();
    let fa = [f64::NAN, -0.0, 0.0, f64::NEG_INFINITY, f64::INFINITY, 1.5];
    let ia = [-3i32, 0, 0, 7];
    let mut rng = Lcg(cfg.seed + 11);
    // larger arrays (8..=48 elements; 1-D and 2-D): NaN at a random position (or none), ties, signed zeros
    for k in 0..(if cfg.thorough { 4000 } else { 600 }) {
        let n = 8 + rng.below(41);
        let shape: Vec<usize> = if k % 3 == 0 && n % 2 == 0 { vec![2, n / 2] } else if k % 3 == 1 && n % 3 == 0 { vec![n / 3, 3] } else { vec![n] };
        let mut v: Vec<f64> = (0..n).map(|_| [-1.5, -0.0, 0.0, 2.0, 2.0, 7.25, f64::INFINITY][rng.below(7)]).collect();
        let nanpos = if k % 4 != 3 { Some(if k % 8 == 0 { 0 } else if k % 8 == 1 { n - 1 } else { rng.below(n) }) } else { None };
        if let Some(p) = nanpos { v[p] = f64::NAN; }
        let base = ArrayD::from_shape_vec(IxDyn(&shape), v.clone()).unwrap();
        for lay in ["c", "f", "rev"] {
            let case = format!("minmax;large;f64;shape={:?};data={:?};layout={}", shape, v, lay);
            if !rep.want(cfg, &case) { continue; }
            let rl = Relayout::new(&base, lay, 99.0);
            let vw = rl.view();
            match guarded(|| (vw.argmin(), vw.min().map(|x| *x), vw.argmax(), vw.max().map(|x| *x))) {
                Err(m) => rep.fail(cfg, &case, "min/max family panicked", json!({"panic": m})),
                Ok((amin, mn, amax, mx)) => {
                    if nanpos.is_some() {
                        if amin != Err(MinMaxError::UndefinedOrder) || mn != Err(MinMaxError::UndefinedOrder) || amax != Err(MinMaxError::UndefinedOrder) || mx != Err(MinMaxError::UndefinedOrder) {
                            rep.fail(cfg, &case, "NaN present but UndefinedOrder was not returned by all four routines", json!({"nan_at": nanpos}));
                        }
                    } else {
                        match (amin, mn, amax, mx) {
                            (Ok(i), Ok(a), Ok(j), Ok(b)) => {
                                if !(base.iter().all(|x| vw[&i] <= *x && a <= *x && vw[&j] >= *x && b >= *x) && a == vw[&i] && b == vw[&j]) { rep.fail(cfg, &case, "min/max/argmin/argmax do not designate extrema", json!({})); }
                            }
                            _ => rep.fail(cfg, &case, "error although the array is non-empty and NaN-free", json!({})),
                        }
                    }
                }
            }
            rep.eval(&case, true);
        }
    }
    for shape in shapes_for(cfg.thorough) {
        let size: usize = shape.iter().product();
        let ncodes_f = if size <= 4 { fa.len().pow(size as u32) } else { 600 };
        for k in 0..ncodes_f {
            let code = if size <= 4 { k } else { rng.next() as usize };
            let base = fill(&shape, &fa, code);
            for lay in LAYOUTS {
                let case = format!("minmax;f64;shape={:?};data={:?};layout={}", shape, base.iter().collect::<Vec<_>>(), lay);
                if !rep.want(cfg, &case) { continue; }
                let rl = Relayout::new(&base, lay, 99.0);
                let v = rl.view();
                let has_nan = base.iter().any(|x| x.is_nan());
                let r = guarded(|| (v.argmin(), v.min().map(|x| *x), v.argmax(), v.max().map(|x| *x)));
                match r {
                    Err(m) => rep.fail(cfg, &case, "min/max family panicked", json!({"panic": m})),
                    Ok((amin, mn, amax, mx)) => {
                        let mut bad = vec![];
                        if size == 0 {
                            if amin != Err(MinMaxError::EmptyInput) || mn != Err(MinMaxError::EmptyInput) || amax != Err(MinMaxError::EmptyInput) || mx != Err(MinMaxError::EmptyInput) { bad.push("empty array must give EmptyInput".to_string()); }
                        } else if has_nan {
                            if amin != Err(MinMaxError::UndefinedOrder) || mn != Err(MinMaxError::UndefinedOrder) || amax != Err(MinMaxError::UndefinedOrder) || mx != Err(MinMaxError::UndefinedOrder) {
                                bad.push(format!("NaN present but got argmin={:?} min={:?} argmax={:?} max={:?}", amin.is_ok(), mn.is_ok(), amax.is_ok(), mx.is_ok()));
                            }
                        } else {
                            match (amin, mn, amax, mx) {
                                (Ok(i), Ok(a), Ok(j), Ok(b)) => {
                                    let (vi, vj) = (v[&i], v[&j]);
                                    if !base.iter().all(|x| vi <= *x) { bad.push("argmin does not designate a minimum".into()); }
                                    if !base.iter().all(|x| vj >= *x) { bad.push("argmax does not designate a maximum".into()); }
                                    if !(a == vi) || !(b == vj) { bad.push("value form and arg form disagree".into()); }
                                    if !base.iter().all(|x| a <= *x && b >= *x) { bad.push("min/max is not an extremum".into()); }
                                }
                                _ => bad.push("error although the array is non-empty and NaN-free".into()),
                            }
                        }
                        if !bad.is_empty() { rep.fail(cfg, &case, &bad[0].clone(), json!({"problems": bad})); }
                    }
                }
                rep.eval(&case, size >= 2);
                if rep.stop { return; }
            }
        }
        // integers
        let ncodes_i = if size <= 4 { ia.len().pow(size as u32) } else { 200 };
        for k in 0..ncodes_i {
            let code = if size <= 4 { k } else { rng.next() as usize };
            let base = fill(&shape, &ia, code);
            for lay in LAYOUTS {
                let case = format!("minmax;i32;shape={:?};data={:?};layout={}", shape, base.iter().collect::<Vec<_>>(), lay);
                if !rep.want(cfg, &case) { continue; }
                let rl = Relayout::new(&base, lay, 99);
                let v = rl.view();
                let r = guarded(|| (v.argmin(), v.min().map(|x| *x), v.argmax(), v.max().map(|x| *x)));
                match r {
                    Err(m) => rep.fail(cfg, &case, "min/max family panicked", json!({"panic": m})),
                    Ok((amin, mn, amax, mx)) => {
                        if size == 0 {
                            if amin.is_ok() || mn.is_ok() || amax.is_ok() || mx.is_ok() { rep.fail(cfg, &case, "empty array must give EmptyInput", json!({})); }
                        } else {
                            let (lo, hi) = (*base.iter().min().unwrap(), *base.iter().max().unwrap());
                            let ok = mn == Ok(lo) && mx == Ok(hi) && amin.as_ref().map(|i| v[i]) == Ok(lo) && amax.as_ref().map(|i| v[i]) == Ok(hi);
                            if !ok { rep.fail(cfg, &case, "integer min/max/argmin/argmax wrong", json!({"min": format!("{:?}", mn), "max": format!("{:?}", mx)})); }
                        }
                    }
                }
                rep.eval(&case, size >= 2);
            }
        }
    }
}

trait SkipElem: MaybeNan + Clone + PartialEq + std::fmt::Debug + 'static where Self::NotNan: Ord + Clone + std::fmt::Debug {
    const NAME: &'static str;
    fn alpha() -> Vec<Self>;
    fn key(&self) -> Option<i64>; // None for missing; order-isomorphic key for the rest
}
impl SkipElem for f64 {
    const NAME: &'static str = "f64";
    fn alpha() -> Vec<Self> { vec![f64::NAN, -2.0, f64::INFINITY, 5.0, f64::NEG_INFINITY] }
    fn key(&self) -> Option<i64> { if f64::is_nan(*self) { None } else if *self == f64::INFINITY { Some(1 << 40) } else if *self == f64::NEG_INFINITY { Some(-(1 << 40)) } else { Some((*self * 2.0) as i64) } }
}
impl SkipElem for Option<i32> {
    const NAME: &'static str = "Option<i32>";
    fn alpha() -> Vec<Self> { vec![None, Some(-2), Some(0), Some(5)] }
    fn key(&self) -> Option<i64> { self.map(|x| x as i64 * 2) }
}

fn skip_one<T: SkipElem>(cfg: &Cfg, rep: &mut Report, rng: &mut Lcg) where T::NotNan: Ord + Clone + std::fmt::Debug {
    let al = T::alpha();
    let shapes: Vec<Vec<usize>> = if cfg.thorough { vec![vec![0], vec![1], vec![2], vec![3], vec![4], vec![2, 2], vec![2, 3], vec![0, 2], vec![2, 0], vec![2, 0, 3], vec![2, 2, 2]] } else { vec![vec![0], vec![1], vec![2], vec![3], vec![2, 2], vec![0, 2], vec![2, 0], vec![2, 1, 2], vec![2, 2, 2]] };
    for shape in shapes {
        let size: usize = shape.iter().product();
        let ncodes = if size <= 4 { al.len().pow(size as u32) } else if cfg.thorough { 300 } else { 60 };
        for k in 0..ncodes {
            let code = if size <= 4 { k } else { rng.next() as usize };
            let base = fill(&shape, &al, code);
            let keys: Vec<Option<i64>> = base.iter().map(|x| x.key()).collect();
            let present: Vec<i64> = keys.iter().filter_map(|k| *k).collect();
            for lay in ["c", "f", "stepped", "rev0"] {
                let case = format!("skipnan;{};shape={:?};data={:?};layout={}", T::NAME, shape, keys, lay);
                if !rep.want(cfg, &case) { continue; }
                let rl = Relayout::new(&base, lay, al[1].clone());
                let v = rl.view();
                let mut bad: Vec<String> = vec![];
                let r = guarded(|| {
                    let mut bad: Vec<String> = vec![];
                    // value forms
                    let mn = v.min_skipnan().key();
                    let mx = v.max_skipnan().key();
                    if mn != present.iter().min().copied() { bad.push(format!("min_skipnan = {:?}", mn)); }
                    if mx != present.iter().max().copied() { bad.push(format!("max_skipnan = {:?}", mx)); }
                    // index forms
                    match v.argmin_skipnan() { Ok(i) => { if present.is_empty() || v[&i].key() != present.iter().min().copied() { bad.push("argmin_skipnan designates a wrong position".into()); } }
                                                 Err(EmptyInput) => { if !present.is_empty() { bad.push("argmin_skipnan: EmptyInput although values remain".into()); } } }
                    match v.argmax_skipnan() { Ok(i) => { if present.is_empty() || v[&i].key() != present.iter().max().copied() { bad.push("argmax_skipnan designates a wrong position".into()); } }
                                                 Err(EmptyInput) => { if !present.is_empty() { bad.push("argmax_skipnan: EmptyInput although values remain".into()); } } }
                    // folds / visits see each remaining element exactly once
                    let n_fold = v.fold_skipnan(0usize, |acc, _| acc + 1);
                    let mut n_visit = 0usize; v.visit_skipnan(|_| n_visit += 1);
                    let mut seen = vec![];
                    v.indexed_fold_skipnan((), |_, (idx, _)| { seen.push(format!("{:?}", idx)); });
                    let mut want_idx: Vec<String> = v.indexed_iter().filter(|(_, x)| x.key().is_some()).map(|(i, _)| format!("{:?}", i)).collect();
                    seen.sort(); want_idx.sort();
                    if n_fold != present.len() || n_visit != present.len() || seen != want_idx { bad.push("fold/visit/indexed_fold do not see each remaining element exactly once".into()); }
                    bad
                });
                match r { Err(m) => bad.push(format!("panic: {}", m)), Ok(b) => bad.extend(b) }
                // per-axis forms
                for ax in 0..shape.len() {
                    if shape.iter().enumerate().any(|(i, d)| i != ax && *d == 0) {
                        // no lanes at all: the skip-NaN quantile must behave like the plain one (Ok with an empty result of the
                        // reduced shape when the chosen axis is non-empty, EmptyInput when it is empty)
                        if shape[ax] > 0 {
                            let mut rl6 = Relayout::new(&base, lay, al[1].clone());
                            let r6 = guarded(|| rl6.view_mut().quantile_axis_skipnan_mut(Axis(ax), n64(0.5), &Lower).map(|a| a.shape().to_vec()));
                            let mut want_shape = shape.clone(); want_shape.remove(ax);
                            match r6 { Ok(Ok(sh)) if sh == want_shape => {}, other => bad.push(format!("quantile_axis_skipnan_mut on an array without lanes (axis {} of shape {:?}): {:?}, the plain quantile gives Ok with shape {:?}", ax, shape, other, want_shape)) }
                        }
                        continue;
                    }
                    let lanes: Vec<Vec<Option<i64>>> = v.lanes(Axis(ax)).into_iter().map(|l| l.iter().map(|x| x.key()).collect()).collect();
                    let r = guarded(|| {
                        let mut bad: Vec<String> = vec![];
                        let counts = v.fold_axis_skipnan(Axis(ax), 0usize, |acc, _| acc + 1);
                        let want: Vec<usize> = lanes.iter().map(|l| l.iter().filter(|k| k.is_some()).count()).collect();
                        if counts.iter().copied().collect::<Vec<_>>() != want { bad.push(format!("fold_axis_skipnan axis {} counts {:?} want {:?}", ax, counts, want)); }
                        // an order-sensitive fold: result j is the left fold of the remaining elements of lane j, in axis order
                        let sig = v.fold_axis_skipnan(Axis(ax), 7i64, |acc, x| acc.wrapping_mul(31).wrapping_add(T::from_not_nan(x.clone()).key().unwrap()));
                        let want_sig: Vec<i64> = lanes.iter().map(|l| l.iter().filter_map(|k| *k).fold(7i64, |a, k| a.wrapping_mul(31).wrapping_add(k))).collect();
                        if sig.iter().copied().collect::<Vec<_>>() != want_sig { bad.push(format!("fold_axis_skipnan axis {}: per-lane folds {:?}, filter-then-fold gives {:?}", ax, sig, want_sig)); }
                        // map_axis_skipnan_mut on a copy: each lane handed over is the filtered lane (as a multiset)
                        let mut rl2 = Relayout::new(&base, lay, al[1].clone());
                        let mut vm = rl2.view_mut();
                        let got = vm.map_axis_skipnan_mut(Axis(ax), |lane| lane.len());
                        if got.iter().copied().collect::<Vec<_>>() != want { bad.push(format!("map_axis_skipnan_mut axis {} lane lengths", ax)); }
                        // result j is the mapping applied to the remaining elements of lane j (as a multiset: the order is unspecified)
                        let mut rl7 = Relayout::new(&base, lay, al[1].clone());
                        let sums = rl7.view_mut().map_axis_skipnan_mut(Axis(ax), |lane| lane.iter().fold(0i64, |a, x| a.wrapping_add(T::from_not_nan(x.clone()).key().unwrap().wrapping_mul(3) + 1)));
                        let want_sums: Vec<i64> = lanes.iter().map(|l| l.iter().filter_map(|k| *k).fold(0i64, |a, k| a.wrapping_add(k.wrapping_mul(3) + 1))).collect();
                        if sums.iter().copied().collect::<Vec<_>>() != want_sums { bad.push(format!("map_axis_skipnan_mut axis {}: per-lane results {:?}, map over the filtered lanes gives {:?}", ax, sums, want_sums)); }
                        // the lanes still hold their multisets
                        let after: Vec<Vec<Option<i64>>> = vm.lanes(Axis(ax)).into_iter().map(|l| { let mut k: Vec<Option<i64>> = l.iter().map(|x| x.key()).collect(); k.sort(); k }).collect();
                        let before: Vec<Vec<Option<i64>>> = lanes.iter().map(|l| { let mut k = l.clone(); k.sort(); k }).collect();
                        if after != before { bad.push("C03: map_axis_skipnan_mut changed a lane's multiset".into()); }
                        // quantile_axis_skipnan_mut == quantile of the filtered lane
                        if shape[ax] > 0 {
                            for q in [0.0, 0.5, 1.0, 0.3] {
                                let mut rl3 = Relayout::new(&base, lay, al[1].clone());
                                let mut vm3 = rl3.view_mut();
                                let lo = vm3.quantile_axis_skipnan_mut(Axis(ax), n64(q), &Lower);
                                let mut rl4 = Relayout::new(&base, lay, al[1].clone());
                                let hi = rl4.view_mut().quantile_axis_skipnan_mut(Axis(ax), n64(q), &Higher);
                                let mut rl5 = Relayout::new(&base, lay, al[1].clone());
                                let ne = rl5.view_mut().quantile_axis_skipnan_mut(Axis(ax), n64(q), &Nearest);
                                match (lo, hi, ne) {
                                    (Ok(lo), Ok(hi), Ok(ne)) => {
                                        for (li, l) in lanes.iter().enumerate() {
                                            let mut f: Vec<i64> = l.iter().filter_map(|k| *k).collect(); f.sort();
                                            let (wl, wh, wn) = if f.is_empty() { (None, None, None) } else {
                                                let x = q * (f.len() - 1) as f64;
                                                (Some(f[x.floor() as usize]), Some(f[x.ceil() as usize]), Some(if x.fract() < 0.5 { f[x.floor() as usize] } else { f[x.ceil() as usize] }))
                                            };
                                            let g = |a: &ArrayD<T>| a.iter().nth(li).unwrap().key();
                                            if g(&lo) != wl || g(&hi) != wh || g(&ne) != wn { bad.push(format!("quantile_axis_skipnan_mut axis {} q {} lane {}", ax, q, li)); }
                                        }
                                    }
                                    _ => bad.push("quantile_axis_skipnan_mut returned an error for valid input".into()),
                                }
                            }
                        }
                        bad
                    });
                    match r { Err(m) => bad.push(format!("panic (axis forms): {}", m)), Ok(b) => bad.extend(b) }
                }
                if !bad.is_empty() {
                    let props = if bad.iter().all(|b| b.starts_with("C03")) { "C03" } else { "C14,C20" };
                    rep.fail_p(cfg, &case, props, &bad[0].clone(), json!({"problems": bad}));
                }
                rep.eval(&case, size >= 2 && present.len() != size);
                if rep.stop { return; }
            }
        }
    }
}

/// quantile_axis_skipnan_mut against the *plain* quantile routine of the crate on the lane with the missing
/// values deleted, for all five strategies (Midpoint / Linear exercise the arithmetic of the not-NaN wrapper types)
trait SkipQ: MaybeNan + Clone + std::fmt::Debug + PartialEq + 'static
where Self::NotNan: Ord + Clone + num_traits::NumOps + num_traits::FromPrimitive + num_traits::ToPrimitive {
    type Inner: Ord + Clone + std::fmt::Debug + num_traits::NumOps + num_traits::FromPrimitive + num_traits::ToPrimitive;
    const NAME: &'static str;
    fn alpha() -> Vec<Self>;
    fn inner(&self) -> Option<Self::Inner>;
    fn wrap(x: Option<Self::Inner>) -> Self;
}
impl SkipQ for Option<noisy_float::types::N64> {
    type Inner = noisy_float::types::N64; const NAME: &'static str = "Option<N64>";
    fn alpha() -> Vec<Self> { vec![None, Some(n64(0.5)), Some(n64(1.5)), Some(n64(2.25)), Some(n64(-7.125))] }
    fn inner(&self) -> Option<Self::Inner> { *self }
    fn wrap(x: Option<Self::Inner>) -> Self { x }
}
impl SkipQ for Option<i128> {
    type Inner = i128; const NAME: &'static str = "Option<i128>";
    fn alpha() -> Vec<Self> { vec![None, Some(3), Some(-(1i128 << 70)), Some((1i128 << 70) + 4), Some(10)] }
    fn inner(&self) -> Option<Self::Inner> { *self }
    fn wrap(x: Option<Self::Inner>) -> Self { x }
}
impl SkipQ for Option<i32> {
    type Inner = i32; const NAME: &'static str = "Option<i32>";
    fn alpha() -> Vec<Self> { vec![None, Some(3), Some(-20), Some(1000), Some(10)] }
    fn inner(&self) -> Option<Self::Inner> { *self }
    fn wrap(x: Option<Self::Inner>) -> Self { x }
}
impl SkipQ for f64 {
    type Inner = noisy_float::types::N64; const NAME: &'static str = "f64";
    fn alpha() -> Vec<Self> { vec![f64::NAN, 0.5, f64::INFINITY, 2.25, f64::NEG_INFINITY] }
    fn inner(&self) -> Option<Self::Inner> { if f64::is_nan(*self) { None } else { Some(n64(*self)) } }
    fn wrap(x: Option<Self::Inner>) -> Self { match x { None => f64::NAN, Some(v) => v.raw() } }
}

fn skipq_one<T: SkipQ>(cfg: &Cfg, rep: &mut Report, maxn: usize)
where T::NotNan: Ord + Clone + num_traits::NumOps + num_traits::FromPrimitive + num_traits::ToPrimitive {
    use ndarray_stats::Quantile1dExt;
    let al = T::alpha();
    for n in 1..=maxn {
        for_all_arrays(n, al.len(), |pat| {
            let lane: Vec<T> = pat.iter().map(|k| al[*k as usize].clone()).collect();
            let filtered: Vec<T::Inner> = lane.iter().filter_map(|x| x.inner()).collect();
            for q in [0.0, 0.25, 0.3, 0.5, 0.77, 1.0] {
                let case = format!("skipnan;quantile;{};lane={:?};q={}", T::NAME, lane, q);
                if !rep.want(cfg, &case) { continue; }
                macro_rules! one { ($strat:expr, $nm:expr) => {{
                    let want: Result<T, String> = if filtered.is_empty() { Ok(T::wrap(None)) } else {
                        let mut f = Array1::from(filtered.clone());
                        match guarded(|| f.quantile_mut(n64(q), &$strat)) { Ok(Ok(v)) => Ok(T::wrap(Some(v))), other => Err(format!("plain routine: {:?}", other.map(|r| r.map(|_| ())))) }
                    };
                    let mut a = Array1::from(lane.clone());
                    let got = guarded(|| a.quantile_axis_skipnan_mut(Axis(0), n64(q), &$strat));
                    match (want, got) {
                        (Ok(w), Ok(Ok(g))) => { let g0 = g.into_scalar(); let same = g0 == w || (g0.inner().is_none() && w.inner().is_none()); if !same { rep.fail_p(cfg, &case, "C14", "quantile_axis_skipnan_mut differs from the plain quantile of the filtered lane", json!({"strategy": $nm, "got": format!("{:?}", g0), "plain": format!("{:?}", w)})); } }
                        (Ok(w), other) => rep.fail_p(cfg, &case, "C14", "quantile_axis_skipnan_mut fails where the plain quantile of the filtered lane succeeds", json!({"strategy": $nm, "plain": format!("{:?}", w), "got": format!("{:?}", other.map(|r| r.map(|_| ())))})),
                        (Err(_), _) => {} // the plain operation itself fails on this lane (recorded findings of C01): nothing to compare
                    }
                }}}
                one!(Lower, "Lower"); one!(Higher, "Higher"); one!(Nearest, "Nearest"); one!(Midpoint, "Midpoint"); one!(Linear, "Linear");
                rep.eval(&case, n >= 2 && filtered.len() < n);
            }
            !rep.stop
        });
    }
}

/// C14: skip-NaN operations equal the plain operation on the filtered data
pub fn skipnan(cfg: &mut Cfg, rep: &mut Report) {
    let maxn = if cfg.thorough { 4 } else { 3 };
    skipq_one::<Option<noisy_float::types::N64>>(cfg, rep, maxn);
    skipq_one::<Option<i128>>(cfg, rep, maxn);
    skipq_one::<Option<i32>>(cfg, rep, maxn);
    skipq_one::<f64>(cfg, rep, maxn);

    rep.bound = "f64 over {NaN,-2,0,5} and Option<i32> over {None,-2,0,5}: every content for arrays of <= 4 elements (sampled above), 1-D..3-D incl. empty, layouts C/F/stepped, every axis; quantiles q in {0,.3,.5,1} x {Lower,Higher,Nearest}; plus 1-D lanes of length <= 3 (4 thorough) over 5-letter alphabets of Option<N64> (non-integral), Option<i128> (beyond 64 bit), Option<i32>, f64: all five strategies at 6 q values against the plain quantile routine of the crate on the filtered lane".to_string();
    let mut rng = Lcg(cfg.seed + 3);
    skip_one::<f64>(cfg, rep, &mut rng);
    skip_one::<Option<i32>>(cfg, rep, &mut rng);
    let _ = (Midpoint, Linear);
}
