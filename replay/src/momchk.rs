//! C07 (bounded): weighted variance / standard deviation, central moments, skewness and kurtosis of the real crate
//! against their definitions evaluated in exact rational arithmetic (every finite f64 is a rational number).
use crate::exact::*;
use crate::fw::*;
use crate::lay::*;
use ndarray::prelude::*;
use ndarray_stats::SummaryStatisticsExt;
use serde_json::json;

const U: f64 = 1.1102230246251565e-16; // unit roundoff of f64

fn qv(v: &[f64]) -> Vec<Q> { v.iter().map(|x| Q::from_f64(*x)).collect() }

/// exact (W, xbar_w, S = sum w (x - xbar_w)^2)
fn exact_wstats(x: &[Q], w: &[Q]) -> Option<(Q, Q, Q)> {
    let wt = Q::sum(w.iter());
    if wt.is_zero() { return None; }
    let mut p = Q::zero();
    for (xi, wi) in x.iter().zip(w) { p = p.add(&xi.mul(wi)); }
    let m = p.div(&wt);
    let mut s = Q::zero();
    for (xi, wi) in x.iter().zip(w) { let d = xi.sub(&m); s = s.add(&wi.mul(&d).mul(&d)); }
    Some((wt, m, s))
}

/// exact central moment (1/n) sum (x - xbar)^p  and the matching sum of absolute terms (1/n) sum |x - xbar|^p
fn exact_cmoment(x: &[Q], p: u32) -> (Q, Q) {
    let n = Q::int(x.len() as i64);
    let m = Q::sum(x.iter()).div(&n);
    let mut s = Q::zero();
    let mut a = Q::zero();
    for xi in x { let d = xi.sub(&m).pow(p); a = a.add(&d.abs()); s = s.add(&d); }
    (s.div(&n), a.div(&n))
}

fn code_vec(alpha: &[f64], len: usize, mut code: usize) -> Vec<f64> {
    (0..len).map(|_| { let v = alpha[code % alpha.len()]; code /= alpha.len(); v }).collect()
}

/// one weighted-variance case: every check of C07 that concerns weighted_var / weighted_std
fn check_wvar(cfg: &Cfg, rep: &mut Report, tag: &str, shape: &[usize], data: &[f64], weights: &[f64], layouts: &[(&'static str, &'static str)]) {
    let (xq, wq) = (qv(data), qv(weights));
    let st = exact_wstats(&xq, &wq);
    let zero_prefix = weights.first().map(|w| *w == 0.0).unwrap_or(false) && st.is_some();
    let d = ArrayD::from_shape_vec(IxDyn(shape), data.to_vec()).unwrap();
    let w = ArrayD::from_shape_vec(IxDyn(shape), weights.to_vec()).unwrap();
    for ddof in [0.0f64, 0.5, 1.0] {
        let case = format!("moments;wvar;{}{};shape={:?};data={:?};weights={:?};ddof={}", tag, if zero_prefix { ";class=zero_weight_prefix" } else { "" }, shape, data, weights, ddof);
        if !rep.want(cfg, &case) { continue; }
        let r = guarded(|| {
            let mut bad: Vec<String> = vec![];
            let mut first_bits: Option<u64> = None;
            for (ld, lw) in layouts {
                let (rd, rw) = (Relayout::new(&d, ld, 7777.0), Relayout::new(&w, lw, 5555.0));
                // weighted_var takes `&Self`: both operands as owned arrays of the requested memory layout
                let (od, ow) = (own_like(&rd), own_like(&rw));
                let var = match od.weighted_var(&ow, ddof) { Ok(v) => v, Err(e) => { bad.push(format!("weighted_var returned an error | {:?} [{}/{}]", e, ld, lw)); continue; } };
                let std = od.weighted_std(&ow, ddof).unwrap_or(f64::NAN);
                if std.to_bits() != var.sqrt().to_bits() { bad.push(format!("weighted_std is not the square root of weighted_var | {} vs {} [{}/{}]", std, var, ld, lw)); }
                // the recurrence runs in logical order: logically equal operands give the same bits whatever their layouts
                match first_bits { None => first_bits = Some(var.to_bits()), Some(b) => if b != var.to_bits() { bad.push(format!("LAYOUT weighted_var depends on the memory layout of data / weights | {} vs {} [{}/{}]", f64::from_bits(b), var, ld, lw)); continue; } }
                if let Some((wt, m, s)) = &st {
                    let den = wt.sub(&Q::from_f64(ddof));
                    if wt.is_pos() && !den.is_zero() {
                        let exact = s.div(&den);
                        let (sf, wf, mf, denf) = (s.to_f64(), wt.to_f64(), m.to_f64().abs(), den.to_f64().abs());
                        // forward-error bound of West's recurrence (Chan, Golub, LeVeque): n u (S + sqrt(S W) |xbar|), with slack
                        let tol = 8.0 * (data.len() as f64 + 2.0) * U * (sf + (sf * wf).sqrt() * mf) / denf;
                        let err = err_of(var, &exact);
                        if !(err <= tol) { bad.push(format!("weighted_var differs from sum w (x - xbar_w)^2 / (sum w - ddof) | got {} exact {} error {:e} bound {:e} [{}/{}]", var, exact.to_f64(), err, tol, ld, lw)); }
                        if den.is_pos() && !(var >= -tol) { bad.push(format!("weighted_var is negative for non-negative weights | {} [{}/{}]", var, ld, lw)); }
                    }
                }
            }
            // very large / very small finite data: scaling the data by a power of two scales the variance by its square, exactly
            if st.is_some() && data.len() <= 4 {
                if let Ok(v1) = d.weighted_var(&w, ddof) {
                    for k in [400i32, -400] {
                        let ds = d.mapv(|x| x * 2f64.powi(k));
                        let want = v1 * 2f64.powi(k) * 2f64.powi(k);
                        match ds.weighted_var(&w, ddof) { Ok(vs) => if v1.is_finite() && !((vs - want).abs() <= 1e-12 * want.abs()) { bad.push(format!("weighted_var does not scale with the square of a power-of-two factor (very large / very small finite data) | 2^{}: {} vs {}", k, vs, want)); }, Err(e) => bad.push(format!("weighted_var of scaled data returned an error | {:?}", e)) }
                    }
                }
            }
            bad
        });
        match r { Err(m) => rep.fail_p(cfg, &case, "C07", "weighted variance panicked", json!({"panic": m})), Ok(bad) => if !bad.is_empty() { { let lay = bad.iter().find(|b| b.starts_with("LAYOUT ")).cloned(); let other = bad.iter().find(|b| !b.starts_with("LAYOUT ")).cloned(); if let Some(l) = lay { rep.fail_p(cfg, &case, "C07,C20", l.split(" | ").next().unwrap_or(""), json!({"problems": bad})); } if let Some(o) = other { rep.fail_p(cfg, &case, "C07", o.split(" | ").next().unwrap_or(""), json!({"problems": bad})); } }; } }
        rep.eval(&case, data.len() >= 2 && st.is_some());
        if rep.stop { return; }
    }
}

fn own_like(r: &Relayout<f64>) -> ArrayD<f64> {
    // an owned array whose memory layout follows the view (C for "c", F for "f"); for the other kinds the logical
    // copy (weighted_var needs `&Self`, i.e. both operands of the same storage type)
    match r.kind { "f" => r.owner.clone(), _ => r.view().to_owned() }
}

fn check_cmoments(cfg: &Cfg, rep: &mut Report, tag: &str, shape: &[usize], data: &[f64], layouts: &[&'static str], max_order: u16) {
    let xq = qv(data);
    let n = data.len();
    let case = format!("moments;central;{};shape={:?};data={:?}", tag, shape, data);
    if !rep.want(cfg, &case) { return; }
    let d = ArrayD::from_shape_vec(IxDyn(shape), data.to_vec()).unwrap();
    let maxabs = data.iter().fold(0.0f64, |a, x| a.max(x.abs()));
    let delta = 2.0 * n as f64 * U * maxabs; // error bound of the computed mean
    let r = guarded(|| {
        let mut bad: Vec<String> = vec![];
        let mut canon_ok = true; // the canonical (C-order) layout comes first
        for lay in layouts {
            let rl = Relayout::new(&d, lay, 4242.0);
            let v = rl.view();
            let bulk = match v.central_moments(max_order) { Ok(b) => b, Err(e) => { bad.push(format!("central_moments returned an error | {:?}", e)); continue; } };
            if bulk.len() != max_order as usize + 1 { bad.push(format!("central_moments has the wrong number of entries | order {} entries {}", max_order, bulk.len())); continue; }
            for p in 0..=max_order {
                let single = match v.central_moment(p) { Ok(s) => s, Err(e) => { bad.push(format!("central_moment returned an error | order {} {:?}", p, e)); continue; } };
                if bulk[p as usize].to_bits() != single.to_bits() { bad.push(format!("central_moments(p)[k] differs from central_moment(k) | p={} k={} {} vs order {} {} [{}]", max_order, p, bulk[p as usize], p, single, lay)); }
                if p == 0 && single.to_bits() != 1.0f64.to_bits() { bad.push(format!("central_moment(0) is not exactly 1 | {} [{}]", single, lay)); }
                if p == 1 && single != 0.0 { bad.push(format!("central_moment(1) is not exactly 0 | {} [{}]", single, lay)); }
                if p >= 2 {
                    let (exact, _abs) = exact_cmoment(&xq, p as u32);
                    // sum of absolute terms, with the deviations inflated by the error of the computed mean
                    let m = Q::sum(xq.iter()).div(&Q::int(n as i64)).to_f64();
                    let a: f64 = data.iter().map(|x| ((x - m).abs() + delta).powi(p as i32)).sum::<f64>() / n as f64;
                    let tol = 8.0 * (n as f64 + p as f64) * (p as f64) * U * a;
                    let err = err_of(single, &exact);
                    if !(err <= tol) { bad.push(format!("{}central_moment(p) differs from (1/n) sum (x - xbar)^p | p={} got {} (p={}) exact {} error {:e} bound {:e} [{}]", if *lay != "c" && canon_ok { "LAYOUT " } else { "" }, p, single, p, exact.to_f64(), err, tol, lay)); if *lay == "c" { canon_ok = false; } }
                }
            }
            // skewness / kurtosis: the documented functions of the central moments
            if max_order >= 4 && n >= 1 {
                let (m2, m3, m4) = (bulk[2], bulk[3], bulk[4]);
                let sk = v.skewness().unwrap_or(f64::NAN);
                let ku = v.kurtosis().unwrap_or(f64::NAN);
                let sk_ref = m3 / m2.sqrt().powi(3);
                let ku_ref = m4 / m2.powi(2);
                let same = |a: f64, b: f64| a.to_bits() == b.to_bits() || (a.is_nan() && b.is_nan());
                if !same(sk, sk_ref) { bad.push(format!("skewness is not mu3 / mu2^1.5 | {} vs {} [{}]", sk, sk_ref, lay)); }
                if !same(ku, ku_ref) { bad.push(format!("kurtosis is not mu4 / mu2^2 | {} vs {} [{}]", ku, ku_ref, lay)); }
            }
        }
        // very large / very small finite data: central_moment(p) of 2^k x is 2^(k p) central_moment(p) of x, exactly
        if n <= 6 {
            for k in [100i32, -100] {
                let ds = d.mapv(|x| x * 2f64.powi(k));
                if let (Ok(b1), Ok(bs)) = (d.central_moments(max_order.min(6)), ds.central_moments(max_order.min(6))) {
                    for p in 2..b1.len() {
                        let f = 2f64.powi(k * p as i32);
                        let want = b1[p] * f;
                        if want.is_finite() && (want == 0.0 || want.abs() > 1e-290) && !((bs[p] - want).abs() <= 1e-11 * want.abs()) { bad.push(format!("central_moment(p) does not scale with the p-th power of a power-of-two factor (very large / very small finite data) | p={} 2^{}: {} vs {}", p, k, bs[p], want)); }
                    }
                }
            }
        }
        bad
    });
    match r { Err(m) => rep.fail_p(cfg, &case, "C07", "central moments panicked", json!({"panic": m})), Ok(bad) => if !bad.is_empty() { { let lay = bad.iter().find(|b| b.starts_with("LAYOUT ")).cloned(); let other = bad.iter().find(|b| !b.starts_with("LAYOUT ")).cloned(); if let Some(l) = lay { rep.fail_p(cfg, &case, "C07,C20", l.split(" | ").next().unwrap_or(""), json!({"problems": bad})); } if let Some(o) = other { rep.fail_p(cfg, &case, "C07", o.split(" | ").next().unwrap_or(""), json!({"problems": bad})); } }; } }
    rep.eval(&case, n >= 2);
}

pub fn moments(cfg: &mut Cfg, rep: &mut Report) {
    rep.bound = "f64. weighted_var/std: every data vector over {-3,-0.5,0,1,2.25} and every weight vector over {0,0.5,1,3} for <= 3 elements (sampled for 4..8 elements and 2-D/3-D shapes, 3 layout pairings), ddof in {0,0.5,1}, plus data with a large mean (1e6,1e8,1e10 + small offsets); compared with the exact rational value of the definition, tolerance 8(n+2)u(S + sqrt(S W)|xbar|)/|W-ddof|. central moments, orders 0..8: every vector over the same alphabet for <= 4 elements, sampled up to 8 (thorough 16) elements, shapes up to 3-D x 5 layouts, plus large-mean data; tolerance 8(n+p)p u (1/n)sum(|x-xbar|+delta)^p; skewness/kurtosis bit for bit as functions of the central moments; per-axis variance lane by lane bit for bit; exact scaling under 2^400 / 2^-400 (variance) and 2^100 / 2^-100 (moments) for very large / very small finite data".to_string();
    let da = [-3.0f64, -0.5, 0.0, 1.0, 2.25];
    let wa = [0.0f64, 0.5, 1.0, 3.0];
    let mut rng = Lcg(cfg.seed + 77);
    // A. weighted variance, exhaustive small 1-D
    for len in 1..=3usize {
        for dc in 0..da.len().pow(len as u32) {
            let data = code_vec(&da, len, dc);
            for wc in 0..wa.len().pow(len as u32) {
                let w = code_vec(&wa, len, wc);
                check_wvar(cfg, rep, "small", &[len], &data, &w, &[("c", "c")]);
                if rep.stop { return; }
            }
        }
    }
    // sampled: longer 1-D and n-D with layout pairings
    let shapes: Vec<Vec<usize>> = if cfg.thorough { vec![vec![4], vec![6], vec![8], vec![2, 2], vec![2, 3], vec![3, 1, 2], vec![2, 2, 2]] } else { vec![vec![4], vec![7], vec![2, 3], vec![2, 1, 2]] };
    for shape in &shapes {
        let size: usize = shape.iter().product();
        for _ in 0..(if cfg.thorough { 1500 } else { 20 }) {
            let data = code_vec(&da, size, rng.next() as usize);
            let w = code_vec(&wa, size, rng.next() as usize);
            let lays: &[(&'static str, &'static str)] = if shape.len() > 1 { &[("c", "c"), ("f", "rev"), ("stepped", "f")] } else { &[("c", "c"), ("rev", "stepped")] };
            check_wvar(cfg, rep, "sampled", shape, &data, &w, lays);
            if rep.stop { return; }
        }
    }
    // data with a large mean relative to its spread
    for base in [1e6f64, 1e8, 1e10] {
        for offs in [vec![0.0, 1.0, 3.0], vec![0.0, 0.5, 0.25, 4.0], vec![2.0, 2.0, 2.0], vec![0.0, 1.0, 2.0, 3.0, 5.0, 8.0, 13.0]] {
            let data: Vec<f64> = offs.iter().map(|o| base + o).collect();
            for wsel in 0..3 {
                let w: Vec<f64> = (0..data.len()).map(|i| match wsel { 0 => 1.0, 1 => [0.5, 3.0, 1.0][i % 3], _ => [0.0, 1.0, 3.0][i % 3] }).collect();
                check_wvar(cfg, rep, "large_mean", &[data.len()], &data, &w, &[("c", "c")]);
                if rep.stop { return; }
            }
        }
    }
    // per-axis forms: lane by lane, bit for bit (zero weights included)
    for shape in [vec![2usize, 3], vec![3, 2], vec![2, 2, 2]] {
        let size: usize = shape.iter().product();
        for _ in 0..(if cfg.thorough { 300 } else { 6 }) {
            let data = code_vec(&da, size, rng.next() as usize);
            let d = ArrayD::from_shape_vec(IxDyn(&shape), data.clone()).unwrap();
            for ax in 0..shape.len() {
                let w: Array1<f64> = Array1::from(code_vec(&wa, shape[ax], rng.next() as usize));
                for ddof in [0.0, 1.0] {
                    let case = format!("moments;var_axis;shape={:?};data={:?};axis={};weights={:?};ddof={}", shape, data, ax, w.to_vec(), ddof);
                    if !rep.want(cfg, &case) { continue; }
                    let r = guarded(|| {
                        let mut bad: Vec<String> = vec![];
                        for lay in ["c", "f", "stepped"] {
                            let rl = Relayout::new(&d, lay, 99.0);
                            let v = rl.view().to_owned();
                            let v = if lay == "f" { rl.owner.clone() } else { v };
                            match (v.weighted_var_axis(Axis(ax), &w, ddof), v.weighted_std_axis(Axis(ax), &w, ddof)) {
                                (Ok(va), Ok(sa)) => {
                                    let mut want_shape = shape.clone(); want_shape.remove(ax);
                                    if va.shape() != want_shape.as_slice() { bad.push(format!("weighted_var_axis result has the wrong shape | {:?}", va.shape())); continue; }
                                    for (li, lane) in v.lanes(Axis(ax)).into_iter().enumerate() {
                                        let lo = lane.to_owned();
                                        let (lv, ls) = (lo.weighted_var(&w, ddof).unwrap_or(f64::NAN), lo.weighted_std(&w, ddof).unwrap_or(f64::NAN));
                                        let (gv, gs) = (*va.iter().nth(li).unwrap(), *sa.iter().nth(li).unwrap());
                                        let same = |a: f64, b: f64| a.to_bits() == b.to_bits() || (a.is_nan() && b.is_nan());
                                        if !same(lv, gv) { bad.push(format!("weighted_var_axis differs from the whole-array routine on a lane | lane {}: {} vs {} [{}]", li, gv, lv, lay)); }
                                        if !same(ls, gs) { bad.push(format!("weighted_std_axis differs from the whole-array routine on a lane | lane {}: {} vs {} [{}]", li, gs, ls, lay)); }
                                    }
                                }
                                (a, b) => bad.push(format!("per-axis variance returned an error | {:?} / {:?}", a.err(), b.err())),
                            }
                        }
                        bad
                    });
                    match r { Err(m) => rep.fail_p(cfg, &case, "C07", "per-axis variance panicked", json!({"panic": m})), Ok(bad) => if !bad.is_empty() { { let lay = bad.iter().find(|b| b.starts_with("LAYOUT ")).cloned(); let other = bad.iter().find(|b| !b.starts_with("LAYOUT ")).cloned(); if let Some(l) = lay { rep.fail_p(cfg, &case, "C07,C20", l.split(" | ").next().unwrap_or(""), json!({"problems": bad})); } if let Some(o) = other { rep.fail_p(cfg, &case, "C07", o.split(" | ").next().unwrap_or(""), json!({"problems": bad})); } }; } }
                    rep.eval(&case, true);
                    if rep.stop { return; }
                }
            }
        }
    }
    // B. central moments
    for len in 1..=4usize {
        for dc in 0..da.len().pow(len as u32) {
            let data = code_vec(&da, len, dc);
            check_cmoments(cfg, rep, "small", &[len], &data, &["c"], 8);
            if rep.stop { return; }
        }
    }
    let cshapes: Vec<Vec<usize>> = if cfg.thorough { vec![vec![5], vec![8], vec![16], vec![2, 3], vec![2, 2, 2], vec![3, 1, 2]] } else { vec![vec![6], vec![2, 3], vec![2, 2, 2]] };
    for shape in &cshapes {
        let size: usize = shape.iter().product();
        for _ in 0..(if cfg.thorough { 800 } else { 12 }) {
            let data = code_vec(&[-3.0, -0.5, 0.0, 1.0, 2.25, 7.75, 100.125], size, rng.next() as usize);
            check_cmoments(cfg, rep, "sampled", shape, &data, &LAYOUTS, 8);
            if rep.stop { return; }
        }
    }
    for base in [1e3f64, 1e6, 1e8, 1e10] {
        for offs in [vec![0.0, 1.0, 3.0], vec![0.0, 0.5, 0.25, 4.0, 1.0], vec![0.0, 1.0, 2.0, 3.0, 5.0, 8.0, 13.0]] {
            let data: Vec<f64> = offs.iter().map(|o| base + o).collect();
            check_cmoments(cfg, rep, "large_mean;class=large_mean", &[data.len()], &data, &["c"], 6);
            if rep.stop { return; }
        }
    }
}
