//! C06 / C09 (bounded), floating-point clause: means, weighted sums and distances on f64 data of mixed magnitude,
//! cancelling signs and large common offsets, against the exact rational value of the definition, within
//! (number of rounded operations) * u * (sum of the absolute values of the terms being added).
use crate::exact::*;
use crate::fw::*;
use crate::lay::*;
use ndarray::prelude::*;
use ndarray_stats::{DeviationExt, SummaryStatisticsExt};
use serde_json::json;

const U: f64 = 1.1102230246251565e-16;

fn within(bad: &mut Vec<String>, what: &str, got: f64, exact: &Q, tol: f64, tag: &str) {
    let err = err_of(got, exact);
    if !(err <= tol) { bad.push(format!("{} differs from its exact value beyond roundoff | got {} exact {} error {:e} bound {:e} [{}]", what, got, exact.to_f64(), err, tol, tag)); }
}

pub fn floatsums(cfg: &mut Cfg, rep: &mut Report) {
    rep.bound = "f64 over {0.1, -0.1, 1, -3, 1e-3, 1e8, -1e8, 1e8+1, 2.5e-7}: every vector pair for <= 2 elements, sampled for 3..16 (thorough 64) elements, shapes 1-D..3-D, 3 layout pairings; mean, weighted_sum, weighted_mean (positive weights), sq_l2_dist, l1_dist, mean_abs_err, mean_sq_err within (n+2) u sum|terms| of the exact rational value; linf_dist, l2_dist, root_mean_sq_err bit for bit as functions of exactly rounded parts".to_string();
    let al = [0.1f64, -0.1, 1.0, -3.0, 1e-3, 1e8, -1e8, 1e8 + 1.0, 2.5e-7];
    let wl = [0.5f64, 1.0, 3.0, 1e-3, 1e6];
    let mut rng = Lcg(cfg.seed + 606);
    let shapes: Vec<Vec<usize>> = if cfg.thorough { vec![vec![1], vec![2], vec![3], vec![7], vec![16], vec![64], vec![2, 3], vec![4, 4], vec![2, 2, 3]] } else { vec![vec![1], vec![2], vec![5], vec![16], vec![2, 3], vec![2, 2, 2]] };
    for shape in &shapes {
        let size: usize = shape.iter().product();
        let exhaustive = size <= 2;
        let ncases = if exhaustive { al.len().pow(2 * size as u32) } else if cfg.thorough { 400 } else { 60 };
        for k in 0..ncases {
            let (ca, cb) = if exhaustive { (k % al.len().pow(size as u32), k / al.len().pow(size as u32)) } else { (rng.next() as usize, rng.next() as usize) };
            let av: Vec<f64> = { let mut c = ca; (0..size).map(|_| { let v = al[c % al.len()]; c /= al.len(); v }).collect() };
            let bv: Vec<f64> = { let mut c = cb; (0..size).map(|_| { let v = al[c % al.len()]; c /= al.len(); v }).collect() };
            let wv: Vec<f64> = { let mut c = cb; (0..size).map(|_| { let v = wl[c % wl.len()]; c /= wl.len(); v }).collect() };
            let a = ArrayD::from_shape_vec(IxDyn(shape), av.clone()).unwrap();
            let b = ArrayD::from_shape_vec(IxDyn(shape), bv.clone()).unwrap();
            let w = ArrayD::from_shape_vec(IxDyn(shape), wv.clone()).unwrap();
            let (aq, bq, wq): (Vec<Q>, Vec<Q>, Vec<Q>) = (av.iter().map(|x| Q::from_f64(*x)).collect(), bv.iter().map(|x| Q::from_f64(*x)).collect(), wv.iter().map(|x| Q::from_f64(*x)).collect());
            let n = size as f64;
            let nq = Q::int(size as i64);
            let case = format!("floatsums;shape={:?};a={:?};b={:?};w={:?}", shape, av, bv, wv);
            if !rep.want(cfg, &case) { continue; }
            let lays: &[(&'static str, &'static str)] = if shape.len() > 1 { &[("c", "c"), ("f", "c"), ("stepped", "rev")] } else { &[("c", "c"), ("rev", "stepped")] };
            let r = guarded(|| {
                let (mut b06, mut b09): (Vec<String>, Vec<String>) = (vec![], vec![]);
                // exact values
                let sum_a = Q::sum(aq.iter());
                let abs_a: f64 = av.iter().map(|x| x.abs()).sum();
                let mut ws = Q::zero(); let mut ws_abs = 0.0;
                for (x, y) in aq.iter().zip(&wq) { ws = ws.add(&x.mul(y)); }
                for (x, y) in av.iter().zip(&wv) { ws_abs += (x * y).abs(); }
                let wt = Q::sum(wq.iter()); let wt_f: f64 = wv.iter().sum();
                let mut sq = Q::zero(); let mut l1 = Q::zero();
                for (x, y) in aq.iter().zip(&bq) { let d = x.sub(y); sq = sq.add(&d.mul(&d)); l1 = l1.add(&d.abs()); }
                let (sq_f, l1_f) = (sq.to_f64(), l1.to_f64());
                for (la, lb) in lays {
                    let (ra, rb, rw) = (Relayout::new(&a, la, 1.5), Relayout::new(&b, lb, 2.5), Relayout::new(&w, lb, 3.5));
                    let (va, vb, vw) = (ra.view(), rb.view(), rw.view());
                    let tag = format!("{}/{}", la, lb);
                    // C06
                    match va.mean() { Some(m) => within(&mut b06, "mean", m, &sum_a.div(&nq), (n + 2.0) * U * abs_a / n, &tag), None => b06.push(format!("mean returned None | [{}]", tag)) }
                    match va.weighted_sum(&vw) { Ok(s) => within(&mut b06, "weighted_sum", s, &ws, (n + 2.0) * U * ws_abs, &tag), Err(e) => b06.push(format!("weighted_sum returned an error | {:?} [{}]", e, tag)) }
                    match va.weighted_mean(&vw) {
                        Ok(m) => { let exact = ws.div(&wt); within(&mut b06, "weighted_mean", m, &exact, ((n + 2.0) * U * ws_abs + exact.to_f64().abs() * (n + 2.0) * U * wt_f) / wt_f + U * exact.to_f64().abs(), &tag) }
                        Err(e) => b06.push(format!("weighted_mean returned an error | {:?} [{}]", e, tag)),
                    }
                    // C09: each difference is rounded once (relative u), then squared / summed
                    match va.sq_l2_dist(&vb) { Ok(s) => within(&mut b09, "sq_l2_dist", s, &sq, (n + 4.0) * U * sq_f * 1.0000001, &tag), Err(e) => b09.push(format!("sq_l2_dist returned an error | {:?} [{}]", e, tag)) }
                    match va.l1_dist(&vb) { Ok(s) => within(&mut b09, "l1_dist", s, &l1, (n + 2.0) * U * l1_f * 1.0000001, &tag), Err(e) => b09.push(format!("l1_dist returned an error | {:?} [{}]", e, tag)) }
                    let li_ref = av.iter().zip(&bv).map(|(x, y)| (x - y).abs()).fold(0.0f64, f64::max);
                    if va.linf_dist(&vb).ok().map(|x| x.to_bits()) != Some(li_ref.to_bits()) { b09.push(format!("linf_dist is not the largest rounded |a - b| | {:?} vs {} [{}]", va.linf_dist(&vb), li_ref, tag)); }
                    if let (Ok(s), Ok(l2), Ok(l1r)) = (va.sq_l2_dist(&vb), va.l2_dist(&vb), va.l1_dist(&vb)) {
                        if l2.to_bits() != s.sqrt().to_bits() { b09.push(format!("l2_dist is not sqrt(sq_l2_dist) | {} vs {} [{}]", l2, s.sqrt(), tag)); }
                        if va.mean_abs_err(&vb).ok().map(|x| x.to_bits()) != Some((l1r / n).to_bits()) { b09.push(format!("mean_abs_err is not l1_dist / n | [{}]", tag)); }
                        if va.mean_sq_err(&vb).ok().map(|x| x.to_bits()) != Some((s / n).to_bits()) { b09.push(format!("mean_sq_err is not sq_l2_dist / n | [{}]", tag)); }
                        if va.root_mean_sq_err(&vb).ok().map(|x| x.to_bits()) != Some((s / n).sqrt().to_bits()) { b09.push(format!("root_mean_sq_err is not sqrt(mean_sq_err) | [{}]", tag)); }
                    }
                }
                (b06, b09)
            });
            match r {
                Err(m) => rep.fail_p(cfg, &case, "C06,C09", "float sums panicked", json!({"panic": m})),
                Ok((b06, b09)) => {
                    if !b06.is_empty() { rep.fail_p(cfg, &case, "C06", b06[0].split(" | ").next().unwrap_or(""), json!({"problems": b06})); }
                    if !b09.is_empty() { rep.fail_p(cfg, &case, "C09", b09[0].split(" | ").next().unwrap_or(""), json!({"problems": b09})); }
                }
            }
            rep.eval(&case, size >= 2);
            if rep.stop { return; }
        }
    }
}
