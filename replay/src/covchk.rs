//! C08 (bounded): covariance and Pearson correlation of the real crate against their definitions evaluated in exact
//! rational arithmetic, plus symmetry, range, diagonal and invariance laws.
use crate::exact::*;
use crate::fw::*;
use ndarray::prelude::*;
use ndarray_stats::CorrelationExt;
use serde_json::json;

const U: f64 = 1.1102230246251565e-16;

/// exact centred cross products S_ij = sum_k (x_ik - m_i)(x_jk - m_j) and the matching sums of absolute terms
fn exact_cross(rows: &[Vec<Q>]) -> (Vec<Vec<Q>>, Vec<Vec<Q>>) {
    let nv = rows.len();
    let no = rows[0].len();
    let nq = Q::int(no as i64);
    let means: Vec<Q> = rows.iter().map(|r| Q::sum(r.iter()).div(&nq)).collect();
    let mut s = vec![vec![Q::zero(); nv]; nv];
    let mut a = vec![vec![Q::zero(); nv]; nv];
    for i in 0..nv { for j in 0..nv {
        let mut acc = Q::zero(); let mut aacc = Q::zero();
        for k in 0..no { let t = rows[i][k].sub(&means[i]).mul(&rows[j][k].sub(&means[j])); aacc = aacc.add(&t.abs()); acc = acc.add(&t); }
        s[i][j] = acc; a[i][j] = aacc;
    } }
    (s, a)
}

fn layouts_2d(base: &Array2<f64>) -> Vec<(&'static str, Array2<f64>, Box<dyn Fn(&Array2<f64>) -> ArrayView2<f64>>)> {
    let (r, c) = base.dim();
    let mut out: Vec<(&'static str, Array2<f64>, Box<dyn Fn(&Array2<f64>) -> ArrayView2<f64>>)> = vec![];
    out.push(("c", base.clone(), Box::new(|o| o.view())));
    // column-major storage
    out.push(("f", base.t().as_standard_layout().into_owned(), Box::new(|o| o.view().reversed_axes())));
    // stepped in a larger parent
    let mut p = Array2::from_elem((2 * r + 1, 2 * c + 1), 9999.0);
    p.slice_mut(s![1..;2, 1..;2]).assign(base);
    out.push(("stepped", p, Box::new(|o| o.slice(s![1..;2, 1..;2]))));
    // both axes reversed in memory
    let mut rv = base.clone();
    rv.invert_axis(Axis(0)); rv.invert_axis(Axis(1));
    let rv = rv.as_standard_layout().into_owned();
    out.push(("rev", rv, Box::new(|o| { let mut v = o.view(); v.invert_axis(Axis(0)); v.invert_axis(Axis(1)); v })));
    out
}

fn check_case(cfg: &Cfg, rep: &mut Report, tag: &str, nv: usize, no: usize, data: &[f64]) {
    let base = Array2::from_shape_vec((nv, no), data.to_vec()).unwrap();
    let rows: Vec<Vec<Q>> = (0..nv).map(|i| (0..no).map(|k| Q::from_f64(base[[i, k]])).collect()).collect();
    let (s, sa) = exact_cross(&rows);
    let maxabs = data.iter().fold(0.0f64, |a, x| a.max(x.abs()));
    let case = format!("cov;{};vars={};obs={};data={:?}", tag, nv, no, data);
    if !rep.want(cfg, &case) { return; }
    let r = guarded(|| {
        let mut bad: Vec<String> = vec![];
        for (lname, owner, viewf) in layouts_2d(&base) {
            let v = viewf(&owner);
            let n_before = bad.len();
            let canon_failed = !bad.is_empty();
            'body: {
            for ddof in [0.0f64, 1.0, 0.5] {
                if ddof >= no as f64 { continue; }
                let c = match v.cov(ddof) { Ok(c) => c, Err(e) => { bad.push(format!("cov returned an error | {:?} ddof={} [{}]", e, ddof, lname)); continue; } };
                if c.dim() != (nv, nv) { bad.push(format!("cov has the wrong shape | {:?} [{}]", c.dim(), lname)); continue; }
                let den = Q::from_f64(no as f64 - ddof);
                for i in 0..nv { for j in 0..nv {
                    let exact = s[i][j].div(&den);
                    // the rows are centred with a computed mean (error <= n u max|x| each), then a dot product of n terms
                    let sd_i = sa[i][i].to_f64().sqrt(); let sd_j = sa[j][j].to_f64().sqrt();
                    let dm = 2.0 * no as f64 * U * maxabs; // error of a centred element
                    let tol = (4.0 * (no as f64 + 2.0) * U * sa[i][j].to_f64() + (no as f64).sqrt() * dm * (sd_i + sd_j) + no as f64 * dm * dm) / den.to_f64() * 2.0;
                    let err = err_of(c[[i, j]], &exact);
                    if !(err <= tol) { bad.push(format!("cov differs from sum (x_i - xbar_i)(x_j - xbar_j) / (n - ddof) | [{},{}] got {} exact {} error {:e} bound {:e} ddof={} [{}]", i, j, c[[i, j]], exact.to_f64(), err, tol, ddof, lname)); }
                    let sym = (c[[i, j]] - c[[j, i]]).abs();
                    if !(sym <= 2.0 * tol) { bad.push(format!("cov is not symmetric | [{},{}] {} vs {} [{}]", i, j, c[[i, j]], c[[j, i]], lname)); }
                    if i == j && !(c[[i, i]] >= 0.0) { bad.push(format!("cov has a negative diagonal entry | [{}] {} [{}]", i, c[[i, i]], lname)); }
                } }
            }
            // f32 covariance against the same exact value (the small alphabets are exactly representable in f32)
            if lname == "c" && tag == "small" {
                let b32: Array2<f32> = base.mapv(|x| x as f32);
                const U32: f64 = 5.960464477539063e-8;
                for ddof in [0.0f32, 1.0, 0.5] {
                    if ddof as f64 >= no as f64 { continue; }
                    if let Ok(c) = b32.cov(ddof) {
                        let den = Q::from_f64(no as f64 - ddof as f64);
                        for i in 0..nv { for j in 0..nv {
                            let exact = s[i][j].div(&den);
                            let dm = 2.0 * no as f64 * U32 * maxabs;
                            let tol = (4.0 * (no as f64 + 2.0) * U32 * sa[i][j].to_f64() + (no as f64).sqrt() * dm * (sa[i][i].to_f64().sqrt() + sa[j][j].to_f64().sqrt()) + no as f64 * dm * dm) / den.to_f64() * 2.0;
                            let err = err_of(c[[i, j]] as f64, &exact);
                            if !(err <= tol) { bad.push(format!("f32 cov differs from sum (x_i - xbar_i)(x_j - xbar_j) / (n - ddof) | [{},{}] got {} exact {} error {:e} bound {:e} ddof={}", i, j, c[[i, j]], exact.to_f64(), err, tol, ddof)); }
                        } }
                    } else { bad.push("f32 cov returned an error | ".into()); }
                }
            }
            // Pearson correlation (needs non-constant variables)
            if (0..nv).all(|i| s[i][i].is_pos()) {
                let p = match v.pearson_correlation() { Ok(p) => p, Err(e) => { bad.push(format!("pearson_correlation returned an error | {:?} [{}]", e, lname)); break 'body; } };
                if p.dim() != (nv, nv) { bad.push(format!("pearson_correlation has the wrong shape | {:?} [{}]", p.dim(), lname)); break 'body; }
                for i in 0..nv { for j in 0..nv {
                    let (sii, sjj, sij, aij) = (s[i][i].to_f64(), s[j][j].to_f64(), s[i][j].to_f64(), sa[i][j].to_f64());
                    let want = sij / (sii * sjj).sqrt();
                    // conditioning: errors of S_ij relative to sqrt(S_ii S_jj), and relative errors of the two standard deviations
                    let dm = 2.0 * no as f64 * U * maxabs;
                    let rel = (8.0 * (no as f64 + 4.0) * U * aij + 2.0 * (no as f64).sqrt() * dm * (sii.sqrt() + sjj.sqrt())) / (sii * sjj).sqrt()
                        + want.abs() * (8.0 * (no as f64 + 4.0) * U + 2.0 * (no as f64).sqrt() * dm * (1.0 / sii.sqrt() + 1.0 / sjj.sqrt()));
                    let got = p[[i, j]];
                    if !((got - want).abs() <= rel) { bad.push(format!("pearson_correlation differs from cov_ij / (sigma_i sigma_j) | [{},{}] got {} want {} error {:e} bound {:e} [{}]", i, j, got, want, (got - want).abs(), rel, lname)); }
                    if !(got.abs() <= 1.0 + rel) { bad.push(format!("pearson_correlation outside [-1, 1] | [{},{}] {} [{}]", i, j, got, lname)); }
                    if i == j && !((got - 1.0).abs() <= rel) { bad.push(format!("pearson_correlation diagonal is not 1 | [{}] {} [{}]", i, got, lname)); }
                    if !((got - p[[j, i]]).abs() <= 2.0 * rel) { bad.push(format!("pearson_correlation is not symmetric | [{},{}] [{}]", i, j, lname)); }
                } }
                // extreme magnitudes: scaling every value by a power of two is exact in every step of the definition
                // (means, centring, products, sums, square roots of even powers), so the correlation must not move
                if lname == "c" {
                    for k in [270i32, -270] {
                        let sc = base.mapv(|x| x * 2f64.powi(k));
                        match sc.pearson_correlation() {
                            Ok(ps) => { for i in 0..nv { for j in 0..nv { if !((ps[[i, j]] - p[[i, j]]).abs() <= 1e-12) { bad.push(format!("pearson_correlation changes when the data are scaled by a power of two (very large / very small finite data) | 2^{} [{},{}] {} vs {}", k, i, j, ps[[i, j]], p[[i, j]])); } } } }
                            Err(e) => bad.push(format!("pearson_correlation of scaled data returned an error | {:?}", e)),
                        }
                        if let (Ok(cs), Ok(c1)) = (sc.cov(1.0f64.min(no as f64 - 0.5)), base.cov(1.0f64.min(no as f64 - 0.5))) {
                            for i in 0..nv { for j in 0..nv { let want = c1[[i, j]] * 2f64.powi(k) * 2f64.powi(k); if !((cs[[i, j]] - want).abs() <= 1e-12 * want.abs()) { bad.push(format!("cov does not scale with the square of a power-of-two factor | 2^{} [{},{}] {} vs {}", k, i, j, cs[[i, j]], want)); } } }
                        }
                    }
                    // f32: the same data (exactly representable, well conditioned: the small alphabet only), at scale 1, 2^33 and 2^-37
                    let b32: Array2<f32> = base.mapv(|x| x as f32);
                    for k in (if tag == "small" { vec![0i32, 33, -37] } else { vec![] }) {
                        let sc = b32.mapv(|x| x * 2f32.powi(k));
                        match sc.pearson_correlation() {
                            Ok(ps) => { for i in 0..nv { for j in 0..nv { if !(((ps[[i, j]] as f64) - p[[i, j]]).abs() <= 1e-4) { bad.push(format!("f32 pearson_correlation differs from the f64 result | scale 2^{} [{},{}] {} vs {}", k, i, j, ps[[i, j]], p[[i, j]])); } } } }
                            Err(e) => bad.push(format!("f32 pearson_correlation returned an error | {:?}", e)),
                        }
                    }
                }
                // invariances (exact transformations of the data: scaling by 4 and shifting by an integer; negating variable 0)
                if lname == "c" && nv >= 1 {
                    let mut t = base.clone();
                    for k in 0..no { t[[0, k]] = 4.0 * t[[0, k]] + 3.0; }
                    let mut ng = base.clone();
                    for k in 0..no { ng[[0, k]] = -ng[[0, k]]; }
                    if let (Ok(pt), Ok(pn)) = (t.pearson_correlation(), ng.pearson_correlation()) {
                        for i in 0..nv { for j in 0..nv {
                            let (sii, sjj) = (s[i][i].to_f64(), s[j][j].to_f64());
                            let dm = 2.0 * no as f64 * U * (4.0 * maxabs + 3.0);
                            let tol = 64.0 * (no as f64 + 4.0) * U + 8.0 * (no as f64).sqrt() * dm * (1.0 / sii.sqrt() + 1.0 / sjj.sqrt());
                            if !((pt[[i, j]] - p[[i, j]]).abs() <= tol) { bad.push(format!("pearson_correlation changes under a positive affine rescaling of a variable | [{},{}] {} vs {}", i, j, pt[[i, j]], p[[i, j]])); }
                            let sign = if (i == 0) != (j == 0) { -1.0 } else { 1.0 };
                            if !((pn[[i, j]] - sign * p[[i, j]]).abs() <= tol) { bad.push(format!("pearson_correlation does not change sign when a variable is negated | [{},{}] {} vs {}", i, j, pn[[i, j]], p[[i, j]])); }
                        } }
                    } else { bad.push("pearson_correlation of transformed data returned an error | ".into()); }
                }
            }
            }
            if lname != "c" && !canon_failed { for b in bad[n_before..].iter_mut() { *b = format!("LAYOUT {}", b); } }
        }
        bad
    });
    match r { Err(m) => rep.fail_p(cfg, &case, "C08", "covariance / correlation panicked", json!({"panic": m})), Ok(bad) => if !bad.is_empty() { let lay = bad.iter().find(|b| b.starts_with("LAYOUT ")).cloned(); let other = bad.iter().find(|b| !b.starts_with("LAYOUT ")).cloned(); if let Some(l) = lay { rep.fail_p(cfg, &case, "C08,C20", l.split(" | ").next().unwrap_or(""), json!({"problems": bad})); } if let Some(o) = other { rep.fail_p(cfg, &case, "C08", o.split(" | ").next().unwrap_or(""), json!({"problems": bad})); } } }
    rep.eval(&case, nv >= 2 && no >= 2);
}

pub fn cov(cfg: &mut Cfg, rep: &mut Report) {
    rep.bound = "f64, rows = variables, columns = observations: every matrix over {-2, 0, 1, 2.5} for (1..2 variables) x (2..3 observations) and 3 x 2, sampled matrices over {-3,-0.5,0,1,2.25,7.75} up to 8 variables x 64 observations (thorough) and matrices with a large mean (1e6, 1e8 + small offsets); 4 memory layouts (C, F, stepped, reversed); ddof in {0, 1, 0.5}; cov vs the exact rational value of the definition within a stated forward-error bound, symmetry, non-negative diagonal; Pearson vs S_ij / sqrt(S_ii S_jj), range, unit diagonal, symmetry, invariance under x -> 4x + 3, under scaling by 2^270 and 2^-270 (very large / very small finite data) and sign flip under negation; f32: cov vs the exact value, pearson at scales 1, 2^33, 2^-37 vs the f64 result".to_string();
    let al = [-2.0f64, 0.0, 1.0, 2.5];
    for (nv, no) in [(1usize, 2usize), (1, 3), (2, 2), (2, 3), (3, 2)] {
        let size = nv * no;
        for code in 0..al.len().pow(size as u32) {
            let mut c = code;
            let data: Vec<f64> = (0..size).map(|_| { let v = al[c % al.len()]; c /= al.len(); v }).collect();
            check_case(cfg, rep, "small", nv, no, &data);
            if rep.stop { return; }
        }
    }
    let mut rng = Lcg(cfg.seed + 808);
    let al2 = [-3.0f64, -0.5, 0.0, 1.0, 2.25, 7.75];
    let dims: Vec<(usize, usize)> = if cfg.thorough { vec![(3, 4), (4, 5), (5, 16), (8, 64), (2, 33), (6, 7)] } else { vec![(3, 4), (4, 9), (2, 17)] };
    for (nv, no) in dims {
        for _ in 0..(if cfg.thorough { 300 } else { 8 }) {
            let data: Vec<f64> = (0..nv * no).map(|_| al2[rng.below(al2.len())]).collect();
            check_case(cfg, rep, "sampled", nv, no, &data);
            if rep.stop { return; }
        }
    }
    for base in [1e6f64, 1e8] {
        for (nv, no) in [(2usize, 3usize), (3, 5)] {
            for _ in 0..(if cfg.thorough { 100 } else { 3 }) {
                let data: Vec<f64> = (0..nv * no).map(|_| base + [0.0, 1.0, 3.0, 4.5, 0.25][rng.below(5)]).collect();
                check_case(cfg, rep, "large_mean", nv, no, &data);
                if rep.stop { return; }
            }
        }
    }
}
