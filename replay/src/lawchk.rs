use crate::fw::*;
use crate::lay::*;
use crate::quantchk::{idx, q_grid, run_1d, QElem, Strat, STRATS};
use ndarray::prelude::*;
use ndarray::{ArcArray, CowArray};
use ndarray_stats::interpolate::{Higher, Lower, Nearest};
use ndarray_stats::histogram::{Bins, Edges, Grid};
use ndarray_stats::{DeviationExt, EntropyExt, HistogramExt, MaybeNanExt, Quantile1dExt, QuantileExt, SummaryStatisticsExt};
use noisy_float::types::{n64, N64};
use serde_json::json;

fn q1<T: QElem>(lane: &[T], q: f64, s: Strat) -> Result<T, String> {
    let mut v = Array1::from(lane.to_vec());
    match guarded(|| run_1d(&mut v.view_mut(), q, s)) { Ok(r) => r, Err(m) => Err(format!("panic: {}", m)) }
}

fn permutations(n: usize) -> Vec<Vec<usize>> {
    if n == 0 { return vec![vec![]]; }
    let mut out = vec![];
    for p in permutations(n - 1) { for pos in 0..n { let mut q = p.clone(); q.insert(pos, n - 1); out.push(q); } }
    out
}

fn laws_for<T: QElem>(cfg: &Cfg, rep: &mut Report, maxn: usize, relabel: &[(&str, fn(&T) -> T)]) {
    let al = T::alphabet();
    for n in 1..=maxn {
        for_all_arrays(n, al.len(), |pat| {
            if pat.windows(2).any(|w| w[0] > w[1]) && n > 3 { return true; } // longer lanes: one ordering per multiset (permutations are checked for n <= 3... and below)
            let lane: Vec<T> = pat.iter().map(|k| al[*k as usize].clone()).collect();
            let mut sl = lane.clone(); sl.sort();
            let grid = q_grid(n);
            let case = format!("qlaws;type={};lane={:?}", T::NAME, lane);
            if !rep.want(cfg, &case) { return true; }
            let mut bad: Vec<String> = vec![];
            // results per strategy over the q grid (skip input classes of the recorded overflow findings)
            let mut table: Vec<Vec<Option<T>>> = vec![];
            for s in STRATS {
                let mut row = vec![];
                for q in &grid {
                    if !crate::quantchk::classify(&sl, *q, s).is_empty() { row.push(None); continue; }
                    match q1(&lane, *q, s) { Ok(v) => row.push(Some(v)), Err(e) => { bad.push(format!("{:?} q={:e}: {}", s, q, e)); row.push(None); } }
                }
                table.push(row);
            }
            for (si, s) in STRATS.iter().enumerate() {
                // non-decreasing in q, between min (q=0) and max (q=1)
                let vals: Vec<&T> = table[si].iter().filter_map(|x| x.as_ref()).collect();
                if vals.windows(2).any(|w| w[0] > w[1]) { bad.push(format!("{:?} is not non-decreasing in q", s)); }
                if vals.iter().any(|v| **v < sl[0] || **v > sl[n - 1]) { bad.push(format!("{:?} leaves [min, max]", s)); }
                if let Some(Some(v0)) = table[si].first() { if grid[0] == 0.0 && *v0 != sl[0] { bad.push(format!("{:?} at q=0 is not the minimum", s)); } }
                if let Some(Some(v1)) = table[si].last() { if *grid.last().unwrap() == 1.0 && *v1 != sl[n - 1] { bad.push(format!("{:?} at q=1 is not the maximum", s)); } }
            }
            for (qi, q) in grid.iter().enumerate() {
                let (lo, hi, fr) = idx(*q, n);
                let _ = (lo, hi);
                let (l, h) = (&table[0][qi], &table[1][qi]);
                for si in 2..5 {
                    if let (Some(l), Some(h), Some(m)) = (l, h, &table[si][qi]) {
                        if m < l || m > h { bad.push(format!("Lower <= {:?} <= Higher violated at q={:e}", STRATS[si], q)); }
                        if fr == 0.0 && (m != l || m != h) { bad.push(format!("strategies do not coincide although (N-1)q is integral (q={:e})", q)); }
                    }
                }
            }
            // permutation invariance (complete for n <= 4)
            if n <= 4 {
                for p in permutations(n) {
                    let pl: Vec<T> = p.iter().map(|i| lane[*i].clone()).collect();
                    for (si, s) in STRATS.iter().enumerate() { for (qi, q) in grid.iter().enumerate().step_by(3) {
                        if let Some(want) = &table[si][qi] { if q1(&pl, *q, *s).ok().as_ref() != Some(want) { bad.push(format!("{:?} changes when the lane is permuted", s)); } }
                    }}
                }
            }
            // strictly increasing relabelling commutes with the selecting strategies
            for (nm, f) in relabel {
                let rl: Vec<T> = lane.iter().map(|x| f(x)).collect();
                for si in 0..3 { for (qi, q) in grid.iter().enumerate() {
                    if let Some(v) = &table[si][qi] { if q1(&rl, *q, STRATS[si]).ok() != Some(f(v)) { bad.push(format!("{:?} does not commute with the relabelling {}", STRATS[si], nm)); } }
                }}
            }
            if !bad.is_empty() { bad.dedup(); rep.fail(cfg, &case, &bad[0].clone(), json!({"problems": bad.iter().take(6).collect::<Vec<_>>()})); }
            rep.eval(&case, n >= 2);
            !rep.stop
        });
    }
}

/// longer lanes of distinct scattered values (lengths the complete enumeration cannot reach): the same order laws, and the
/// coincidence of all strategies wherever (N-1)q is integral in f64 (added for seed Z2: an index expression equal in exact
/// arithmetic that rounds differently, first visible at N = 6)
fn long_laws(cfg: &Cfg, rep: &mut Report) {
    let maxn = if cfg.thorough { 64 } else { 24 };
    for n in 5..=maxn {
        let mut step = n / 2 + 1;
        while (1..=n).filter(|d| step % d == 0 && n % d == 0).count() != 1 { step += 1; }
        let lane: Vec<i32> = (0..n).map(|i| 10 * ((i * step) % n) as i32 - 20).collect();
        let case = format!("qlaws;long;n={};step={}", n, step);
        if !rep.want(cfg, &case) { continue; }
        let grid = q_grid(n);
        let (mn, mx) = (*lane.iter().min().unwrap(), *lane.iter().max().unwrap());
        let mut bad: Vec<String> = vec![];
        let mut prev: Vec<Option<i32>> = vec![None; 5];
        for q in &grid {
            let r: Vec<Option<i32>> = STRATS.iter().map(|s| q1(&lane, *q, *s).ok()).collect();
            let (_, _, fr) = idx(*q, n);
            if let (Some(l), Some(h)) = (r[0], r[1]) {
                for si in 2..5 { if let Some(m) = r[si] {
                    if m < l || m > h { bad.push(format!("{:?} = {} outside [Lower = {}, Higher = {}] at q = {:e}", STRATS[si], m, l, h, q)); }
                    if fr == 0.0 && (m != l || m != h) { bad.push(format!("strategies do not coincide although (N-1)q is integral (q = {:e}): Lower = {}, {:?} = {}, Higher = {}", q, l, STRATS[si], m, h)); }
                } }
            }
            for si in 0..5 {
                match r[si] { None => bad.push(format!("{:?} failed at q = {:e}", STRATS[si], q)),
                    Some(v) => {
                        if v < mn || v > mx { bad.push(format!("{:?} = {} leaves [min, max] at q = {:e}", STRATS[si], v, q)); }
                        if let Some(p) = prev[si] { if v < p { bad.push(format!("{:?} decreases at q = {:e}", STRATS[si], q)); } }
                        if *q == 0.0 && v != mn { bad.push(format!("{:?} at q = 0 is not the minimum", STRATS[si])); }
                        if *q == 1.0 && v != mx { bad.push(format!("{:?} at q = 1 is not the maximum", STRATS[si])); }
                        prev[si] = Some(v);
                    } }
            }
        }
        if !bad.is_empty() { rep.fail(cfg, &case, &bad[0].clone(), json!({"lane": lane, "problems": bad.iter().take(6).collect::<Vec<_>>()})); }
        rep.eval(&case, true);
        if rep.stop { return; }
    }
}

/// dense sweep on lanes with ties: Lower <= {Nearest, Midpoint, Linear} <= Higher, inside [min, max], monotone in q
fn tie_sweep(cfg: &Cfg, rep: &mut Report) {
    let nq = if cfg.thorough { 400 } else { 200 };
    let qs: Vec<f64> = (0..=nq).map(|j| j as f64 / nq as f64).collect();
    let amax = if cfg.thorough { 40 } else { 20 };
    for n in 2..=4usize { for a in -amax..=amax { for shape in ["const", "tied_middle", "two_levels"] {
        let lane: Vec<i32> = match shape {
            "const" => vec![a; n],
            "tied_middle" => { let mut v = vec![a; n]; v[0] = a - 3; if n > 2 { v[n - 1] = a + 5; } v }
            _ => (0..n).map(|k| if k % 2 == 0 { a } else { a + 1 }).collect(),
        };
        let case = format!("qlaws;tie_sweep;lane={:?}", lane);
        if !rep.want(cfg, &case) { continue; }
        let (mn, mx) = (*lane.iter().min().unwrap(), *lane.iter().max().unwrap());
        let mut bad: Vec<String> = vec![];
        let mut prev: Vec<Option<i32>> = vec![None; 5];
        for q in &qs {
            let r: Vec<Option<i32>> = STRATS.iter().map(|s| q1(&lane, *q, *s).ok()).collect();
            if let (Some(l), Some(h)) = (r[0], r[1]) {
                for si in 2..5 { if let Some(m) = r[si] { if m < l || m > h { bad.push(format!("{:?} = {} outside [Lower = {}, Higher = {}] at q = {}", STRATS[si], m, l, h, q)); } } }
            }
            for si in 0..5 {
                match r[si] { None => bad.push(format!("{:?} failed at q = {}", STRATS[si], q)),
                    Some(v) => { if v < mn || v > mx { bad.push(format!("{:?} = {} leaves [min, max] at q = {}", STRATS[si], v, q)); }
                                 if let Some(p) = prev[si] { if v < p { bad.push(format!("{:?} decreases at q = {}", STRATS[si], q)); } } } }
            }
            prev = r;
            if bad.len() > 4 { break; }
        }
        if !bad.is_empty() { rep.fail(cfg, &case, &bad[0].clone(), json!({"problems": bad})); }
        rep.eval(&case, true);
    }}}
}

/// C19: order laws of quantiles, no oracle
pub fn qlaws(cfg: &mut Cfg, rep: &mut Report) {
    tie_sweep(cfg, rep);
    long_laws(cfg, rep);
    let maxn = if cfg.thorough { 5 } else { 4 };
    rep.bound = format!("one lane of distinct scattered i32 values per length 5..=24 (thorough: 64) over the same q grid; lanes of length 1..={} over 4-letter alphabets (i32, i8 with type extremes, N64), dense q grid around every k/(N-1), five strategies, every permutation for N <= 4, two strictly increasing relabellings; tie sweep: constant / tied-middle / two-level i32 lanes of length 2..4 with values in -20..20 (40 thorough) at q = j/200 (400 thorough)", maxn);
    laws_for::<i32>(cfg, rep, maxn, &[("3x+1", |x| 3 * x + 1), ("x^3", |x| x * x * x)]);
    laws_for::<i8>(cfg, rep, maxn.min(4), &[("x/2 (monotone on the alphabet)", |x| if *x == i8::MIN { -100 } else if *x == -1 { -50 } else if *x == 2 { 0 } else { 100 })]);
    laws_for::<N64>(cfg, rep, maxn.min(4), &[("2x+1", |x| *x * n64(2.0) + n64(1.0))]);
}

/// C20: every statistic gives the same answer on logically equal arrays
pub fn layouts(cfg: &mut Cfg, rep: &mut Report) {
    rep.bound = "random integer-valued data on shapes 1-D..4-D (sizes <= 16); pairs (canonical C-order array, re-layout) for F-order, stepped-in-parent, reversed axes, embedded at an offset; ownership owned/view/shared/copy-on-write/dynamic-dimensional; order-based and integer routines bit-identical, float sums of small integers exact; plus 8 f64 data sets with 0.0 / -0.0 ties for the value forms of the extrema".to_string();
    let shapes: Vec<Vec<usize>> = if cfg.thorough { vec![vec![5], vec![2, 3], vec![3, 2], vec![2, 2, 2], vec![2, 1, 3], vec![2, 2, 1, 2], vec![1, 4]] } else { vec![vec![4], vec![2, 3], vec![2, 2, 2], vec![2, 1, 1, 2]] };
    extremum_ties(cfg, rep);
    let mut rng = Lcg(cfg.seed + 31);
    let reps = if cfg.thorough { 25 } else { 8 };
    for shape in shapes { for _ in 0..reps {
        let size: usize = shape.iter().product();
        let flat: Vec<i64> = (0..size).map(|_| [-5i64, 0, 2, 2, 9, 40][rng.below(6)]).collect();
        let other: Vec<i64> = (0..size).map(|_| [-5i64, 0, 2, 7][rng.below(4)]).collect();
        let base = ArrayD::from_shape_vec(IxDyn(&shape), flat.clone()).unwrap();
        let oth = ArrayD::from_shape_vec(IxDyn(&shape), other.clone()).unwrap();
        let fbase = base.mapv(|x| if x == 40 { f64::NAN } else { x as f64 });
        // canonical answers
        let canon = summarize(&Relayout::new(&base, "c", 123), &Relayout::new(&oth, "c", 321), &Relayout::new(&fbase, "c", 0.125));
        for lay in LAYOUTS {
            let case = format!("layouts;shape={:?};data={:?};other={:?};layout={}", shape, flat, other, lay);
            if !rep.want(cfg, &case) { continue; }
            let (ra, rb, rf) = (Relayout::new(&base, lay, 123), Relayout::new(&oth, if lay == "c" { "f" } else { "c" }, 321), Relayout::new(&fbase, lay, 0.125));
            let got = match guarded(|| summarize(&ra, &rb, &rf)) { Ok(g) => g, Err(m) => { rep.fail(cfg, &case, "panicked on a re-laid-out array", json!({"panic": m})); continue; } };
            if got != canon {
                let diff: Vec<String> = got.iter().zip(&canon).filter(|(a, b)| a != b).map(|(a, b)| format!("{} vs canonical {}", a, b)).take(4).collect();
                rep.fail(cfg, &case, "a statistic depends on the memory layout", json!({"differences": diff}));
            }
            rep.eval(&case, lay != "c" && size >= 2);
            if rep.stop { return; }
        }
        // ownership kinds and static vs dynamic dimensionality
        let case = format!("layouts;ownership;shape={:?};data={:?}", shape, flat);
        if rep.want(cfg, &case) {
            let shared: ArcArray<i64, IxDyn> = base.clone().into_shared();
            let cow: CowArray<i64, IxDyn> = CowArray::from(base.view());
            let mut ok = shared.argmin() == base.argmin() && cow.argmax() == base.argmax() && shared.min() == base.min() && cow.sq_l2_dist(&oth) == base.sq_l2_dist(&oth)
                && SummaryStatisticsExt::mean(&shared) == SummaryStatisticsExt::mean(&base) && shared.count_eq(&cow) == Ok(size);
            if shape.len() == 2 {
                let st = base.clone().into_dimensionality::<Ix2>().unwrap();
                let a = st.argmin().map(|(i, j)| vec![i, j]);
                let b = base.argmin().map(|d| d.slice().to_vec());
                ok = ok && a == b && st.min() == base.min() && SummaryStatisticsExt::mean(&st) == SummaryStatisticsExt::mean(&base);
                let mut m1 = st.clone(); let mut m2 = base.clone();
                ok = ok && m1.quantile_axis_mut(Axis(1), n64(0.5), &Lower).map(|a| a.into_dyn()) == m2.quantile_axis_mut(Axis(1), n64(0.5), &Lower);
            }
            if !ok { rep.fail(cfg, &case, "a statistic depends on ownership or static/dynamic dimensionality", json!({})); }
            rep.eval(&case, size >= 2);
        }
    }}
}

/// C20, value forms of the extrema on data with ties between distinguishable elements (0.0 and -0.0 compare equal):
/// which of the tied elements min / max / min_skipnan / max_skipnan return must not depend on the layout (bit patterns compared)
fn extremum_ties(cfg: &mut Cfg, rep: &mut Report) {
    // the logically first element is not extremal and both zeros occur: the element returned is then the first tied one that
    // the traversal meets
    let datasets: Vec<(Vec<usize>, Vec<f64>)> = vec![
        (vec![3], vec![1.0, 0.0, -0.0]), (vec![3], vec![1.0, -0.0, 0.0]),
        (vec![2, 2], vec![1.0, 0.0, -0.0, 2.0]), (vec![2, 2], vec![3.0, -0.0, 0.0, 2.0]),
    ];
    for (shape, data) in datasets {
        let base = ArrayD::from_shape_vec(IxDyn(&shape), data.clone()).unwrap();
        for neg in [false, true] {
            let b = if neg { base.mapv(|x| -x) } else { base.clone() };
            let fp = |r: &Relayout<f64>| { let v = r.view(); format!("min={:x} max={:x} min_skipnan={:x} max_skipnan={:x}", v.min().unwrap().to_bits(), v.max().unwrap().to_bits(), v.min_skipnan().to_bits(), v.max_skipnan().to_bits()) };
            let canon = fp(&Relayout::new(&b, "c", 0.125));
            for lay in LAYOUTS {
                let case = format!("layouts;class=extremum_tie_choice;shape={:?};data={:?};layout={}", shape, b.iter().map(|x| format!("{:?}", x)).collect::<Vec<_>>(), lay);
                if !rep.want(cfg, &case) { continue; }
                let got = fp(&Relayout::new(&b, lay, 0.125));
                if got != canon { rep.fail(cfg, &case, "which of several equal extremal elements is returned depends on the memory layout", json!({"got": got, "canonical": canon})); }
                rep.eval(&case, lay != "c");
            }
        }
    }
}

/// a fingerprint of every layout-independent statistic, as strings (bit patterns for floats)
fn summarize(ra: &Relayout<i64>, rb: &Relayout<i64>, rf: &Relayout<f64>) -> Vec<String> {
    let (a, b, f) = (&ra.view(), &rb.view(), &rf.view());
    let mut out = vec![];
    let nd = a.ndim();
    out.push(format!("argmin={:?}", a.argmin().map(|d| d.slice().to_vec())));
    out.push(format!("argmax={:?}", a.argmax().map(|d| d.slice().to_vec())));
    out.push(format!("min={:?} max={:?}", a.min(), a.max()));
    out.push(format!("argmin_skipnan={:?}", f.argmin_skipnan().map(|d| d.slice().to_vec())));
    out.push(format!("argmax_skipnan={:?}", f.argmax_skipnan().map(|d| d.slice().to_vec())));
    out.push(format!("min_skipnan={:x} max_skipnan={:x}", f.min_skipnan().to_bits(), f.max_skipnan().to_bits()));
    out.push(format!("count_eq={:?} sq={:?} l1={:?} linf={:?}", a.count_eq(b), a.sq_l2_dist(b), a.l1_dist(b), a.linf_dist(b)));
    out.push(format!("l2={:?} mae={:?} mse={:?}", a.l2_dist(b).map(|x| x.to_bits()), a.mean_abs_err(b).map(|x| x.to_bits()), a.mean_sq_err(b).map(|x| x.to_bits())));
    out.push(format!("mean={:?} wsum={:?}", SummaryStatisticsExt::mean(a), a.to_owned().weighted_sum(&b.to_owned())));
    out.push(format!("fold_skipnan={}", f.fold_skipnan(0.0, |acc, x| acc + x.raw()).to_bits()));
    let af = a.mapv(|x| x as f64);
    out.push(format!("fmean={:?} entropy_small={:?}", SummaryStatisticsExt::mean(&af).map(|x| x.to_bits()), a.mapv(|x| if x == 0 { 0.0f64 } else { 1.0f64 }).entropy().map(|x| x.to_bits())));
    for ax in 0..nd {
        for (nm, q) in [("0", 0.0), ("med", 0.5), ("1", 1.0), ("0.3", 0.3)] {
            // the mutating routines run on a mutable view with the layout under test
            let mut c = ra.clone();
            let r1 = c.view_mut().quantile_axis_mut(Axis(ax), n64(q), &Lower).map(|x| x.iter().copied().collect::<Vec<_>>());
            let mut c2 = ra.clone();
            let r2 = c2.view_mut().quantile_axis_mut(Axis(ax), n64(q), &Higher).map(|x| x.iter().copied().collect::<Vec<_>>());
            let mut c3 = ra.clone();
            let r3 = c3.view_mut().quantile_axis_mut(Axis(ax), n64(q), &Nearest).map(|x| x.iter().copied().collect::<Vec<_>>());
            out.push(format!("q{}[ax{}]={:?}/{:?}/{:?}", nm, ax, r1, r2, r3));
        }
        let w: Array1<i64> = (0..a.shape()[ax]).map(|k| (k as i64 % 3) + 1).collect();
        out.push(format!("wsum_axis{}={:?}", ax, a.to_owned().weighted_sum_axis(Axis(ax), &w).map(|x| x.iter().copied().collect::<Vec<_>>())));
        out.push(format!("fold_axis_skipnan{}={:?}", ax, f.fold_axis_skipnan(Axis(ax), 0i64, |acc, x| acc + x.raw() as i64).iter().copied().collect::<Vec<_>>()));
        {
            let mut c4 = rf.clone();
            out.push(format!("map_axis_skipnan_mut{}={:?}", ax, c4.view_mut().map_axis_skipnan_mut(Axis(ax), |lane| lane.iter().fold(0i64, |acc, x| acc + x.raw() as i64 * 3 + 1)).iter().copied().collect::<Vec<_>>()));
            let mut c5 = rf.clone();
            out.push(format!("quantile_axis_skipnan_mut{}={:?}", ax, c5.view_mut().quantile_axis_skipnan_mut(Axis(ax), n64(0.5), &Lower).map(|x| x.iter().map(|v| v.to_bits()).collect::<Vec<_>>())));
        }
    }
    if nd == 2 {
        let m = a.to_owned().into_dimensionality::<Ix2>().unwrap();
        let g = Grid::from((0..m.ncols()).map(|_| Bins::new(Edges::from(vec![-6i64, 0, 3, 50]))).collect::<Vec<_>>());
        // histogram of the *view* (layout under test)
        let mv = a.view().into_dimensionality::<Ix2>().unwrap();
        out.push(format!("hist={:?}", mv.histogram(g).counts().iter().copied().collect::<Vec<_>>()));
        let _ = m;
    }
    out
}
