//! logically equal re-layouts of an n-D array
use ndarray::prelude::*;

pub const LAYOUTS: [&str; 5] = ["c", "f", "stepped", "rev", "embedded"];

/// owner arrays + a function giving the view that is logically equal to `base`
#[derive(Clone)]
pub struct Relayout<T> {
    pub owner: ArrayD<T>,
    pub kind: &'static str,
    pub shape: Vec<usize>,
}

impl<T: Clone> Relayout<T> {
    pub fn new(base: &ArrayD<T>, kind: &'static str, guard: T) -> Relayout<T> {
        let shape = base.shape().to_vec();
        let owner = match kind {
            "c" => base.clone(),
            "f" => base.t().as_standard_layout().into_owned().reversed_axes(),
            "stepped" => {
                let mut p = ArrayD::from_elem(IxDyn(&shape.iter().map(|d| 2 * d + 1).collect::<Vec<_>>()), guard);
                { let mut v = p.view_mut(); for ax in 0..shape.len() { v.slice_axis_inplace(Axis(ax), ndarray::Slice::new(1, None, 2)); } v.assign(base); }
                p
            }
            "rev" => {
                let mut r = base.clone();
                for ax in 0..shape.len() { r.invert_axis(Axis(ax)); }
                r.as_standard_layout().into_owned()
            }
            // only the first axis runs backwards in memory (contiguous, last axis of stride 1, but not in C order)
            "rev0" => {
                let mut r = base.clone();
                if !shape.is_empty() { r.invert_axis(Axis(0)); }
                r.as_standard_layout().into_owned()
            }
            _ => {
                // embedded: offset 1 in every axis of a parent that is 2 larger
                let mut p = ArrayD::from_elem(IxDyn(&shape.iter().map(|d| d + 2).collect::<Vec<_>>()), guard);
                { let mut v = p.view_mut(); for ax in 0..shape.len() { let d = shape[ax] as isize; v.slice_axis_inplace(Axis(ax), ndarray::Slice::new(1, Some(1 + d), 1)); } v.assign(base); }
                p
            }
        };
        Relayout { owner, kind, shape }
    }
    pub fn view(&self) -> ArrayViewD<'_, T> {
        let mut v = self.owner.view();
        match self.kind {
            "stepped" => { for ax in 0..self.shape.len() { v.slice_axis_inplace(Axis(ax), ndarray::Slice::new(1, None, 2)); } }
            "rev" => { for ax in 0..self.shape.len() { v.invert_axis(Axis(ax)); } }
            "rev0" => { if !self.shape.is_empty() { v.invert_axis(Axis(0)); } }
            "embedded" => { for ax in 0..self.shape.len() { let d = self.shape[ax] as isize; v.slice_axis_inplace(Axis(ax), ndarray::Slice::new(1, Some(1 + d), 1)); } }
            _ => {}
        }
        v
    }
    pub fn view_mut(&mut self) -> ArrayViewMutD<'_, T> {
        let shape = self.shape.clone();
        let mut v = self.owner.view_mut();
        match self.kind {
            "stepped" => { for ax in 0..shape.len() { v.slice_axis_inplace(Axis(ax), ndarray::Slice::new(1, None, 2)); } }
            "rev" => { for ax in 0..shape.len() { v.invert_axis(Axis(ax)); } }
            "rev0" => { if !shape.is_empty() { v.invert_axis(Axis(0)); } }
            "embedded" => { for ax in 0..shape.len() { let d = shape[ax] as isize; v.slice_axis_inplace(Axis(ax), ndarray::Slice::new(1, Some(1 + d), 1)); } }
            _ => {}
        }
        v
    }
}

/// all shapes with `ndim` axes, each axis length in 0..=maxlen
pub fn shapes(ndim: usize, maxlen: usize) -> Vec<Vec<usize>> {
    let mut out = vec![vec![]];
    for _ in 0..ndim {
        let mut nx = vec![];
        for s in &out { for d in 0..=maxlen { let mut t: Vec<usize> = s.clone(); t.push(d); nx.push(t); } }
        out = nx;
    }
    out
}
